"""C02 — signatures and parameter digests cover the specified bytes; tampering is detected."""
import asyncio
import hashlib
import pktcommon as PK
import tlvschema as T
import strict_tlv as S

PROP = 'C02'
DRIVER = 'C01'        # the packet model driver is shared with C01
TITLE = 'Signatures and parameter digests cover the specified bytes; tampering detected'
LEAN_TARGETS = ['NdnProofs.Props.C02', 'NdnGen.C01']
THEOREMS = [
    'Ndn.C02.sign_input_is_signed_portion_data', 'Ndn.C02.sign_input_is_signed_portion_interest',
    'Ndn.C02.digest_covers_params_to_end', 'Ndn.C02.covered_end_is_sigvalue_offset',
    'Ndn.C02.parsed_cover_is_signed_portion_data', 'Ndn.C02.parsed_cover_is_signed_portion_interest',
    'Ndn.C02.own_interest_passes_digest_check', 'Ndn.C02.own_interest_verifies',
    'Ndn.C02.parsed_digest_cover_params_interest', 'Ndn.C02.tamper_rejected', 'Ndn.C02.verify_own',
    'Ndn.C02.params_digest_iff', 'Ndn.Packet.interest_items', 'Ndn.Gen.C01.schemas_match',
]
PARTIAL = {}
TRUSTED = [
    'C02: the signature scheme is ideal - `correct` (verify accepts what sign produced) and `unforgeable` (verify accepts only what sign produced) are HYPOTHESES of verify_own / tamper_rejected, never axioms; real cryptography (pycryptodomex) is exercised by the correspondence only',
    'C02: SHA-256 is an opaque function in the theorems (params_digest_iff holds for every function H)',
]
RULE = ('signed Data / Interest packets as in C01 with every shipped signer and its matching verifier; per packet: the bytes '
        'given to the signer, the ranges parse_* reports and the signed portion computed by an independent strict reader '
        'are compared, the verifier must accept, and then 10 (quick) / 40 (thorough) tampered copies are parsed and '
        'verified: single-byte substitutions at sampled positions, truncations, and TLV-level edits (element dropped, '
        'duplicated, swapped, unknown element inserted, length edited). A tampered copy whose signed portion or signature '
        'value differs must be rejected; params_sha256_checker must agree with SHA-256 of ApplicationParameters..end. '
        'non-trivial = packet signed and at least one tampered copy still parses; distinct = distinct generator inputs')
LEVEL_TEXT = ('Lean 4 theorems about the packet model: the bytes handed to the signer are exactly the specified signed portion of '
              'the FINAL wire (Data: Name..SignatureInfo; Interest: name components except the digest, then ApplicationParameters '
              'up to the signature value), also after the reserved signature space was shrunk; the digest covers '
              'ApplicationParameters to the end of the shrunk value; the ranges parse_data / parse_interest report for a made '
              'packet are exactly those portions (Interest: sig-covered parts concatenate to the signer input, signature value = '
              'what the signer wrote, digest-covered range = ApplicationParameters..end, digest value = H of it, so '
              'params_sha256_checker accepts; also for unsigned Interests with ApplicationParameters); '
              'under the ideal-signature hypotheses the matching verifier accepts the packet and rejects every parsed packet '
              'whose portion or signature value differs; the digest check holds iff component = H(portion). Real signers and '
              'verifiers are exercised by the correspondence: recorded signer input = parser ranges = independent strict reading, '
              'and tampered copies are rejected.')
LEVEL_NOTE = ('Cryptography is an ideal-scheme hypothesis. The parser-range theorems are proved for signed Data and for Interests '
              'to which make_interest appends the digest component; for Interests whose name already carries a caller-supplied '
              'digest component the reported ranges are compared on every generated packet (model, code and strict reader).')
TECHNIQUE = 'Lean 4 proof (byte-range algebra over the shrink theorem; ideal-signature hypotheses) + differential and tamper testing'
DESIGN_REF = 'DESIGN.md section 7, C02'


# ------------------------------------------------------------------------------------- cases
def cases(rng, tier):
    n = 200 if tier == 'quick' else 5000
    k = 10 if tier == 'quick' else 40
    for _ in range(n):
        c = PK.gen_data_case(rng, tier) if rng.random() < 0.5 else PK.gen_interest_case(rng, tier)
        if c['signer'][0] == 'none' and rng.random() < 0.8:
            c['signer'] = rng.choice([['digest', 1], ['hmac'], ['ec256'], ['ed25519']])
        if c['signer'][0] == 'digest' and c['pkt'] == 'interest':
            c['signer'] = ['digest', 1]
        # keep payloads moderate: every tampered copy is parsed and verified
        for key in ('content', 'app'):
            if c.get(key) and c[key] > 3000:
                c[key] = c[key] % 600
        c['tamper'] = [[rng.choice(['subst', 'subst', 'subst', 'trunc', 'dup', 'del', 'swap', 'ins', 'len', 'digestcut']),
                        rng.getrandbits(30), rng.getrandbits(8)] for _ in range(k)]
        yield c


def shrink(case):
    t = case['tamper']
    for i in range(len(t)):
        yield dict(case, tamper=t[:i] + t[i + 1:])
    for key in ('content', 'app'):
        if case.get(key):
            yield dict(case, **{key: case[key] // 2})
    if case['name']:
        yield dict(case, name=case['name'][:-1])


def _apply_tamper(wire, t):
    import random
    from props import c07
    kind, r, b = t
    rng = random.Random(r)
    if not wire:
        return wire
    if kind == 'subst':
        i = r % len(wire)
        nb = b if b != wire[i] else (b + 1) % 256
        return wire[:i] + bytes([nb]) + wire[i + 1:]
    if kind == 'trunc':
        return wire[:r % len(wire)]
    nodes = c07._nodes(c07._tree(wire, 0, len(wire)), [])
    if not nodes:
        return wire
    if kind == 'digestcut':
        # shorten a ParametersSha256Digest component (02 20 <32 bytes>) to a proper prefix, keeping all lengths consistent
        cand = [m for m, _, _ in nodes if wire[m[0]:m[0] + 2] == b'\x02\x20' and m[2] - m[1] == 32]
        if not cand:
            return wire
        m = cand[r % len(cand)]
        k = b % 32
        try:
            return c07._rebuild(wire, c07._tree(wire, 0, len(wire)), (m[0], m[2]), b'\x02' + bytes([k]) + wire[m[1]:m[1] + k])
        except Exception:     # noqa
            return wire
    n, sibs, i = nodes[r % len(nodes)]
    off, vs, ve = n[0], n[1], n[2]
    el = wire[off:ve]
    tree = c07._tree(wire, 0, len(wire))
    try:
        if kind == 'dup':
            return c07._rebuild(wire, tree, (off, ve), el + el)
        if kind == 'del':
            return c07._rebuild(wire, tree, (off, ve), b'')
        if kind == 'swap' and i + 1 < len(sibs):
            nx = sibs[i + 1]
            return c07._rebuild(wire, tree, (off, nx[2]), wire[nx[0]:nx[2]] + el)
        if kind == 'ins':
            t2 = rng.choice([0xf0, 0xfe, 0x300, 0x3e8])
            pl = bytes(rng.getrandbits(8) for _ in range(rng.choice([0, 1, 4])))
            return c07._rebuild(wire, tree, (off, ve), T.tl(t2) + T.tl(len(pl)) + pl + el)
        if kind == 'len':
            p = vs - 1
            return wire[:p] + bytes([(wire[p] + 1 + b % 3) % 256]) + wire[p + 1:]
    except Exception:     # noqa
        return wire
    return wire


# ------------------------------------------------------------------------------------- specified portions
def spec_portions(kind, wire):
    """independent strict reading: (signed portion, signature value, digest portion, digest component value) or None"""
    try:
        t, vs, ve = S.read_elem(wire, 0, len(wire))
        if ve != len(wire) or t != (6 if kind == 'data' else 5):
            return None
        els, off = [], vs
        while off < ve:
            t2, a, b = S.read_elem(wire, off, ve)
            els.append((t2, off, a, b))
            off = b
    except S.Reject:
        return None
    if kind == 'data':
        name = [e for e in els if e[0] == 7]
        si = [e for e in els if e[0] == 0x16]
        sv = [e for e in els if e[0] == 0x17]
        if not name or not si or not sv:
            return (None, None, None, None)
        return (wire[name[0][1]:si[0][3]], wire[sv[0][2]:sv[0][3]], None, None)
    name = [e for e in els if e[0] == 7]
    if not name:
        return (None, None, None, None)
    comps, p = [], name[0][2]
    try:
        while p < name[0][3]:
            ct, cvs, cve = S.read_elem(wire, p, name[0][3])
            comps.append((ct, wire[p:cve], wire[cvs:cve]))
            p = cve
    except S.Reject:
        return None
    ap = [e for e in els if e[0] == 0x24]
    sv = [e for e in els if e[0] == 0x2e]
    dig = [c for c in comps if c[0] == 2]
    # ApplicationParameters counts only where a strict reading of the Interest recognises it (in order)
    from ndn.encoding import ndn_format_0_3 as f
    fs = T.class_schema(f.InterestPacketValue)
    try:
        vals = S.strict_packet(fs, wire, 5, False, True)
    except S.Reject:
        return None
    if ap and vals[16] is None:
        return 'ambiguous'
    digest_portion = wire[ap[0][1]:ve] if ap else None
    signed = None
    if ap and sv:
        signed = b''.join(c[1] for c in comps if c[0] != 2) + wire[ap[0][1]:sv[0][1]]
    return (signed, wire[sv[0][2]:sv[0][3]] if sv else None, digest_portion, dig[-1][2] if dig else None)


# ------------------------------------------------------------------------------------- verification
def _verify(case, parsed_sp_wire):
    """run the matching shipped verifier on a wire; returns True/False/None (no verifier) or 'exc:<cls>'"""
    from ndn import encoding as enc
    from ndn.security import validator as v
    k = case['signer'][0]
    try:
        if case['pkt'] == 'data':
            name, _, _, sp = enc.parse_data(parsed_sp_wire)
        else:
            name, _, _, sp = enc.parse_interest(parsed_sp_wire)
    except Exception as e:     # noqa
        return 'unparsable'
    try:
        if k == 'digest':
            # sha256_digest_checker only judges packets whose SignatureInfo says DigestSha256 (it lets every
            # other packet through for the next checker of a union): its verdict counts only for those
            if sp.signature_info is None or sp.signature_info.signature_type != 0:
                return None
            return bool(asyncio.run(v.sha256_digest_checker(name, sp)))
        if k == 'hmac':
            return bool(v.verify_hmac(b'secret-key-0123', sp))
        if k.startswith('ec'):
            return bool(v.verify_ecdsa(PK.keys()[k][1], sp))
        if k == 'rsa2048':
            return bool(v.verify_rsa(PK.keys()[k][1], sp))
        if k == 'ed25519':
            return bool(v.verify_ed25519(PK.keys()[k][1], sp))
    except Exception as e:     # noqa
        return 'exc:' + type(e).__name__
    return None


def _digest_check(wire):
    from ndn import encoding as enc
    from ndn.security import validator as v
    try:
        name, _, _, sp = enc.parse_interest(wire)
    except Exception:     # noqa
        return 'unparsable'
    try:
        return bool(asyncio.run(v.params_sha256_checker(name, sp)))
    except Exception as e:     # noqa
        return 'exc:' + type(e).__name__


def run_impl(case):
    made = PK.make_packet(case)
    out = {'made': made, 'copies': []}
    if made['made'][0] != 'ok':
        return out
    wire = bytes.fromhex(made['made'][1])
    out['parsed'] = PK.parse_packet(case['pkt'], wire)
    out['spec'] = _hexspec(spec_portions(case['pkt'], wire))
    out['verify'] = _verify(case, wire)
    if case['pkt'] == 'interest':
        out['digest_ok'] = _digest_check(wire)
    seen = set()
    for t in case['tamper']:
        w2 = _apply_tamper(wire, t)
        if w2 == wire or w2 in seen:
            continue
        seen.add(w2)
        c = {'wire': w2.hex(), 'parsed': PK.parse_packet(case['pkt'], w2), 'spec': _hexspec(spec_portions(case['pkt'], w2)),
             'verify': _verify(case, w2)}
        if case['pkt'] == 'interest':
            c['digest_ok'] = _digest_check(w2)
        out['copies'].append(c)
    return out


def _hexspec(s):
    if s == 'ambiguous':
        return None
    return None if s is None else [None if x is None else bytes(x).hex() for x in s]


# ------------------------------------------------------------------------------------- model
def model_line(case, impl):
    l = PK.model_make_line(case, impl['made'])
    if l is None or impl['made']['made'][0] != 'ok':
        return l
    op = 'pdata' if case['pkt'] == 'data' else 'pint'
    for c in impl['copies']:
        l += f" ;; {op} {T.hx(bytes.fromhex(c['wire']))}"
    return l


def model_obs(answer, case, impl):
    parts = answer.split(' ;; ')
    made, parsed = PK.parse_model_answer(parts[0])
    o = {'made': made['made']}
    if made['made'][0] == 'ok':
        o['covered'] = made['covered'] if case['signer'][0] != 'none' else None
        o['parsed'] = _pc(parsed, case)
        o['copies'] = []
        for p in parts[1:]:
            t = p.split()
            o['copies'].append(_pc(PK.parse_model_parse(t[1:]), case) if t[0] == 'ok' else {'res': 'err', 'err': t[1]})
    return o


def _pc(parsed, case):
    """the model's params_sha256_checker verdict is compared for Interests only"""
    if parsed.get('res') == 'ok' and case['pkt'] != 'interest':
        parsed = dict(parsed)
        parsed.pop('PC', None)
    return parsed


def _ipc(obs, c, case):
    if obs.get('res') == 'ok' and case_is_interest(case):
        obs = dict(obs)
        obs['PC'] = c.get('digest_ok') is True
    return obs


def case_is_interest(case):
    return case['pkt'] == 'interest'


def impl_obs(impl):
    m = impl['made']
    o = {'made': m['made']}
    if m['made'][0] == 'ok':
        o['covered'] = m.get('covered')
        isint = 'digest_ok' in impl
        o['parsed'] = PK.impl_parse_obs(impl['parsed'])
        if isint and o['parsed'].get('res') == 'ok':
            o['parsed']['PC'] = impl['digest_ok'] is True
        o['copies'] = []
        for c in impl['copies']:
            x = PK.impl_parse_obs(c['parsed'])
            if isint and x.get('res') == 'ok':
                x['PC'] = c.get('digest_ok') is True
            o['copies'].append(x)
    return o


# ------------------------------------------------------------------------------------- oracle
def oracle(case, impl):
    m = impl['made']
    if m['made'][0] != 'ok':
        return None            # C01's concern
    signed = case['signer'][0] != 'none'
    p, spec = impl['parsed'], impl['spec']
    if p['res'] != 'ok' or spec is None:
        return 'made packet does not parse'
    if signed:
        reported = ''.join(p['SC'])
        if m.get('covered') is None:
            return 'the signer was not asked to sign'
        if m['covered'] != spec[0]:
            return 'bytes handed to the signer differ from the specified signed portion of the final wire'
        if reported != spec[0]:
            return 'bytes reported by the parser differ from the specified signed portion'
        if p['SV'] != spec[1] or p['SV'] != m['sig']:
            return 'signature value reported by the parser differs from what the signer wrote'
        if impl['verify'] is False or (isinstance(impl['verify'], str)):
            return f"the matching verifier does not accept the packet its signer produced ({impl['verify']})"
    if case['pkt'] == 'interest':
        r = _digest_rule(impl, spec, impl.get('digest_ok'))
        if r:
            return 'made packet: ' + r
        if (signed or case['app'] is not None) and impl.get('digest_ok') is not True:
            return "the library's own parameterised Interest fails its parameters-digest check"

    for c in impl['copies']:
        cp, cs = c['parsed'], c['spec']
        if cp['res'] != 'ok':
            continue
        if case['pkt'] == 'interest' and cs is not None:
            r = _digest_rule(c, cs, c.get('digest_ok'))
            if r:
                return 'tampered copy: ' + r
        if signed and c['verify'] is True:
            # what the verifier consumed must be what was signed ...
            if ''.join(cp['SC']) != spec[0] or cp['SV'] != spec[1]:
                return 'verifier accepted a copy although the bytes it checked or the signature value differ from the signed packet'
            # ... and when a strict reading of the copy exists, its signed portion must be the signed one
            if cs is not None and cs[0] is not None and (cs[0] != spec[0] or cs[1] != spec[1]):
                return 'verifier accepted a copy whose signed portion or signature value differs from the signed packet'
    return None


def _digest_rule(obs, spec, got):
    """params_sha256_checker accepts iff digest component == SHA-256(ApplicationParameters .. end)"""
    if got in ('unparsable',) or got is None:
        return None
    if isinstance(got, str):
        return f'parameters-digest check raised {got}'
    portion, comp = spec[2], spec[3]
    if portion is None or comp is None:
        want = False           # nothing the digest could equal
    else:
        want = hashlib.sha256(bytes.fromhex(portion)).hexdigest() == comp
    if bool(got) != want:
        return f'parameters-digest check answered {got} but digest-equals-SHA256(parameters..end) is {want}'
    return None


def nontrivial(case, impl):
    return impl['made']['made'][0] == 'ok' and case['signer'][0] != 'none' and \
        any(c['parsed']['res'] == 'ok' for c in impl['copies'])


def tags(case, impl):
    t = ['pkt:' + case['pkt'], 'signer:' + case['signer'][0]]
    for c in impl['copies']:
        t.append('copy:' + ('parses' if c['parsed']['res'] == 'ok' else 'rejected'))
        if c['parsed']['res'] == 'ok':
            t.append('copy-verify:' + str(c['verify']))
    return t


def finding_key(case, impl, why):
    import re
    return (case['pkt'] + ':' + re.sub(r'[^a-zA-Z]+', '-', why).strip('-').lower())[:90]
