"""C02 — signatures and parameter digests cover the specified bytes; tampering is detected."""
import asyncio
import hashlib
import pktcommon as PK
import tlvschema as T
import strict_tlv as S

PROP = 'C02'
DRIVER = 'C02'        # lean/NdnModel/Drv/C02.lean: C01's packet protocol plus the signers / checkers inside the model
TITLE = 'Signatures and parameter digests cover the specified bytes; tampering detected'
LEAN_TARGETS = ['NdnProofs.Props.C02', 'NdnProofs.Props.C02Sign', 'NdnProofs.Props.C02Vectors', 'NdnGen.C01']
THEOREMS = [
    'Ndn.C02.sign_input_is_signed_portion_data', 'Ndn.C02.sign_input_is_signed_portion_interest',
    'Ndn.C02.digest_covers_params_to_end', 'Ndn.C02.covered_end_is_sigvalue_offset',
    'Ndn.C02.parsed_cover_is_signed_portion_data', 'Ndn.C02.parsed_cover_is_signed_portion_interest',
    'Ndn.C02.own_interest_passes_digest_check', 'Ndn.C02.own_interest_verifies',
    'Ndn.C02.parsed_digest_cover_params_interest', 'Ndn.C02.tamper_rejected', 'Ndn.C02.verify_own',
    'Ndn.C02.params_digest_iff', 'Ndn.Packet.interest_items', 'Ndn.Gen.C01.schemas_match',
    # ranges for an Interest whose name already carries a caller-supplied digest placeholder (any position)
    'Ndn.C02.parsed_cover_is_signed_portion_interest_placeholder', 'Ndn.C02.own_interest_placeholder_passes_digest_check',
    'Ndn.C02.own_interest_placeholder_verifies', 'Ndn.C02.parsed_digest_cover_params_interest_placeholder',
    # DigestSha256 / HMAC-SHA256 signers and checkers inside the model (Props/C02Sign.lean)
    'Ndn.C02.digest_checker_iff', 'Ndn.C02.digest_checker_other_type', 'Ndn.C02.verify_hmac_iff', 'Ndn.C02.hmac_checker_iff',
    'Ndn.C02.union_checker_iff', 'Ndn.C02.hmac_scheme_correct', 'Ndn.C02.digest_scheme_correct',
    'Ndn.C02.digest_checker_accepts_signer', 'Ndn.C02.hmac_checker_accepts_signer',
    'Ndn.C02.digest_tamper_needs_collision', 'Ndn.C02.digest_tamper_value_rejected',
    'Ndn.C02.hmac_tamper_needs_collision', 'Ndn.C02.hmac_tamper_value_rejected', 'Ndn.Hmac.hmac_collision',
    'Ndn.C02.sign_data_parse', 'Ndn.C02.sign_interest_parse', 'Ndn.C02.shape_appended', 'Ndn.C02.shape_placeholder',
    'Ndn.C02.digest_signed_data_accepted', 'Ndn.C02.hmac_signed_data_accepted',
    'Ndn.C02.digest_signed_interest_accepted', 'Ndn.C02.digest_signed_interest_placeholder_accepted',
    'Ndn.C02.hmac_signed_interest_accepted', 'Ndn.C02.hmac_signed_interest_placeholder_accepted',
    'Ndn.Sha256.sha256_length', 'Ndn.C02.digest_signed_data_accepted_sha256', 'Ndn.C02.hmac_signed_data_accepted_sha256',
    'Ndn.C02.digest_signed_interest_accepted_sha256', 'Ndn.C02.hmac_signed_interest_accepted_sha256',
]
PARTIAL = {}
TRUSTED = [
    'C02: for the public-key schemes (ECDSA, RSA, Ed25519) the signature scheme is ideal - `correct` (verify accepts what sign produced) and `unforgeable` (verify accepts only what sign produced) are HYPOTHESES of verify_own / tamper_rejected, never axioms; real cryptography (pycryptodomex) is exercised by the correspondence only',
    'C02: DigestSha256 and HMAC-SHA256 need no such hypothesis: signer and checker are inside the model, acceptance of a tampered copy is stated as a collision of the hash function. SHA-256 is a parameter H in those theorems (the round-trip theorems only need |H x| = 32, proved for the executable Lean SHA-256); that the executable Lean SHA-256 / HMAC are THE SHA-256 / HMAC is tied by RFC 4231 / FIPS 180-4 vectors evaluated in the kernel and by comparison with hashlib, hmac and pycryptodomex on every generated case',
    'C02: HMAC.verify of pycryptodomex compares through a randomly keyed BLAKE2s (constant-time idiom); the model takes it as byte equality',
]
RULE = ('signed Data / Interest packets as in C01 with every shipped signer and its matching verifier; per packet: the bytes '
        'given to the signer, the ranges parse_* reports and the signed portion computed by an independent strict reader '
        'are compared, the verifier must accept, and then 10 (quick) / 24 (thorough) tampered copies are parsed and '
        'verified: single-byte substitutions at sampled positions, truncations, and TLV-level edits (element dropped, '
        'duplicated, swapped, unknown element inserted, length edited), plus 6 (quick) / 13 (thorough) edits aimed at the '
        'Name (component inserted - also right behind / before the digest component -, deleted, split, digest component '
        'moved), SignatureInfo / KeyLocator (SignatureType changed to another real type, unknown element inserted, KeyLocator '
        'name extended), and the signature elements (second SignatureInfo / SignatureValue, signature value truncated to a '
        'prefix / emptied / extended, element appended after it). Acceptance is judged for verify_* and for the shipped '
        'known-key checker classes (from_key). A tampered copy whose signed portion or signature '
        'value differs must be rejected; params_sha256_checker must agree with SHA-256 of ApplicationParameters..end. '
        'On the made packet and on every tampered copy the verdicts of the real sha256_digest_checker, verify_hmac, '
        'HmacChecker.from_key, union_checker(sha256_digest_checker, HmacChecker) and params_sha256_checker are compared with '
        'the verdicts of their Lean models. A second stream (60 quick / 700 thorough) builds packets with the REAL '
        'DigestSha256Signer / HmacSha256Signer objects - HMAC keys of 0, 1, 15, 32, 63, 64, 65, 100, 200 bytes, KeyLocator names '
        'equal to / longer than / unrelated to the checker\'s key name, wrong checker keys - and compares the whole wire with '
        'the Lean model that contains the signer (make_* with the signer inside the model), the checker verdicts as above, '
        'and HMAC-SHA256 / SHA-256 of the model with hmac, hashlib and pycryptodomex on the covered bytes and on random messages. '
        'non-trivial = packet signed and at least one tampered copy still parses; distinct = distinct generator inputs')
LEVEL_TEXT = ('Lean 4 theorems about the packet model: the bytes handed to the signer are exactly the specified signed portion of '
              'the FINAL wire (Data: Name..SignatureInfo; Interest: name components except the digest, then ApplicationParameters '
              'up to the signature value), also after the reserved signature space was shrunk; the digest covers '
              'ApplicationParameters to the end of the shrunk value; the ranges parse_data / parse_interest report for a made '
              'packet are exactly those portions (Interest: sig-covered parts concatenate to the signer input, signature value = '
              'what the signer wrote, digest-covered range = ApplicationParameters..end, digest value = H of it, so '
              'params_sha256_checker accepts; also for unsigned Interests with ApplicationParameters); '
              'under the ideal-signature hypotheses the matching verifier accepts the packet and rejects every parsed packet '
              'whose portion or signature value differs; the digest check holds iff component = H(portion). DigestSha256 and '
              'HMAC-SHA256 signers and checkers are inside the model: make, parse, check = accept as one theorem; verdict iff value = '
              'hash / HMAC of the covered bytes; tampering accepted only on a hash collision. Real signers and '
              'verifiers are exercised by the correspondence: recorded signer input = parser ranges = independent strict reading, '
              'and tampered copies are rejected.')
LEVEL_NOTE = ('Public-key cryptography (ECDSA, RSA, Ed25519) is an ideal-scheme hypothesis; DigestSha256 and HMAC-SHA256 are not: '
              'their signers and checkers (DigestSha256Signer, HmacSha256Signer, sha256_digest_checker, params_sha256_checker, '
              'union_checker, verify_hmac, HmacChecker.from_key) are modelled, "make_data / make_interest with the signer, then parse, '
              'then the matching checker(s) = accept" is one theorem each (for every key; also with the executable Lean SHA-256, no '
              'hypothesis left), a checker accepts covered bytes c and value s iff s = SHA-256(c) resp. HMAC(k, c), and a tampered copy '
              'that keeps the signature value is accepted only on a SHA-256 collision (sha256_digest_checker lets other signature types '
              'through, as the code does). The parser-range theorems are proved for signed Data and for Interests with the digest '
              'component appended by make_interest OR supplied by the caller as a 34-byte placeholder at any position of the name '
              '(signed and unsigned-with-parameters).')
TECHNIQUE = ('Lean 4 proof (byte-range algebra over the shrink theorem; DigestSha256 / HMAC-SHA256 signers and checkers inside the model, '
             'tampering = hash collision; ideal-signature hypotheses for the public-key schemes) + differential and tamper testing')
DESIGN_REF = 'DESIGN.md section 7, C02'


# ------------------------------------------------------------------------------------- cases
def cases(rng, tier):
    n = 200 if tier == 'quick' else 2500
    k = 10 if tier == 'quick' else 24
    yield from _sign_cases(rng, tier)
    for _ in range(n):
        c = PK.gen_data_case(rng, tier) if rng.random() < 0.5 else PK.gen_interest_case(rng, tier)
        if c['signer'][0] == 'none' and rng.random() < 0.8:
            c['signer'] = rng.choice([['digest', 1], ['hmac'], ['ec256'], ['ed25519']])
        # keep packets moderate (a few hundred bytes, at most ~2 kB): every tampered copy is parsed, verified and its
        # observation kept until the end of the run, so a 64 kB name would cost tens of MB per case
        for key in ('content', 'app'):
            if c.get(key) and c[key] > 1500:
                c[key] = c[key] % 600
        _cap_names(c)
        c['tamper'] = [[rng.choice(['subst', 'subst', 'subst', 'trunc', 'dup', 'del', 'swap', 'ins', 'len', 'digestcut', 'widen']),
                        rng.getrandbits(30), rng.getrandbits(8)] for _ in range(k)]
        # TLV-level edits aimed at the Name, SignatureInfo / KeyLocator and the signature elements
        c['tamper'] += [[rng.choice(TARGETED), rng.getrandbits(30), rng.getrandbits(8)] for _ in range(k // 2 + 1)]
        yield c


def _cap_list(comps, limit=700):
    """drop the components that make a name longer than `limit` bytes (the 65536 boundaries belong to C01)"""
    if sum(len(x) for x in comps) // 2 <= limit:
        return comps
    return [x for x in comps if len(x) // 2 <= 300][:8]


def _cap_names(c):
    c['name'] = _cap_list(c['name'])
    if c.get('key_name') is not None:
        c['key_name'] = _cap_list(c['key_name'])
    if c['pkt'] == 'interest':
        fh = [_cap_list(n, 400) for n in c['param']['forwarding_hint']][:6]
        c['param'] = dict(c['param'], forwarding_hint=fh)
    sg = c['signer']
    if sg[0] == 'custom' and sg[3].get('kl') and sg[3]['kl'][0] == 'name':
        sg[3]['kl'][1] = _cap_list(sg[3]['kl'][1])


TARGETED = ['comp_ins', 'comp_ins', 'digest_move', 'comp_split', 'comp_del', 'sigtype', 'sig2', 'si_ins', 'kl_comp', 'tail', 'sigval', 'sigval']


def _kids(wire, vs, ve):
    out, off = [], vs
    while off < ve:
        t, a, b = S.read_elem(wire, off, ve)
        out.append((t, off, a, b))
        off = b
    return out


def _descend(wire, types):
    """the element reached from the packet's outer element through the first child of each given Type, or None"""
    t, vs, ve = S.read_elem(wire, 0, len(wire))
    node = (t, 0, vs, ve)
    for want in types:
        nxt = [k for k in _kids(wire, node[2], node[3]) if k[0] == want]
        if not nxt:
            return None
        node = nxt[0]
    return node


def _targeted(wire, kind, r, b, is_data):
    """returns (element to replace as (off, end), its new bytes) or None"""
    si_t, sv_t = (0x16, 0x17) if is_data else (0x2c, 0x2e)
    if kind in ('comp_ins', 'digest_move', 'comp_split', 'comp_del'):
        nm = _descend(wire, [7])
        if nm is None:
            return None
        comps = [bytes(wire[k[1]:k[3]]) for k in _kids(wire, nm[2], nm[3])]
        dpos = [i for i, c in enumerate(comps) if c[:1] == b'\x02']
        if kind == 'comp_ins':
            new = T.tl(8) + T.tl(1 + b % 2) + bytes([0x61 + b % 26] * (1 + b % 2))
            i = dpos[-1] + 1 if (dpos and r % 3 == 0) else dpos[0] if (dpos and r % 3 == 1) else r % (len(comps) + 1)
            comps = comps[:i] + [new] + comps[i:]
        elif kind == 'digest_move':
            if not dpos or len(comps) < 2:
                return None
            d = comps.pop(dpos[0])
            i = r % (len(comps) + 1)
            if i == dpos[0]:
                i = (i + 1) % (len(comps) + 1)
            comps.insert(i, d)
        elif kind == 'comp_del':
            cand = [i for i in range(len(comps)) if i not in dpos]
            if not cand:
                return None
            comps.pop(cand[r % len(cand)])
        else:
            cand = []
            for i, c in enumerate(comps):
                ct, cvs, cve = S.read_elem(c, 0, len(c))
                if cve - cvs >= 2 and i not in dpos:
                    cand.append((i, ct, c[cvs:cve]))
            if not cand:
                return None
            i, ct, v = cand[r % len(cand)]
            k = 1 + b % (len(v) - 1)
            comps[i:i + 1] = [T.tl(ct) + T.tl(k) + v[:k], T.tl(ct) + T.tl(len(v) - k) + v[k:]]
        body = b''.join(comps)
        return (nm[1], nm[3]), T.tl(7) + T.tl(len(body)) + body
    if kind == 'sigtype':
        st = _descend(wire, [si_t, 0x1b])
        if st is None or st[3] - st[2] != 1:
            return None
        others = [x for x in (0, 1, 3, 4, 5, 200) if x != wire[st[2]]]
        return (st[1], st[3]), bytes(wire[st[1]:st[2]]) + bytes([others[r % len(others)]])
    if kind == 'sig2':
        n = _descend(wire, [sv_t if r % 2 == 0 else si_t])
        if n is None:
            return None
        el = bytes(wire[n[1]:n[3]])
        if r % 4 == 0 and n[3] - n[2] > 0:
            # the second signature element differs from the first one
            el2 = el[:-1] + bytes([el[-1] ^ 0x01])
            return (n[1], n[3]), (el + el2 if b % 2 else el2 + el)
        return (n[1], n[3]), el + el
    if kind == 'sigval':
        n = _descend(wire, [sv_t])
        if n is None:
            return None
        v = bytes(wire[n[2]:n[3]])
        v2 = [v[:-1], v[:len(v) // 2], v[:1], b'', v + b'\x00', v[1:] + v[:1], bytes(len(v)), v[:-1]][r % 8]
        if v2 == v:
            return None
        return (n[1], n[3]), T.tl(sv_t) + T.tl(len(v2)) + v2
    if kind in ('si_ins', 'kl_comp'):
        path = [si_t] if (kind == 'si_ins' and r % 2 == 0) else [si_t, 0x1c] if kind == 'si_ins' else [si_t, 0x1c, 7]
        n = _descend(wire, path)
        if n is None:
            return None
        kids = _kids(wire, n[2], n[3])
        if kind == 'kl_comp':
            extra = T.tl(8) + T.tl(1) + bytes([0x41 + b % 26])
        else:
            pl = bytes([b] * (r % 3))
            extra = T.tl([0xf0, 0xfe, 0x300][b % 3]) + T.tl(len(pl)) + pl
        i = (r // 7) % (len(kids) + 1)
        cut = kids[i][1] if i < len(kids) else n[3]
        body = bytes(wire[n[2]:cut]) + extra + bytes(wire[cut:n[3]])
        return (n[1], n[3]), bytes(wire[n[1]:n[2]])[:len(T.tl(n[0]))] + T.tl(len(body)) + body
    if kind == 'tail':
        n = _descend(wire, [sv_t])
        if n is None:
            return None
        pl = bytes([b] * (r % 4))
        return (n[1], n[3]), bytes(wire[n[1]:n[3]]) + T.tl([0xf0, 0xfc, 0x320][b % 3]) + T.tl(len(pl)) + pl
    return None


def shrink(case):
    if case.get('kind') == 'sign':
        yield from _sign_shrink(case)
        return
    t = case['tamper']
    for i in range(len(t)):
        yield dict(case, tamper=t[:i] + t[i + 1:])
    for key in ('content', 'app'):
        if case.get(key):
            yield dict(case, **{key: case[key] // 2})
    if case['name']:
        yield dict(case, name=case['name'][:-1])
    for k in ('name_form', 'fh_form', 'key_name', 'payload_form', 'key_form', 'obj_form', 'pre', 'parse_form'):
        if case.get(k) is not None:
            yield {a: b for a, b in case.items() if a != k}


def _apply_tamper(wire, t):
    import random
    from props import c07
    kind, r, b = t
    rng = random.Random(r)
    if not wire:
        return wire
    if kind == 'subst':
        i = r % len(wire)
        nb = b if b != wire[i] else (b + 1) % 256
        return wire[:i] + bytes([nb]) + wire[i + 1:]
    if kind == 'trunc':
        return wire[:r % len(wire)]
    if kind in TARGETED:
        try:
            ed = _targeted(wire, kind, r, b, wire[:1] == b'\x06')
            if ed is None:
                return wire
            return c07._rebuild(wire, c07._tree(wire, 0, len(wire)), ed[0], ed[1])
        except Exception:     # noqa
            return wire
    nodes = c07._nodes(c07._tree(wire, 0, len(wire)), [])
    if not nodes:
        return wire
    if kind == 'digestcut':
        # shorten a ParametersSha256Digest component (02 20 <32 bytes>) to a proper prefix, keeping all lengths consistent
        cand = [m for m, _, _ in nodes if wire[m[0]:m[0] + 2] == b'\x02\x20' and m[2] - m[1] == 32]
        if not cand:
            return wire
        m = cand[r % len(cand)]
        k = b % 32
        try:
            return c07._rebuild(wire, c07._tree(wire, 0, len(wire)), (m[0], m[2]), b'\x02' + bytes([k]) + wire[m[1]:m[1] + k])
        except Exception:     # noqa
            return wire
    n, sibs, i = nodes[r % len(nodes)]
    off, vs, ve = n[0], n[1], n[2]
    el = wire[off:ve]
    tree = c07._tree(wire, 0, len(wire))
    try:
        if kind == 'dup':
            return c07._rebuild(wire, tree, (off, ve), el + el)
        if kind == 'del':
            return c07._rebuild(wire, tree, (off, ve), b'')
        if kind == 'swap' and i + 1 < len(sibs):
            nx = sibs[i + 1]
            return c07._rebuild(wire, tree, (off, nx[2]), wire[nx[0]:nx[2]] + el)
        if kind == 'ins':
            t2 = rng.choice([0xf0, 0xfe, 0x300, 0x3e8])
            pl = bytes(rng.getrandbits(8) for _ in range(rng.choice([0, 1, 4])))
            return c07._rebuild(wire, tree, (off, ve), T.tl(t2) + T.tl(len(pl)) + pl + el)
        if kind == 'len':
            p = vs - 1
            return wire[:p] + bytes([(wire[p] + 1 + b % 3) % 256]) + wire[p + 1:]
        if kind == 'widen':
            # the same element with its Length (b odd: its Type) written in a longer form than necessary
            t0, _, _ = S.read_elem(wire, off, ve)
            w = [2, 4, 8][b % 3]
            lead = {2: b'\xfd', 4: b'\xfe', 8: b'\xff'}[w]
            if b % 8 == 7:
                hdr = lead + t0.to_bytes(w, 'big') + T.tl(ve - vs)
            else:
                hdr = T.tl(t0) + lead + (ve - vs).to_bytes(w, 'big')
            return c07._rebuild(wire, tree, (off, ve), hdr + wire[vs:ve])
    except Exception:     # noqa
        return wire
    return wire


# ------------------------------------------------------------------------------------- specified portions
def spec_portions(kind, wire):
    """independent strict reading: (signed portion, signature value, digest portion, digest component value) or None"""
    try:
        t, vs, ve = S.read_elem(wire, 0, len(wire))
        if ve != len(wire) or t != (6 if kind == 'data' else 5):
            return None
        els, off = [], vs
        while off < ve:
            t2, a, b = S.read_elem(wire, off, ve)
            els.append((t2, off, a, b))
            off = b
    except S.Reject:
        return None
    if kind == 'data':
        name = [e for e in els if e[0] == 7]
        si = [e for e in els if e[0] == 0x16]
        sv = [e for e in els if e[0] == 0x17]
        if not name or not si or not sv:
            return (None, None, None, None)
        return (wire[name[0][1]:si[0][3]], wire[sv[0][2]:sv[0][3]], None, None)
    name = [e for e in els if e[0] == 7]
    if not name:
        return (None, None, None, None)
    comps, p = [], name[0][2]
    try:
        while p < name[0][3]:
            ct, cvs, cve = S.read_elem(wire, p, name[0][3])
            comps.append((ct, wire[p:cve], wire[cvs:cve]))
            p = cve
    except S.Reject:
        return None
    ap = [e for e in els if e[0] == 0x24]
    sv = [e for e in els if e[0] == 0x2e]
    dig = [c for c in comps if c[0] == 2]
    # ApplicationParameters counts only where a strict reading of the Interest recognises it (in order)
    from ndn.encoding import ndn_format_0_3 as f
    fs = T.class_schema(f.InterestPacketValue)
    try:
        vals = S.strict_packet(fs, wire, 5, False, True)
    except S.Reject:
        return None
    if ap and vals[16] is None:
        return 'ambiguous'
    digest_portion = wire[ap[0][1]:ve] if ap else None
    signed = None
    if ap and sv:
        signed = b''.join(c[1] for c in comps if c[0] != 2) + wire[ap[0][1]:sv[0][1]]
    return (signed, wire[sv[0][2]:sv[0][3]] if sv else None, digest_portion, dig[-1][2] if dig else None)


# ------------------------------------------------------------------------------------- verification
def _verify(case, parsed_sp_wire):
    """run the matching shipped verifier on a wire, twice on the same SignaturePtrs; returns True/False/None (no
    verifier), 'exc:<cls>', or 'unstable' when the two verdicts differ"""
    from ndn import encoding as enc
    from ndn.security import validator as v
    k = case['signer'][0]
    try:
        arg = PK.as_form(parsed_sp_wire, case.get('parse_form'))
        if case['pkt'] == 'data':
            name, _, _, sp = enc.parse_data(arg)
        else:
            name, _, _, sp = enc.parse_interest(arg)
    except Exception as e:     # noqa
        return 'unparsable'

    def once():
        if k == 'digest':
            # sha256_digest_checker only judges packets whose SignatureInfo says DigestSha256 (it lets every
            # other packet through for the next checker of a union): its verdict counts only for those
            if sp.signature_info is None or sp.signature_info.signature_type != 0:
                return None
            return bool(_drive(v.sha256_digest_checker(name, sp)))
        if k == 'hmac':
            return bool(v.verify_hmac(PK.key_in_form(k, b'secret-key-0123', case.get('key_form')), sp))
        if k.startswith('ec'):
            return bool(v.verify_ecdsa(PK.keys()[k][1], sp))
        if k.startswith('rsa'):
            return bool(v.verify_rsa(PK.key(k)[1], sp))
        if k == 'ed25519':
            return bool(v.verify_ed25519(PK.keys()[k][1], sp))
        return None
    try:
        r1 = once()
        r2 = once()
    except Exception as e:     # noqa
        return 'exc:' + type(e).__name__
    return r1 if r1 == r2 else 'unstable'


DEFAULT_KEY_NAME = {'hmac': '/k/hmac', 'ec224': '/k/ec224', 'ec256': '/k/ec256', 'ec384': '/k/ec384', 'ec521': '/k/ec521', 'rsa2048': '/k/rsa',
                    'rsa4096': '/k/rsa', 'ed25519': '/k/ed'}


def _drive(coro):
    """run a coroutine that never really suspends (the shipped checkers do not await anything)"""
    try:
        coro.send(None)
    except StopIteration as e:
        return e.value
    coro.close()
    raise RuntimeError('checker suspended')


def _make_checkers(case):
    """ONE known-key validator object per case (HmacChecker / EccChecker / RsaChecker / Ed25519Checker .from_key for the
    key the packet was signed with), used for the made packet and then for every tampered copy, and the same checker
    behind union_checker(sha256_digest_checker, .) as an application would install it.  The public key is handed over
    as bytes / bytearray / memoryview.  Returns (checker, union) or 'exc:<cls>' or None (no such checker)"""
    from ndn.security import validator as v
    from ndn.security.validator import known_key_validator as kk
    k = case['signer'][0]
    if k not in DEFAULT_KEY_NAME or case.get('key_name') == []:
        return None           # (a checker built for the empty key name accepts nothing: degenerate, not judged)
    try:
        kn = case.get('key_name')
        key_name = DEFAULT_KEY_NAME[k] if kn is None else [bytes.fromhex(c) for c in kn]
        form = PK.BUF_FORMS[case['seed'] % 4] if case.get('key_form') else None
        if k == 'hmac':
            chk = kk.HmacChecker.from_key(key_name, PK.buf_in_form(b'secret-key-0123', form))
        elif k.startswith('ec'):
            chk = kk.EccChecker.from_key(key_name, PK.buf_in_form(PK.keys()[k][1].export_key(format='DER'), form))
        elif k.startswith('rsa'):
            chk = kk.RsaChecker.from_key(key_name, PK.buf_in_form(PK.key(k)[1].export_key('DER'), form))
        else:
            chk = kk.Ed25519Checker.from_key(key_name, PK.buf_in_form(PK.keys()[k][1].export_key(format='DER'), form))
        out = [chk, v.union_checker(v.sha256_digest_checker, chk), None]
    except Exception as e:     # noqa
        return 'exc:' + type(e).__name__
    if k != 'hmac':
        # the other constructor: from_cert, given a certificate of the signing key (self-signed here)
        try:
            from ndn.app_support import security_v2 as sv2
            ks = PK.key(k)
            pub = ks[1].export_key('DER') if k.startswith('rsa') else ks[1].export_key(format='DER')
            _, cert = sv2.self_sign(key_name, pub, PK.make_signer(case['signer'], key_name))
            cls = kk.EccChecker if k.startswith('ec') else kk.RsaChecker if k.startswith('rsa') else kk.Ed25519Checker
            out[2] = cls.from_cert(PK.buf_in_form(bytes(cert), form))
        except Exception as e:     # noqa
            out[2] = 'exc:' + type(e).__name__
    return out


def _verify_checker(case, wire, chks):
    """[verdict of the known-key checker, of the union, of the checker built from_cert]: True/False, None (no such
    checker), 'unparsable' or 'exc:<cls>'"""
    from ndn import encoding as enc
    if chks is None:
        return [None, None, None]
    if isinstance(chks, str):
        return [chks, chks, None]
    try:
        arg = PK.as_form(wire, case.get('parse_form'))
        if case['pkt'] == 'data':
            name, _, _, sp = enc.parse_data(arg)
        else:
            name, _, _, sp = enc.parse_interest(arg)
    except Exception:     # noqa
        return ['unparsable', 'unparsable', None if chks[2] is None else 'unparsable']
    out = []
    for c in chks:
        if c is None or isinstance(c, str):
            out.append(c)
            continue
        try:
            out.append(bool(_drive(c(name, sp))))
        except Exception as e:     # noqa
            out.append('exc:' + type(e).__name__)
    return out


def _digest_check(wire):
    from ndn import encoding as enc
    from ndn.security import validator as v
    try:
        name, _, _, sp = enc.parse_interest(wire)
    except Exception:     # noqa
        return 'unparsable'
    try:
        return bool(asyncio.run(v.params_sha256_checker(name, sp)))
    except Exception as e:     # noqa
        return 'exc:' + type(e).__name__


def run_impl(case):
    if case.get('kind') == 'sign':
        return _sign_run(case)
    made = PK.make_packet(case)
    out = {'made': made, 'copies': []}
    if made['made'][0] != 'ok':
        return out
    wire = bytes.fromhex(made['made'][1])
    form = case.get('parse_form')
    ckey, ckn = _chk_args(case)
    out['verdicts'] = _verdicts(case['pkt'], wire, ckey, ckn, form)
    out['parsed'] = PK.parse_packet(case['pkt'], wire, form)
    out['spec'] = _hexspec(spec_portions(case['pkt'], wire))
    out['verify'] = _verify(case, wire)
    chks = _make_checkers(case)
    out['verify2'], out['verify3'], out['verify4'] = _verify_checker(case, wire, chks)
    first = made.get('first')
    if case.get('pre') == 'same' and first is not None and first[0] == 'ok' and case['signer'][0] != 'none':
        # the packet of the earlier, identical call (same signer object, same argument objects) must verify as well;
        # (what its signer was handed is not recorded: judged through the verifier only)
        w1 = bytes.fromhex(first[1])
        out['first'] = {'verify': _verify(case, w1), 'spec': _hexspec(spec_portions(case['pkt'], w1)),
                        'parsed': _slim(PK.parse_packet(case['pkt'], w1))}
    if case['pkt'] == 'interest':
        out['digest_ok'] = _digest_check(wire)
    seen = set()
    for t in case['tamper']:
        w2 = _apply_tamper(wire, t)
        if w2 == wire or w2 in seen:
            continue
        seen.add(w2)
        v2, v3, v4 = _verify_checker(case, w2, chks)
        c = {'wire': w2.hex(), 'parsed': _slim(PK.parse_packet(case['pkt'], w2, form if form != 'no_tl' else None)),
             'spec': _hexspec(spec_portions(case['pkt'], w2)), 'verify': _verify(case, w2), 'verify2': v2, 'verify3': v3, 'verify4': v4}
        if case['pkt'] == 'interest':
            c['digest_ok'] = _digest_check(w2)
        c['verdicts'] = _verdicts(case['pkt'], w2, ckey, ckn, form)
        out['copies'].append(c)
    return out


def _slim(p):
    """of a tampered copy only what the oracle and the model comparison read is kept"""
    return p if p['res'] != 'ok' else {k: p[k] for k in ('res', 'values', 'SC', 'SV', 'DC', 'DV')}


def _hexspec(s):
    if s == 'ambiguous':
        return None
    return None if s is None else [None if x is None else bytes(x).hex() for x in s]


# ------------------------------------------------------------------------------------- model
def model_line(case, impl):
    if case.get('kind') == 'sign':
        return _sign_line(case, impl)
    l = PK.model_make_line(case, impl['made'])
    if l is None or impl['made']['made'][0] != 'ok':
        return l
    op = 'pdata' if case['pkt'] == 'data' else 'pint'
    for c in impl['copies']:
        l += f" ;; {op} {T.hx(bytes.fromhex(c['wire']))}"
    # the checkers inside the model, on the made packet and on every copy
    ckey, ckn = _chk_args(case)
    for w in [impl['made']['made'][1]] + [c['wire'] for c in impl['copies']]:
        l += ' ;; ' + _chk_q(case['pkt'], bytes.fromhex(w), ckey, ckn)
    return l


def model_obs(answer, case, impl):
    if case.get('kind') == 'sign':
        return _sign_model_obs(answer, case, impl)
    parts = answer.split(' ;; ')
    made, parsed = PK.parse_model_answer(parts[0])
    o = {'made': made['made']}
    if made['made'][0] == 'ok':
        o['covered'] = made['covered'] if case['signer'][0] != 'none' else None
        o['parsed'] = _pc(parsed, case)
        o['copies'] = []
        n = len(impl['copies'])
        for p in parts[1:1 + n]:
            t = p.split()
            o['copies'].append(_pc(PK.parse_model_parse(t[1:]), case) if t[0] == 'ok' else {'res': 'err', 'err': t[1]})
        o['verdicts'] = [_model_verdict(p) for p in parts[1 + n:]]
    return o


def _pc(parsed, case):
    """the model's params_sha256_checker verdict is compared for Interests only"""
    if parsed.get('res') == 'ok' and case['pkt'] != 'interest':
        parsed = dict(parsed)
        parsed.pop('PC', None)
    return parsed


def _ipc(obs, c, case):
    if obs.get('res') == 'ok' and case_is_interest(case):
        obs = dict(obs)
        obs['PC'] = c.get('digest_ok') is True
    return obs


def case_is_interest(case):
    return case['pkt'] == 'interest'


def impl_obs(impl):
    if impl.get('kind') == 'sign':
        return _sign_impl_obs(impl)
    m = impl['made']
    o = {'made': m['made']}
    if m['made'][0] == 'ok':
        o['verdicts'] = [impl['verdicts']] + [c['verdicts'] for c in impl['copies']]
        o['covered'] = m.get('covered')
        isint = 'digest_ok' in impl
        o['parsed'] = PK.impl_parse_obs(impl['parsed'])
        if isint and o['parsed'].get('res') == 'ok':
            o['parsed']['PC'] = impl['digest_ok'] is True
        o['copies'] = []
        for c in impl['copies']:
            x = PK.impl_parse_obs(c['parsed'])
            if isint and x.get('res') == 'ok':
                x['PC'] = c.get('digest_ok') is True
            o['copies'].append(x)
    return o


# ------------------------------------------------------------------------------------- oracle
def oracle(case, impl):
    if case.get('kind') == 'sign':
        return _sign_oracle(case, impl)
    m = impl['made']
    if m['made'][0] != 'ok':
        return None            # C01's concern
    signed = case['signer'][0] != 'none'
    p, spec = impl['parsed'], impl['spec']
    if p['res'] != 'ok' or spec is None:
        return 'made packet does not parse'
    if signed:
        reported = ''.join(p['SC'])
        if m.get('covered') is None:
            return 'the signer was not asked to sign'
        if m['covered'] != spec[0]:
            return 'bytes handed to the signer differ from the specified signed portion of the final wire'
        if reported != spec[0]:
            return 'bytes reported by the parser differ from the specified signed portion'
        if p['SV'] != spec[1] or p['SV'] != m['sig']:
            return 'signature value reported by the parser differs from what the signer wrote'
        if impl['verify'] is False or (isinstance(impl['verify'], str)):
            return f"the matching verifier does not accept the packet its signer produced ({impl['verify']})"
        if impl.get('verify2') is False or isinstance(impl.get('verify2'), str):
            return f"the known-key checker for the signing key does not accept the packet its signer produced ({impl['verify2']})"
        if impl.get('verify3') is False or isinstance(impl.get('verify3'), str):
            return ("union_checker(sha256_digest_checker, known-key checker for the signing key) does not accept the packet "
                    f"its signer produced ({impl['verify3']})")
        if impl.get('verify4') is False or isinstance(impl.get('verify4'), str):
            return ("the known-key checker built from_cert (a certificate of the signing key) does not accept the packet its "
                    f"signer produced ({impl['verify4']})")
        f1 = impl.get('first')
        if f1 is not None:
            # an earlier identical call with the same signer object: that packet is a packet produced with a signer too
            if f1['parsed']['res'] != 'ok' or f1['spec'] is None:
                return 'first of two packets made with the same signer object does not parse'
            if ''.join(f1['parsed']['SC']) != f1['spec'][0] or f1['parsed']['SV'] != f1['spec'][1]:
                return 'first of two packets made with the same signer object: parser does not report the specified signed portion'
            if f1['verify'] is False or isinstance(f1['verify'], str):
                return f"first of two packets made with the same signer object is not accepted by the matching verifier ({f1['verify']})"
    if case['pkt'] == 'interest':
        r = _digest_rule(impl, spec, impl.get('digest_ok'))
        if r:
            return 'made packet: ' + r
        if (signed or case['app'] is not None) and impl.get('digest_ok') is not True:
            return "the library's own parameterised Interest fails its parameters-digest check"

    for c in impl['copies']:
        cp, cs = c['parsed'], c['spec']
        if cp['res'] != 'ok':
            continue
        if case['pkt'] == 'interest' and cs is not None:
            r = _digest_rule(c, cs, c.get('digest_ok'))
            if r:
                return 'tampered copy: ' + r
        if signed and c['verify'] == 'unstable':
            return 'the verifier gives two different verdicts for the same parsed packet'
        if signed and (c['verify'] is True or c.get('verify2') is True or c.get('verify3') is True or c.get('verify4') is True):
            # what the verifier consumed must be what was signed ...
            if ''.join(cp['SC']) != spec[0] or cp['SV'] != spec[1]:
                return 'verifier accepted a copy although the bytes it checked or the signature value differ from the signed packet'
            # ... and when a strict reading of the copy exists, its signed portion must be the signed one
            if cs is not None and cs[0] is not None and (cs[0] != spec[0] or cs[1] != spec[1]):
                return 'verifier accepted a copy whose signed portion or signature value differs from the signed packet'
    return None


def _digest_rule(obs, spec, got):
    """params_sha256_checker accepts iff digest component == SHA-256(ApplicationParameters .. end)"""
    if got in ('unparsable',) or got is None:
        return None
    if isinstance(got, str):
        return f'parameters-digest check raised {got}'
    portion, comp = spec[2], spec[3]
    if portion is None or comp is None:
        want = False           # nothing the digest could equal
    else:
        want = hashlib.sha256(bytes.fromhex(portion)).hexdigest() == comp
    if bool(got) != want:
        return f'parameters-digest check answered {got} but digest-equals-SHA256(parameters..end) is {want}'
    return None


def nontrivial(case, impl):
    if case.get('kind') == 'sign':
        return impl['made'][0] == 'ok' and any(c['parsed']['res'] == 'ok' for c in impl['copies'])
    return impl['made']['made'][0] == 'ok' and case['signer'][0] != 'none' and \
        any(c['parsed']['res'] == 'ok' for c in impl['copies'])


def tags(case, impl):
    if case.get('kind') == 'sign':
        return _sign_tags(case, impl)
    t = ['pkt:' + case['pkt'], 'signer:' + case['signer'][0]]
    for k in ('payload_form', 'key_form', 'obj_form', 'pre', 'parse_form'):
        if case.get(k) is not None:
            t.append(f'{k}:{case[k]}')
    if impl.get('verify3') is not None:
        t.append('union:' + str(impl['verify3']))
    if impl.get('verify4') is not None:
        t.append('from_cert:' + str(impl['verify4']))
    for c in impl['copies']:
        t.append('copy:' + ('parses' if c['parsed']['res'] == 'ok' else 'rejected'))
        if c['parsed']['res'] == 'ok':
            t.append('copy-verify:' + str(c['verify']))
    return t


def finding_key(case, impl, why):
    import re
    if case.get('kind') == 'sign':
        return ('sign-' + case['pkt'] + ':' + re.sub(r'[^a-zA-Z]+', '-', why).strip('-').lower())[:90]
    return (case['pkt'] + ':' + re.sub(r'[^a-zA-Z]+', '-', why).strip('-').lower())[:90]


# ------------------------------------------------------------------------------------- checkers inside the model
HKEY = b'secret-key-0123'          # the HMAC key pktcommon.make_signer uses


def _chk_args(case):
    """(key, key name components) of the HmacChecker / verify_hmac whose verdicts are compared with the model's"""
    kn = case.get('key_name')
    return HKEY, ([b'\x08\x01k', b'\x08\x04hmac'] if kn is None else [bytes.fromhex(c) for c in kn])


def _chk_q(kind, wire, key, key_name):
    kn = ','.join(T.hx(c) for c in key_name) or '.'
    return f"chk {'data' if kind == 'data' else 'int'} {T.hx(wire)} {T.hx(key)} {kn}"


def _verdicts(kind, wire, key, key_name, form=None):
    """[SignatureType, sha256_digest_checker, verify_hmac(key), HmacChecker.from_key(key_name, key),
    union_checker(sha256_digest_checker, that HmacChecker), params_sha256_checker] of the REAL objects on the parsed wire
    (booleans, 'exc:<cls>' when one raises), or 'unparsable'"""
    from ndn import encoding as enc
    from ndn.security import validator as v
    from ndn.security.validator import known_key_validator as kk
    try:
        arg = PK.as_form(wire, form)
        name, _, _, sp = enc.parse_data(arg) if kind == 'data' else enc.parse_interest(arg)
    except Exception:     # noqa
        return 'unparsable'
    si = sp.signature_info
    out = ['~' if si is None or si.signature_type is None else str(si.signature_type)]
    try:
        hc = kk.HmacChecker.from_key(list(key_name), key)
        un = v.union_checker(v.sha256_digest_checker, hc)
    except Exception as e:     # noqa
        return 'exc:' + type(e).__name__
    for f in (lambda: _drive(v.sha256_digest_checker(name, sp)), lambda: v.verify_hmac(key, sp), lambda: _drive(hc(name, sp)),
              lambda: _drive(un(name, sp)), lambda: _drive(v.params_sha256_checker(name, sp))):
        try:
            out.append(bool(f()))
        except Exception as e:     # noqa
            out.append('exc:' + type(e).__name__)
    return out


def _model_verdict(ans):
    t = ans.split()
    if t[0] != 'ok':
        return 'unparsable' if t[0] == 'err' else ans
    d = dict(x.split('=', 1) for x in t[1:])
    return [d['T']] + [d[k] == '1' for k in ('DG', 'HV', 'HC', 'UN', 'PC')]


# ------------------------------------------------------------------------------------- packets made with the REAL
# DigestSha256Signer / HmacSha256Signer objects, compared with the model that contains the signer
KEY_LENS = [0, 1, 15, 32, 63, 64, 65, 100, 200]


def _sign_cases(rng, tier):
    n = 60 if tier == 'quick' else 700
    k = 6 if tier == 'quick' else 12
    nh = 0                 # HMAC cases so far: the key lengths are cycled through
    for i in range(n):
        b = PK.gen_data_case(rng, 'quick') if rng.random() < 0.45 else PK.gen_interest_case(rng, 'quick')
        c = {'kind': 'sign', 'pkt': b['pkt'], 'name': b['name'], 'seed': b['seed'], 'signer': ['none']}
        for key in ('meta', 'content', 'param', 'app'):
            if key in b:
                c[key] = b[key]
        for key in ('content', 'app'):
            if c.get(key) and c[key] > 1500:
                c[key] = c[key] % 600
        _cap_names(c)
        if rng.random() < 0.35:
            c['sg'] = ['digest', int(rng.random() < (0.8 if c['pkt'] == 'interest' else 0.2))]
            key = bytes(rng.getrandbits(8) for _ in range(rng.choice(KEY_LENS)))
            c['chk'] = [key.hex(), [x.hex() for x in PK.rand_name(rng)][:4]]
        else:
            klen = KEY_LENS[nh % len(KEY_LENS)] if (nh // len(KEY_LENS)) % 4 != 3 else rng.randint(0, 140)
            nh += 1
            key = bytes(rng.getrandbits(8) for _ in range(klen))
            kl = [x.hex() for x in PK.rand_name(rng)][:5]
            if sum(len(x) for x in kl) > 600:
                kl = kl[:1] if len(kl[0]) < 600 else []
            c['sg'] = ['hmac', key.hex(), kl]
            r = rng.random()
            ckey = key
            if r < 0.12:
                # another key: same length with one byte changed, zero-padded to the block size, or the SHA-256 of a long key
                alt = [bytes([key[0] ^ 1]) + key[1:] if key else b'\x00', key + b'\x00', hashlib.sha256(key).digest(), key[:64]]
                ckey = rng.choice(alt)
            r = rng.random()
            if r < 0.5:
                ckn = kl[:rng.randint(0, len(kl))]                              # a prefix of the KeyLocator name
            elif r < 0.8:
                ckn = list(kl)
            elif r < 0.9:
                ckn = kl + [PK.rand_comp(rng).hex()]                            # longer than the KeyLocator name
            else:
                ckn = [x.hex() for x in PK.rand_name(rng)][:4]
            c['chk'] = [ckey.hex(), ckn]
        c['tamper'] = [[rng.choice(['subst', 'subst', 'subst', 'trunc', 'dup', 'del', 'swap', 'ins', 'len', 'digestcut', 'widen']),
                        rng.getrandbits(30), rng.getrandbits(8)] for _ in range(k)]
        c['tamper'] += [[rng.choice(TARGETED), rng.getrandbits(30), rng.getrandbits(8)] for _ in range(k // 2 + 1)]
        # direct questions about HMAC-SHA256 / SHA-256: random messages around the block boundaries, keys of every class
        c['raw'] = [[bytes(rng.getrandbits(8) for _ in range(rng.choice(KEY_LENS + [66, 128, 129]))).hex(),
                     bytes(rng.getrandbits(8) for _ in range(rng.choice([0, 1, 54, 55, 56, 57, 63, 64, 65, 119, 120, 128, 300]))).hex()]
                    for _ in range(2)]
        yield c


def _sign_shrink(case):
    t = case['tamper']
    for i in range(len(t)):
        yield dict(case, tamper=t[:i] + t[i + 1:])
    if case['raw']:
        yield dict(case, raw=case['raw'][:-1])
    for key in ('content', 'app'):
        if case.get(key):
            yield dict(case, **{key: case[key] // 2})
    if case['name']:
        yield dict(case, name=case['name'][:-1])
    if case['sg'][0] == 'hmac' and case['sg'][2]:
        yield dict(case, sg=['hmac', case['sg'][1], case['sg'][2][:-1]], chk=[case['chk'][0], case['chk'][1][:len(case['sg'][2]) - 1]])


def _sign_signer(case):
    from ndn import security as sec
    sg = case['sg']
    if sg[0] == 'digest':
        return sec.DigestSha256Signer(bool(sg[1]))
    return sec.HmacSha256Signer([bytes.fromhex(c) for c in sg[2]], bytes.fromhex(sg[1]))


def _sign_run(case):
    from ndn import encoding as enc
    out = {'kind': 'sign', 'copies': [], 'raw': []}
    for k, m in case['raw']:
        k, m = bytes.fromhex(k), bytes.fromhex(m)
        import hmac
        from Cryptodome.Hash import HMAC, SHA256
        out['raw'].append([hmac.new(k, m, hashlib.sha256).hexdigest(), HMAC.new(k, m, digestmod=SHA256).hexdigest(),
                           hashlib.sha256(m).hexdigest()])
    rec = PK.Recorder(_sign_signer(case))
    name = [bytes.fromhex(c) for c in case['name']]
    try:
        if case['pkt'] == 'data':
            m = case['meta']
            mi = None if m is None else enc.MetaInfo(
                content_type=m['content_type'], freshness_period=m['freshness_period'],
                final_block_id=None if m['final_block_id'] is None else bytes.fromhex(m['final_block_id']))
            content = None if case['content'] is None else PK.payload(case, case['content'])
            wire = bytes(enc.make_data(name, mi, content, signer=rec))
            out['final_name'] = []
        else:
            p = case['param']
            ip = enc.InterestParam(can_be_prefix=p['can_be_prefix'], must_be_fresh=p['must_be_fresh'], nonce=p['nonce'],
                                   lifetime=p['lifetime'], hop_limit=p['hop_limit'],
                                   forwarding_hint=[[bytes.fromhex(c) for c in n] for n in p['forwarding_hint']])
            ap = None if case['app'] is None else PK.payload(case, case['app'])
            ret, fn = enc.make_interest(name, ip, ap, signer=rec, need_final_name=True)
            wire = bytes(ret)
            out['final_name'] = [bytes(c).hex() for c in fn]
        out['made'] = ['ok', wire.hex()]
    except Exception as e:   # noqa
        out['made'] = ['err', PK.exc_name(e)]
        return out
    out['covered'] = None if rec.covered is None else b''.join(rec.covered).hex()
    out['sig'] = None if rec.sig is None else rec.sig.hex()
    out['reserved'] = rec.reserved
    si = rec.si
    out['tn'] = None if si is None or si.signature_time is None else [si.signature_time, si.signature_nonce]
    ckey, ckn = bytes.fromhex(case['chk'][0]), [bytes.fromhex(c) for c in case['chk'][1]]
    out['parsed'] = _slim(PK.parse_packet(case['pkt'], wire))
    out['spec'] = _hexspec(spec_portions(case['pkt'], wire))
    out['verdicts'] = _verdicts(case['pkt'], wire, ckey, ckn)
    seen = set()
    for t in case['tamper']:
        w2 = _apply_tamper(wire, t)
        if w2 == wire or w2 in seen:
            continue
        seen.add(w2)
        out['copies'].append({'wire': w2.hex(), 'parsed': _slim(PK.parse_packet(case['pkt'], w2)),
                              'spec': _hexspec(spec_portions(case['pkt'], w2)), 'verdicts': _verdicts(case['pkt'], w2, ckey, ckn)})
    return out


def _sign_line(case, impl):
    q = []
    for k, m in case['raw']:
        q.append(f'hmac {T.hx(bytes.fromhex(k))} {T.hx(bytes.fromhex(m))}')
        q.append(f'sha {T.hx(bytes.fromhex(m))}')
    sg = case['sg']
    if sg[0] == 'digest':
        tn = impl.get('tn')
        if sg[1] and impl['made'][0] == 'ok' and tn is None:
            return None
        # (a for_interest signer of a call that failed: the time / nonce it drew are not observable, nor needed)
        spec = 'dg' if not sg[1] else ('dg:0:0' if tn is None else f'dg:{tn[0]}:{tn[1]}')
    else:
        spec = f"hm:{T.hx(bytes.fromhex(sg[1]))}:{','.join(T.hx(bytes.fromhex(c)) for c in sg[2]) or '.'}"
    base = PK.model_make_line(dict(case, signer=['none']), {'siginfo': '_'}).split()
    if case['pkt'] == 'data':
        q.append(f'sdata {spec} {base[2]} {base[3]} {base[4]}')
    else:
        q.append(f'sint {spec} {base[2]} {base[3]} {base[4]}')
    if impl['made'][0] == 'ok':
        ckey, ckn = bytes.fromhex(case['chk'][0]), [bytes.fromhex(c) for c in case['chk'][1]]
        for w in [impl['made'][1]] + [c['wire'] for c in impl['copies']]:
            q.append(_chk_q(case['pkt'], bytes.fromhex(w), ckey, ckn))
    return 'C02 ' + ' ;; '.join(q)


def _sign_model_obs(answer, case, impl):
    parts = answer.split(' ;; ')
    nr = len(case['raw'])
    o = {'raw': [[parts[2 * i], parts[2 * i], parts[2 * i + 1]] for i in range(nr)]}
    m = parts[2 * nr].split()
    if m[0] != 'ok':
        o['made'] = ['err', m[1]] if m[0] == 'err' else [answer]
        return o
    d = dict(x.split('=', 1) for x in m[1:])
    o['made'] = ['ok', '' if d['W'] == '-' else d['W']]
    o['covered'] = ''.join(PK._hexlist(d['C']))
    o['final_name'] = PK._hexlist(d['N']) if case['pkt'] == 'interest' else []
    o['verdicts'] = [_model_verdict(p) for p in parts[2 * nr + 1:]]
    return o


def _sign_impl_obs(impl):
    o = {'raw': impl['raw'], 'made': impl['made']}
    if impl['made'][0] == 'ok':
        o['covered'] = impl['covered']
        o['final_name'] = impl['final_name']
        o['verdicts'] = [impl['verdicts']] + [c['verdicts'] for c in impl['copies']]
    return o


def _sign_oracle(case, impl):
    """from the property statement: signer input = parser report = specified signed portion; the matching verifier accepts;
    a copy accepted by that verifier has the signed packet's portion and signature value; the parameters-digest rule"""
    if impl['made'][0] != 'ok':
        return None
    p, spec, v = impl['parsed'], impl['spec'], impl['verdicts']
    if p['res'] != 'ok' or spec is None or v == 'unparsable':
        return 'made packet does not parse'
    if impl['covered'] is None:
        return 'the signer was not asked to sign'
    if impl['covered'] != spec[0]:
        return 'bytes handed to the signer differ from the specified signed portion of the final wire'
    if ''.join(p['SC']) != spec[0]:
        return 'bytes reported by the parser differ from the specified signed portion'
    if p['SV'] != spec[1] or p['SV'] != impl['sig']:
        return 'signature value reported by the parser differs from what the signer wrote'
    bad = [x for x in v[1:] if isinstance(x, str)]
    if bad:
        return f'a checker raised on the packet its signer produced ({bad[0]})'
    sg = case['sg']
    matching = _sign_matching(case)
    if sg[0] == 'digest':
        if not v[1]:
            return 'sha256_digest_checker does not accept the packet DigestSha256Signer produced'
    else:
        if matching[0] and not v[2]:
            return 'verify_hmac with the signing key does not accept the packet HmacSha256Signer produced'
        if matching[1] and not v[3]:
            return 'HmacChecker.from_key (signing key, a prefix of the KeyLocator name) does not accept the packet HmacSha256Signer produced'
        if matching[1] and not v[4]:
            return 'union_checker(sha256_digest_checker, HmacChecker for the signing key) does not accept the packet HmacSha256Signer produced'
    if case['pkt'] == 'interest':
        r = _digest_rule(None, spec, v[5])
        if r:
            return 'made packet: ' + r
        if v[5] is not True:
            return "the library's own signed Interest fails its parameters-digest check"
    for c in impl['copies']:
        cp, cs, cv = c['parsed'], c['spec'], c['verdicts']
        if cp['res'] != 'ok' or cv == 'unparsable':
            continue
        if case['pkt'] == 'interest' and cs is not None and not isinstance(cv[5], str):
            r = _digest_rule(None, cs, cv[5])
            if r:
                return 'tampered copy: ' + r
        if sg[0] == 'digest':
            accepted = cv[0] == '0' and cv[1] is True       # (see DESIGN.md: the digest checker judges DigestSha256 packets only)
        else:
            accepted = (matching[0] and cv[2] is True) or (matching[1] and (cv[3] is True or (cv[0] == '4' and cv[4] is True)))
        if accepted:
            if ''.join(cp['SC']) != spec[0] or cp['SV'] != spec[1]:
                return 'verifier accepted a copy although the bytes it checked or the signature value differ from the signed packet'
            if cs is not None and cs[0] is not None and (cs[0] != spec[0] or cs[1] != spec[1]):
                return 'verifier accepted a copy whose signed portion or signature value differs from the signed packet'
    return None


def _sign_matching(case):
    """(verify_hmac is the matching verifier, HmacChecker.from_key is the matching verifier) for an HMAC-signed packet:
    the checker holds the signing key; its key name is a prefix of the signer's non-empty KeyLocator name"""
    sg = case['sg']
    if sg[0] != 'hmac':
        return (False, False)
    same = case['chk'][0] == sg[1]
    kl, kn = sg[2], case['chk'][1]
    return (same, same and len(kl) > 0 and kl[:len(kn)] == kn)


def _sign_tags(case, impl):
    sg = case['sg']
    t = ['sign:' + case['pkt'], 'sign-signer:' + sg[0] + (':for_interest' if sg[0] == 'digest' and sg[1] else '')]
    if sg[0] == 'hmac':
        n = len(sg[1]) // 2
        t.append('hmac-key-len:' + (str(n) if n in KEY_LENS else 'other'))
        m = _sign_matching(case)
        t.append('hmac-checker:' + ('matching' if m[1] else 'same-key-other-name' if m[0] else 'other-key'))
    if impl['made'][0] == 'ok' and impl['verdicts'] != 'unparsable':
        t.append('sign-own-verdicts:' + ''.join('1' if x is True else '0' if x is False else 'x' for x in impl['verdicts'][1:]))
    for c in impl['copies']:
        if c['verdicts'] != 'unparsable':
            t.append('sign-copy-verdicts:' + ''.join('1' if x is True else '0' if x is False else 'x' for x in c['verdicts'][1:]))
    return t
