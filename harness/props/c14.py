"""C14 - trust-schema validator (lvs_validator / CascadeChecker / union_checker).

A case is a small PKI described by ground truth (who signed what, with which key, naming which
certificate), a world of retrievable certificates that may CHANGE between two validations (`changes`: a
certificate appears, disappears, times out, is Nacked, is replaced by another one of the same name), several
validator instances (schema + anchor + the key storage object each was handed) and a history of validations.  Real keys, real certificates (security_v2.self_sign /
derive_cert), the real LVS compiler/checker, the real NDNApp (v1, the one the validator imports) on
the virtual-time loop with a simulated certificate producer.

The Lean driver runs the COMPOSED model on every case (`C14 pki`): it is given the compiled LVS model of each
instance's schema, the defined user functions and the certificate world, and computes itself every Checker.check
(exceptions included), the anchor's matches, root_of_trust, validate_user_fns, the construction outcome, every verdict
(accept / refuse / exception class / no verdict) and every certificate Interest with its parameters (name,
CanBePrefix, MustBeFresh, lifetime); all of these are compared with the real checker / validator / what the simulated
producer receives.
"""
import os, re, json, itertools, copy
import lib
import c14_lvs as LV        # stream family == 'lvs': the validator over generated Light VerSec schemas (C14 x C12)
import lvs_common as LC     # protocol tokens of compiled LVS models (shared with C11-C13)

PROP = 'C14'
TITLE = 'The schema validator accepts exactly packets with a valid chain to the anchor'
LEAN_TARGETS = ['NdnProofs.Props.C14', 'NdnProofs.Props.C14Lvs']
THEOREMS = [
    'Ndn.C14.validate_sound', 'Ndn.C14.validate_complete', 'Ndn.C14.verdict_iff_chain',
    'Ndn.C14.cache_inv_preserved', 'Ndn.C14.verdict_history_independent',
    'Ndn.C14.other_instances_irrelevant', 'Ndn.C14.system_verdict_iff_chain',
    'Ndn.C14.loop_never_accepted', 'Ndn.C14.construct_refuses', 'Ndn.C14.caught_exceptions',
    # a signing check that raises (the exception is the outcome; nothing on the way catches it)
    'Ndn.C14.check_raise_reaches_caller', 'Ndn.C14.nested_raise_propagates', 'Ndn.C14.raising_check_never_accepts',
    'Ndn.C14.raise_has_cause', 'Ndn.C14.check_exception_uncaught',
    # certificate fetching: which Interest is sent, which Data is taken, under which name a key is stored
    'Ndn.C14.log_only_cert_interests', 'Ndn.C14.fetch_exact_name', 'Ndn.C14.fetched_key_only_under_requested_name',
    'Ndn.C14.pit_exact_for_cert_interest', 'Ndn.C14.fetch_interest_params',
    # C14 x C12 (Props/C14Lvs.lean): real names, allowed := Checker.check of a loader-accepted LVS model
    'Ndn.C14.allowed_iff_schema_link', 'Ndn.C14.validate_sound_lvs', 'Ndn.C14.validate_complete_lvs',
    'Ndn.C14.verdict_iff_chain_lvs', 'Ndn.C14.verdict_iff_chain_compiled', 'Ndn.C14.system_verdict_iff_chain_lvs', 'Ndn.C14.lvs_chain_keys_matched',
    'Ndn.C14.chain_never_through_unmatched_key', 'Ndn.C14.unmatched_key_never_accepted', 'Ndn.C14.root_of_trust_spec',
    'Ndn.C14.construct_refuses_lvs', 'Ndn.C14.construct_refuses_missing_fns_lvs',
    'Ndn.C14.check_raise_is_verdict_lvs', 'Ndn.C14.empty_name_raises_lvs', 'Ndn.C14.link_check_total_lvs',
    # the certificate world changes between validations; the key storage is an explicit, possibly shared, object
    'Ndn.C14.accept_of_chain_now', 'Ndn.C14.accept_sound_with_cache', 'Ndn.C14.trusted_keys_were_served',
    'Ndn.C14.empty_storage_verdict_iff_chain', 'Ndn.C14.instances_independent', 'Ndn.C14.empty_storage_independent',
    'Ndn.C14.static_refinement', 'Ndn.C14.static_history_verdict_iff_chain',
    'Ndn.C14.accept_of_chain_now_lvs', 'Ndn.C14.accept_sound_with_cache_lvs',
]
PARTIAL = {}
TRUSTED = [
    'C14: ideal signatures - the crypto library verifies a signature under key bits k iff it was produced with the '
    'private key of k (Unforgeable/Correct are explicit hypotheses of the theorems; the correspondence instantiates them '
    'with the generator\'s ground truth of who signed)',
    'C14: the generic theorems take the signing check as a parameter (`allowed`, which may raise); the `_lvs` theorems '
    'instantiate it with the Lean model of Checker.check / match / root_of_trust / validate_user_fns on a loader-accepted LVS '
    'model (C12 model, names = lists of TLV components) - hypotheses as in C12: value edges deterministic (compiler output), '
    'user functions defined and not raising (completeness directions only). That this model is the code is sampled by the C12 '
    'check, by the `lvs` stream and by the PKI stream here: in BOTH streams the driver gets the compiled LVS model (as the real '
    'compiler emitted it), the defined user functions and the certificate world, and computes every link\'s Checker.check, the '
    'anchor\'s matched rules, root_of_trust, validate_user_fns, the construction and every verdict itself; the real checker\'s '
    'answers are compared, never handed over',
    'C14: an exception raised by Checker.check inside validate_name (empty packet name, raising user function, undefined user '
    'function) is not caught by validate_name, union_checker, NDNApp._wait_for_data or CascadeChecker.validate (generated tables, '
    'theorem check_exception_uncaught) and is the outcome of the validation at every depth (`Verdict.raise`, compared with the '
    'class the real validator raises; classes without a constructor in the model - LvsModelError - compare as `Other`); trusted: a '
    'user function does not itself raise ValidationFailure / InterestTimeout / InterestNack',
    'C14: the world of retrievable certificates answers an Interest as a function of the whole Interest (name, CanBePrefix, '
    'MustBeFresh, lifetime) and changes only BETWEEN validations (`world` events of the model; a validation is atomic: '
    'concurrent validations of one instance are not modelled - stream conc:* runs them against the real validator and judges '
    'every verdict by the ground-truth chain oracle only); NDNApp.express_interest is reduced to `express`: the returned Data is '
    'taken iff it passes the pending-Interest test (same name, or CanBePrefix), else Nack / timeout (PIT behaviour is C03: the '
    'test is tied to its specification by pit_exact_for_cert_interest, not re-proved from the PIT model); the Interest the model '
    'sends (exact name, MustBeFresh, 4000 ms) is compared field by field with what the simulated producer receives; key locators '
    'naming a certificate WITH its implicit digest are outside the model; packet decoding is C01/C07',
    'C14: validity periods (and ContentType) of certificates are not looked at by the validator and are not part of the property; '
    'the generator does include expired / not-yet-valid / ContentType!=KEY certificates on otherwise valid chains (deviation '
    '`oddcert`): acceptance is what the model predicts and is compared; the oracle does not judge a refusal there',
    'C14: reading of "every certificate on the way can be retrieved" when the world changes: retrievable NOW, or retrieved and '
    'validated by a chain at an earlier validation into the storage object the instance was handed (the cache is part of the anchored '
    'state; theorem accept_sound_with_cache says exactly this, and it is WEAKER than the statement\'s "iff" exactly by the cache: a '
    'certificate that has been withdrawn stays trusted as long as the storage object lives - nothing expires a key, validity '
    'periods are not looked at). An acceptance from the storage is therefore not reported; the oracle demands acceptance whenever a '
    'chain exists in the world as it is NOW (accept_of_chain_now), except for an instance whose storage may hold ANOTHER key under '
    'the same certificate name (hypothesis KeyStable of the theorem: a name denotes one key - NDN Data is immutable, a re-issued '
    'certificate has another version component; such `replace` histories are generated, the refusal is what the model predicts and '
    'is compared, tag chain-now-not-accepted(key-replaced)); instances handed an EmptyKeyStorage are judged by the plain iff at every '
    'step (empty_storage_verdict_iff_chain)',
    'C14: non-termination on certificate loops is modelled as fuel exhaustion = no verdict; the simulated producer stops '
    'answering after `budget` certificates',
]
RULE = ('PKIs over 5 LVS schema templates (site/admin/user/device, a flat variant, a looser variant, a two-roots schema, an '
        'ambiguous schema that admits certificate loops) with EC P-256 / RSA-2048 / Ed25519 keys, chains of depth 1..4, one '
        'deviation per case at a random link (wrong name shape, forged signature, substituted key, missing certificate, Nack, '
        'timeout, unsigned / digest / empty key locator, loop, declared type != algorithm, HMAC with the public bits, '
        'PUBFORGE: what an attacker without any private key can compute - SignatureType rewritten to every assigned and '
        'unassigned number (DigestSha256, HMAC, RSA, ECDSA, Ed25519, 2, 6, 7, 100, 200 = NULL, 253, 255), KeyLocator naming the '
        'genuine certificate, SignatureValue = plain SHA-256 of the signed portion / HMAC-SHA256 keyed with the public key '
        'bits the named certificate carries / with its name / with the whole certificate packet / with the empty key / '
        'absent / zeros, on the packet, on any certificate of the chain and on a would-be anchor; empty or '
        'garbage key, other certificate served, key locator = KeyDigest, certificate missing while a validly signed '
        'schema-allowed Data one component longer exists [the simulated producer answers CanBePrefix Interests as a '
        'forwarder would], expired / not-yet-valid / ContentType!=KEY certificate [acceptance expected, refusal not '
        'judged], packet named `/` [Checker.check raises IndexError], ALIAS: the signee names another SPELLING N\' of its '
        'signer\'s certificate name N - the version or a numeric key id (`seq=` / `t=` / `v=` / `seg=` / `off=` key ids in 5/8 of '
        'the cases) carried in another width (1/2/4/8 bytes, rarely 3/5): another name on the wire with the same Name.to_str - '
        'with nothing retrievable under N\' (absent / Nack / timeout / the producer answers with the certificate named N), or '
        'ANOTHER certificate with another key published under N\' and the signee signed with that key (valid chain) or with '
        'N\'s key (no chain), while a sibling packet signed through N is validated by the SAME instance first (and sometimes '
        'after); the simulated producer and the oracle key the world by an injective URI of the wire name; '
        'EC P-256 and P-384), the key storage left to the default argument or passed explicitly (a MemoryKeyStorage, an '
        'EmptyKeyStorage, one MemoryKeyStorage given to two instances with the same schema and anchor), 1..3 validator instances (own anchor, '
        'rival anchor, other schema, a schema whose user function raises TypeError on /site/vdoc/... names, '
        'unbuildable ones) and 2..6 validations in random order, plus every permutation of small step sets; histories in which the world CHANGES between validations '
        '(stream dyn:*, all with a model line): a certificate on a valid chain that timed out / was Nacked at the first validation '
        'APPEARS (same instance and a fresh one asked again); DISAPPEARS after its key was stored (absent / timeout / Nack; the same '
        'instance, an instance handed the same storage object, a fresh instance and one with an EmptyKeyStorage are asked; sometimes '
        'it comes back); FLAPS between retrievable and not; is REPLACED by another certificate (another key, same issuer) published '
        'under the same name, with a packet signed by the new key (old and new packet through the old and a fresh instance); two '
        'instances with DIFFERENT anchor or schema handed ONE storage object (static or changing world); non-trivial = at '
        'least one certificate fetch or acceptance; distinct = distinct case descriptions. Stream `lvs` (c14_lvs.py): generated '
        'LVS schemas (generator of C11-C13; links on which the check raises are preferred when there are any; half of the multi-root ones funnelled into one root), user_fns dictionaries '
        'lacking some functions, up to 7 names (instances of root rules, signed/signer instances, near misses, some with an '
        'implicit digest) each tried as the name of a properly self-signed anchor, and 3..7 packets signed / not signed by an '
        'anchor; non-trivial there = one anchor accepted and one refused. Stream `conc:*` (oracle only): CONCURRENT '
        'validations on one NDNApp - 2..6 packets being validated at the same time by one instance / two instances / two '
        'instances handed one storage object, their chains sharing certificate names: a second certificate under the same '
        'name with another key (properly issued, or forged), the same key issued again (other bytes), another version of '
        'the certificate, key locators that pin a certificate packet by its implicit digest (N/sha256digest=..., every '
        'certificate of a variant chain cloned and pinned) or name it plainly, signed with the key of the certificate they '
        'name / of its twin / an unrelated key, twins that nobody publishes (unknown digests Nacked or unanswered), the plain '
        'name Nacked / silent / absent while the certificates stay reachable by digest; every validation started (mostly) '
        'before the first certificate answer, the answers delivered one at a time in an order drawn per case; legacy '
        'front-end (2/3) and ndn.appv2 through a three-line express_interest adapter (1/3); each verdict must be the one '
        'the packet has alone: an acceptance needs a chain through certificates the network hands out, a chain whose every '
        'link pins a published certificate or names the only Data published under its name must be accepted')

T0 = 1000.0
VERSION = 'v=1000000'
BUDGET = 10
KEYDIR = os.path.join(lib.ROOT, 'corpus', 'C14', 'keys')


# ------------------------------------------------------------------------------------ key pool
_POOL = {}


def _pool():
    """{kid: (type, private DER, public DER)}; EC / Ed25519 generated once per run, RSA from a fixture"""
    if _POOL:
        return _POOL
    from Cryptodome.PublicKey import ECC, RSA
    for i in range(14):
        k = ECC.generate(curve='P-384' if i >= 12 else 'P-256')      # ec12, ec13: a second curve
        _POOL[f'ec{i}'] = ('ec', k.export_key(format='DER'), k.public_key().export_key(format='DER'))
    for i in range(5):
        k = ECC.generate(curve='Ed25519')
        _POOL[f'ed{i}'] = ('ed', k.export_key(format='DER'), k.public_key().export_key(format='DER'))
    path = os.path.join(KEYDIR, 'rsa.json')
    if not os.path.exists(path):
        os.makedirs(KEYDIR, exist_ok=True)
        ks = [RSA.generate(2048).export_key(format='DER').hex() for _ in range(4)]
        json.dump({'note': 'test-only RSA-2048 private keys (PKCS#1 DER, hex) for the C14 check', 'keys': ks},
                  open(path, 'w'), indent=1)
    for i, h in enumerate(json.load(open(path))['keys']):
        k = RSA.import_key(bytes.fromhex(h))
        _POOL[f'rsa{i}'] = ('rsa', k.export_key(format='DER'), k.public_key().export_key(format='DER'))
    return _POOL


def ktype(kid):
    return re.match(r'[a-z]+', kid).group(0)


NATURAL = {'ec': 'ecdsa', 'rsa': 'rsa', 'ed': 'ed25519'}

# ------------------------------------------------------------------------------------ schemas
KEY4 = ['L:KEY', '_', '_', '_']


def tmpl_full(s):
    return {'rules': [
        ['root', [f'L:{s}'] + KEY4, []],
        ['admin', [f'L:{s}', 'L:admin', 'V:adm'] + KEY4, ['root']],
        ['user', [f'L:{s}', 'L:user', 'V:usr', 'L:KEY', '_', 'V:adm', '_'], ['admin']],
        ['dev', [f'L:{s}', 'L:dev', 'V:usr', 'V:dv'] + KEY4, ['user']],
        ['pub', [f'L:{s}', 'L:pub', '_'], ['root']],
        ['note', [f'L:{s}', 'L:note', 'V:adm', '_'], ['admin']],
        ['doc', [f'L:{s}', 'L:doc', 'V:usr', '_'], ['user']],
        ['reading', [f'L:{s}', 'L:reading', 'V:usr', 'V:dv', '_'], ['dev']],
    ]}


def tmpl_loose(s):
    t = tmpl_full(s)
    for r in t['rules']:
        if r[0] == 'doc':
            r[1] = [f'L:{s}', 'L:doc', '_', '_']
            r[2] = ['user', 'admin']
        if r[0] == 'user':
            r[1] = [f'L:{s}', 'L:user', 'V:usr'] + KEY4
    return t


def tmpl_flat(s):
    return {'rules': [
        ['root', [f'L:{s}'] + KEY4, []],
        ['user', [f'L:{s}', 'L:user', 'V:usr'] + KEY4, ['root']],
        ['pub', [f'L:{s}', 'L:pub', '_'], ['root']],
        ['doc', [f'L:{s}', 'L:doc', 'V:usr', '_'], ['user']],
    ]}


def tmpl_tworoots(s):
    t = tmpl_flat(s)
    t['rules'] += [['root2', [f'L:{s}', 'L:alt'] + KEY4, []],
                   ['xuser', [f'L:{s}', 'L:xuser', 'V:usr'] + KEY4, ['root2']]]
    return t


def tmpl_fn(s):
    t = tmpl_flat(s)
    t['extra'] = [f'#vdoc: "{s}"/"vdoc"/usr/ver & {{ver: $eq_type("v=0")}} <= #user']
    return t


def tmpl_fnraise(s):
    """`ver` is constrained by a user function whose argument `zz` is bound only further right: when `ver` is tried
    `zz` is unbound, `$eq_type` gets None and raises TypeError - Checker.check RAISES on every name /s/vdoc/x/y..."""
    t = tmpl_flat(s)
    t['extra'] = [f'#vdoc: "{s}"/"vdoc"/usr/ver/zz & {{ver: $eq_type(zz)}} <= #user']
    return t


def tmpl_amb(s):
    """a name /s/grp/grp/KEY/... matches both #ga and #gb: certificates may certify each other"""
    return {'rules': [
        ['root', [f'L:{s}'] + KEY4, []],
        ['gb', [f'L:{s}', 'V:y', 'L:grp'] + KEY4, ['root']],
        ['ga', [f'L:{s}', 'L:grp', 'V:x'] + KEY4, ['gb']],
        ['msg', [f'L:{s}', 'L:msg', '_'], ['ga']],
        ['pub', [f'L:{s}', 'L:pub', '_'], ['root']],
    ]}


def with_bundles(schema):
    """adds, for every certificate rule that has signers, a rule for names ONE COMPONENT LONGER than the certificate
    name with the same signers (`#userb: <user certificate name>/_ <= #admin`): such Data (segments / bundles published
    under a certificate name) is what a forwarder may return for a CanBePrefix Interest for the certificate"""
    t = copy.deepcopy(schema)
    for rname, pat, signers in schema['rules']:
        if 'L:KEY' in pat and signers:
            t['rules'].append([rname + 'b', list(pat) + ['_'], list(signers)])
    return t


TEMPLATES = {'full': tmpl_full, 'loose': tmpl_loose, 'flat': tmpl_flat, 'tworoots': tmpl_tworoots, 'fn': tmpl_fn,
             'amb': tmpl_amb, 'fnraise': tmpl_fnraise}


def lvs_text(schema):
    def comp(c):
        if c == '_':
            return '_'
        return '"%s"' % c[2:] if c.startswith('L:') else c[2:]
    lines = []
    for rname, pat, signers in schema['rules']:
        l = f'#{rname}: ' + '/'.join(comp(c) for c in pat)
        if signers:
            l += ' <= ' + ' | '.join('#' + s for s in signers)
        lines.append(l)
    return '\n'.join(lines + schema.get('extra', [])) + '\n'


# --- independent reading of a schema (for the oracle; never calls the library) -------------------
def _comps(uri):
    return [c for c in uri.split('/') if c != '']


def _match(pat, comps, binding):
    if len(pat) != len(comps):
        return None
    b = dict(binding)
    for p, c in zip(pat, comps):
        if p == '_':
            continue
        if p.startswith('L:'):
            if p[2:] != c:
                return None
        else:
            v = p[2:]
            if v in b and b[v] != c:
                return None
            b[v] = c
    return b


def spec_allowed(schema, pkt_uri, key_uri):
    rules = {r[0]: r for r in schema['rules']}
    pc, kc = _comps(pkt_uri), _comps(key_uri)
    for rname, pat, signers in schema['rules']:
        b = _match(pat, pc, {})
        if b is None:
            continue
        for s in signers:
            if _match(rules[s][1], kc, b) is not None:
                return True
    return False


def spec_roots(schema):
    signing = set(s for r in schema['rules'] for s in r[2])
    return sorted(r[0] for r in schema['rules'] if r[0] in signing and not r[2])


def spec_anchor_matches(schema, anchor_uri):
    rules = {r[0]: r for r in schema['rules']}
    roots = spec_roots(schema)
    return bool(roots) and all(_match(rules[r][1], _comps(anchor_uri), {}) is not None for r in roots)


# ------------------------------------------------------------------------------- ground truth
def fullname(o):
    if o['kind'] in ('pkt', 'blob'):       # blob = a Data carrying key bits under a free name (not a certificate name)
        return o['name']
    return f"{o['name']}/{o['issuer']}/{o.get('ver', VERSION)}"


# --- alternate spellings of a name component (a DIFFERENT name on the wire that Name.to_str prints alike) ----------
NUMTYPES = {'seg': 0x32, 'off': 0x34, 'v': 0x36, 't': 0x38, 'seq': 0x3A}
_UNRESERVED = set(b'ABCDEFGHIJKLMNOPQRSTUVWXYZabcdefghijklmnopqrstuvwxyz0123456789-._~')


def _generic(typ, val):
    """`<type>=<escaped value>`: the URI form that says type and value bytes literally"""
    return '%d=' % typ + ''.join(chr(b) if b in _UNRESERVED else '%%%02X' % b for b in val)


def respell(comp_uri, rng):
    """a typed-number component (`v=5`) with its number in another width (1 / 2 / 4 / 8 bytes, rarely 3 / 5): other bytes
    on the wire, i.e. ANOTHER name, which the number shorthand of the URI prints the same"""
    kind, n = comp_uri.split('=')
    n = int(n)
    minw = 1 if n < 1 << 8 else 2 if n < 1 << 16 else 4 if n < 1 << 32 else 8
    ws = [w for w in (1, 2, 4, 8) if w > minw] * 4 + [w for w in (3, 5) if w > minw]
    return _generic(NUMTYPES[kind], n.to_bytes(rng.choice(ws), 'big'))


def _uri(name):
    """an INJECTIVE URI of a wire name (Name.to_str prints `36 01 05` and `36 08 00..05` both as v=5): a component
    whose library URI does not read back as the same bytes is written in the generic form"""
    from ndn.encoding import Component, parse_tl_num
    out = []
    for c in name:
        c = bytes(c)
        try:
            u = Component.to_str(c)
            ok = bytes(Component.from_str(u)) == c
        except Exception:       # noqa
            ok = False
        if not ok:
            typ, n1 = parse_tl_num(c)
            _, n2 = parse_tl_num(c, n1)
            u = _generic(typ, c[n1 + n2:])
        out.append(u)
    return '/' + '/'.join(out)


def kl_name(case, o):
    if o.get('kl') is None or o['mode'] in ('nosig', 'digest', 'emptykl', 'kldigest'):
        return None
    return fullname(case['objs'][o['kl']])


def declared(o):
    m = o['mode']
    if m in ('normal', 'emptykl', 'kldigest'):
        return NATURAL[ktype(o['by'])]
    if m.startswith('as:'):
        return m[3:]
    if m == 'hmac':
        return 'hmac'
    if m.startswith('pub:'):      # a forgery from public data: the declared type is whatever the forger wrote
        return {1: 'rsa', 3: 'ecdsa', 4: 'hmac', 5: 'ed25519'}.get(int(m.split(':')[1]), 'other')
    return 'other'


def spec_verifies(kid, o):
    """signature of o verifies under public key kid: produced by kid's private key with kid's algorithm,
    and declared as such"""
    if kid in (None, 'empty', 'garbage'):
        return False
    if o['mode'] != 'normal' and not o['mode'].startswith('as:'):
        return False
    return o['by'] == kid and declared(o) == NATURAL[ktype(kid)]


def changes(case):
    """[[k, name, outcome | None], ...]: before step k the network starts answering Interests of `name` with `outcome`
    (['D', oid] / ['N'] / ['T']; None: nothing is known under the name any more).  `appear` is the older spelling of
    one such change."""
    ch = [list(c) for c in case.get('changes', [])]
    if case.get('appear'):
        ch.append(list(case['appear']))
    return sorted(ch, key=lambda c: c[0])


def world_at(case, k):
    """the certificate world when step k is carried out"""
    w = dict(case['world'])
    for kk, n, out in changes(case):
        if kk <= k:
            if out is None:
                w.pop(n, None)
            else:
                w[n] = out
    return w


def storage_id(case, ii):
    """which storage OBJECT instance ii holds: None for an EmptyKeyStorage, else a label (instances that were handed one
    object have the same label)"""
    st = case['insts'][ii].get('storage')
    if st == 'empty':
        return None
    if st in (None, 'mem'):
        return 'own%d' % ii
    return st


def served_key(case, world, n):
    """the key of the certificate the world serves under EXACTLY the name n (None: nothing / Nack / timeout / another name)"""
    w = world.get(n)
    if not w or w[0] != 'D' or fullname(case['objs'][w[1]]) != n:
        return None
    return case['objs'][w[1]].get('key')


def key_stable(case, k):
    """a name denotes one key: up to step k no two states of the world served different keys under one name"""
    seen = {}
    for j in range(k + 1):
        w = world_at(case, j)
        for n in w:
            key = served_key(case, w, n)
            if key is not None and seen.setdefault(n, key) != key:
                return False
    return True


def spec_chain(case, inst, oid, trusted=()):
    """is there a chain oid - certificate - ... - anchor of this instance?  (None, reason) / (True, sigtypes).
    `trusted`: (certificate name, key) pairs the instance's storage object vouches for (certificates fetched and validated by a
    chain at an earlier validation of an instance holding that object): a chain may end at a link to such a key."""
    schema = case['schemas'][inst['schema']]
    anchor = case['objs'][inst['anchor']]
    aname = fullname(anchor)
    seen = set()
    types = []
    o = case['objs'][oid]
    while True:
        kn = kl_name(case, o)
        if kn is None:
            return False, 'an element has no key locator'
        if not spec_allowed(schema, fullname(o), kn):
            return False, 'a link is not allowed by the schema'
        types.append(declared(o))
        if kn == aname:
            return (True, types) if spec_verifies(anchor['key'], o) else (False, 'a signature does not verify')
        if any(n == kn and spec_verifies(key, o) for n, key in trusted):
            return True, types + ['cached']
        w = case['world'].get(kn)
        if not w or w[0] != 'D':
            return False, 'a certificate cannot be retrieved'
        c = case['objs'][w[1]]
        if fullname(c) != kn:
            return False, 'a certificate cannot be retrieved'
        if not spec_verifies(c['key'], o):
            return False, 'a signature does not verify'
        if w[1] in seen:
            return False, 'certificate loop'
        seen.add(w[1])
        if c.get('odd') and 'odd' not in types:
            types.append('odd')      # expired / not yet valid / ContentType != KEY: the statement is silent about these
        o = c


def spec_buildable(case, inst):
    schema = case['schemas'][inst['schema']]
    anchor = case['objs'][inst['anchor']]
    if not inst.get('userfns', True) and schema.get('extra'):
        return False
    return spec_anchor_matches(schema, fullname(anchor)) and spec_verifies(anchor['key'], anchor)


# ------------------------------------------------------------------------------------- building
_WIRES = {}
_CHECKERS = {}
_SIGNERS = {}


def _signer_for(case, o):
    from ndn.encoding import Signer, SignatureType, KeyLocator
    from ndn.security.signer import (Sha256WithEcdsaSigner, Sha256WithRsaSigner, Ed25519Signer, HmacSha256Signer,
                                     DigestSha256Signer)
    pool = _pool()
    mode = o['mode']
    if mode == 'nosig':
        return None
    if mode == 'digest':
        return DigestSha256Signer()
    kn = wire_kl_name(case, o)
    if mode == 'hmac':
        target = case['objs'][o['kl']]
        bits = pool[target['key']][2] if target['key'] in pool else b'k'
        return HmacSha256Signer(kn, bits)
    if mode.startswith('pub:'):
        return _pub_forger(case, o, kn)
    typ, prv, _ = pool[o['by']]
    if o['by'] not in _SIGNERS:      # importing an RSA private key runs primality tests: do it once per key
        _SIGNERS[o['by']] = {'ec': Sha256WithEcdsaSigner, 'rsa': Sha256WithRsaSigner, 'ed': Ed25519Signer}[typ]('/x', prv)
    base = copy.copy(_SIGNERS[o['by']])
    base.key_locator_name = kn
    if mode == 'normal':
        return base
    want = {'rsa': SignatureType.SHA256_WITH_RSA, 'ecdsa': SignatureType.SHA256_WITH_ECDSA,
            'ed25519': SignatureType.ED25519}.get(mode[3:]) if mode.startswith('as:') else None

    class Wrapped(Signer):
        def write_signature_info(self, signature_info):
            base.write_signature_info(signature_info)
            if want is not None:
                signature_info.signature_type = want
            if mode == 'emptykl':
                signature_info.key_locator = KeyLocator()
                signature_info.key_locator.name = []
            if mode == 'kldigest':       # KeyLocator = KeyDigest (SHA-256 of the signer's public key) instead of a Name
                import hashlib
                signature_info.key_locator = KeyLocator()
                signature_info.key_locator.key_digest = hashlib.sha256(pool[o['by']][2]).digest()

        def get_signature_value_size(self):
            return base.get_signature_value_size()

        def write_signature_value(self, wire, contents):
            return base.write_signature_value(wire, contents)
    return Wrapped()


PUB_TYPES = [0, 0, 4, 4, 4, 1, 3, 5, 2, 6, 7, 100, 200, 253, 255]      # (the encoder writes SignatureType in one byte)
PUB_VALUES = ['sha', 'sha', 'hmacpub', 'hmacpub', 'hmacpub', 'hmacname', 'hmaccert', 'hmacempty', 'empty', 'zeros']


def _pub_forger(case, o, kn):
    """mode `pub:<SignatureType number>:<value kind>`: what an attacker who holds NO private key can put on a packet.  He
    rewrites the SignatureType (to any assigned or unassigned number), names the victim's certificate in the KeyLocator and
    computes the SignatureValue from PUBLIC inputs only: the plain SHA-256 of the signed portion, HMAC-SHA256 of it keyed with
    the public key bits the named certificate carries (its Content) / with the certificate's name / with the whole
    certificate packet / with the empty key, no value at all, 32 zero bytes."""
    from ndn.encoding import Signer, KeyLocator, Name
    from Cryptodome.Hash import SHA256, HMAC
    _, typ, val = o['mode'].split(':')
    typ = int(typ)
    target = case['objs'][o['kl']]
    if val == 'hmacpub':
        key = _content_bits(target) if target.get('key') else b''
    elif val == 'hmacname':
        key = bytes(Name.to_bytes(Name.from_str(fullname(target))))
    elif val == 'hmaccert':
        key = build_wire(case, o['kl']) if target is not o else b'self'
    else:
        key = b''

    class Forger(Signer):
        def write_signature_info(self, signature_info):
            signature_info.signature_type = typ
            signature_info.key_locator = KeyLocator()
            signature_info.key_locator.name = kn

        def get_signature_value_size(self):
            return 0 if val == 'empty' else 32

        def write_signature_value(self, wire, contents):
            if val == 'empty':
                return 0
            if val == 'zeros':
                wire[:] = bytes(32)
                return 32
            h = SHA256.new() if val == 'sha' else HMAC.new(key, digestmod=SHA256)
            for blk in contents:
                h.update(blk)
            wire[:] = h.digest()
            return 32
    return Forger()


def wire_kl_name(case, o):
    """the name written into the KeyLocator: the certificate's name, followed - when the description says `pin` - by the
    implicit SHA-256 digest of that certificate PACKET (`N/sha256digest=...`: names one exact Data)"""
    kn = fullname(case['objs'][o['kl']])
    if o.get('pin'):
        import hashlib
        kn += '/sha256digest=' + hashlib.sha256(build_wire(case, o['kl'])).hexdigest()
    return kn


def _content_bits(o):
    pool = _pool()
    if o['key'] == 'empty':
        return b''
    if o['key'] == 'garbage':
        return b'\x30\x03\x02\x01\x07'
    return pool[o['key']][2]


def build_wire(case, oid):
    """the real packet for an object description (cached per run by description; built at virtual time T0)"""
    from ndn import encoding as enc
    from ndn.app_support.security_v2 import self_sign, derive_cert
    from datetime import datetime, timezone
    o = case['objs'][oid]
    tgt = case['objs'][o['kl']] if o.get('kl') is not None else None
    key = lib.jdump([o, fullname(tgt) if tgt else None,
                     tgt.get('key') if tgt and (o['mode'] == 'hmac' or o['mode'].startswith('pub:')) else None,
                     wire_kl_name(case, o) if tgt and o.get('pin') else None,
                     build_wire(case, o['kl']).hex() if tgt and o['mode'].endswith(':hmaccert') and tgt is not o else None])
    if key in _WIRES:
        return _WIRES[key]
    signer = _signer_for(case, o)
    if o['kind'] == 'pkt':
        wire = bytes(enc.make_data(o['name'], enc.MetaInfo(freshness_period=1000), b'payload', signer=signer))
    elif o['kind'] == 'blob':
        wire = bytes(enc.make_data(o['name'], enc.MetaInfo(content_type=enc.ContentType.KEY, freshness_period=3600000),
                                   _content_bits(o), signer=signer))
    elif o['kind'] == 'anchor':
        name, wire = self_sign(o['name'], _content_bits(o), signer)
        assert _uri(name) == fullname(o), (_uri(name), fullname(o))
        wire = bytes(wire)
    else:
        odd = o.get('odd')
        start, secs = datetime(2020, 1, 1, tzinfo=timezone.utc), 3600 * 24 * 365 * 30
        if odd == 'expired':
            start, secs = datetime(1960, 1, 1, tzinfo=timezone.utc), 3600
        elif odd == 'future':
            start, secs = datetime(2090, 1, 1, tzinfo=timezone.utc), 3600
        secs += 3600 * o.get('twin', 0)      # a second certificate under one name: other bytes whatever the algorithm
        from ndn.app_support import security_v2 as sv2
        real_meta = sv2.MetaInfo
        if odd == 'ctype':       # new_cert hard-codes ContentType.KEY: substitute BLOB while this one certificate is built
            sv2.MetaInfo = lambda content_type=None, freshness_period=None, **kw: real_meta(
                content_type=enc.ContentType.BLOB, freshness_period=freshness_period, **kw)
        real_ver = sv2.Component.from_version
        if o.get('ver'):         # new_cert appends from_version(timestamp()): this certificate's version is spelled as given
            sv2.Component.from_version = lambda _v, _u=o['ver']: enc.Component.from_str(_u)
        try:
            name, wire = derive_cert(o['name'], o['issuer'], _content_bits(o), signer, start, secs)
        finally:
            sv2.MetaInfo = real_meta
            sv2.Component.from_version = real_ver
        assert _uri(name) == fullname(o), (_uri(name), fullname(o))
        wire = bytes(wire)
    _WIRES[key] = wire
    return wire


def get_checker(schema, userfns=True):
    from ndn.app_support.light_versec import compile_lvs, Checker, DEFAULT_USER_FNS
    text = lvs_text(schema)
    k = (text, userfns)
    if k not in _CHECKERS:
        _CHECKERS[k] = Checker(compile_lvs(text), DEFAULT_USER_FNS if userfns else {})
    return _CHECKERS[k]


PYERR = {'IndexError', 'ValueError', 'TypeError', 'KeyError', 'DecodeError', 'AttributeError', 'OverflowError'}


def _exc_name(e):
    """the exception class as the model names it (`PyErr.name`): subclasses of ValueError are ValueError, classes the
    model has no constructor for (LvsModelError, ...) are `Other`"""
    if isinstance(e, ValueError):
        return 'ValueError'
    n = type(e).__name__
    return n if n in PYERR else 'Other'


def _real_check(checker, pkt, key):
    """Checker.check on one link: '1' / '0' / 'E:<class>'"""
    try:
        return '1' if checker.check(pkt, key) else '0'
    except Exception as e:          # noqa - the class is the observation
        return 'E:' + _exc_name(e)


# -------------------------------------------------------------------------------- implementation
def _fresh_process_state():
    """a case stands for a fresh process: if the library keeps a process-wide default key storage (a default
    argument evaluated at import time), empty it so that cases (and replays) are independent of each other"""
    from ndn.app_support.light_versec import validator as lv
    from ndn.security.validator import cascade_validator as cv
    cands = []
    for fn in (lv.lvs_validator, cv.CascadeChecker.__init__):
        cands += list(fn.__defaults__ or ()) + list((fn.__kwdefaults__ or {}).values())
    for mod in (lv, cv):
        cands += list(vars(mod).values()) + list(vars(cv.CascadeChecker).values())
    for d in cands:
        if isinstance(getattr(d, '_cache', None), dict):
            d._cache.clear()


def _build_insts(case, rig, app, wires, names, out):
    """builds every validator instance of the case on `app` (None where the constructor refused); what the real checker
    answers about the schema goes into out['insts']"""
    from ndn.app_support.light_versec import lvs_validator
    objs = case['objs']
    validators = []
    shared = {}
    from ndn.security.validator import cascade_validator as cv
    for inst in case['insts']:
        schema = case['schemas'][inst['schema']]
        checker = get_checker(schema, inst.get('userfns', True))
        try:
            matched = sorted(set(sum((m[0] for m in checker.match(names[inst['anchor']])), start=[])))
        except Exception as e:      # noqa - the class is the observation
            matched = 'E:' + _exc_name(e)
        # the real checker's answers are OBSERVATIONS compared with what the composed model computes (they are not
        # handed to the model): validate_user_fns, root_of_trust, the anchor's matches, Checker.check on every link
        rec = {'roots': sorted(checker.root_of_trust()),
               'matched': matched,
               'userfns': bool(checker.validate_user_fns()),
               'links': ['-' if kl_name(case, objs[oid]) is None
                         else _real_check(checker, names[oid], kl_name(case, objs[oid])) for oid in sorted(objs)],
               'token': LC.enc_model(checker.model),
               'env': sorted(LC.mods()[6]) if inst.get('userfns', True) else []}
        kw = {}
        st = inst.get('storage')      # None: the default argument; else an explicitly passed storage object
        if st == 'mem':
            kw['storage'] = cv.MemoryKeyStorage()
        elif st == 'empty':
            kw['storage'] = cv.EmptyKeyStorage()
        elif st:                      # 'share…': ONE MemoryKeyStorage passed to several instances
            kw['storage'] = shared.setdefault(st, cv.MemoryKeyStorage())
        try:
            v = rig.loop.call_now(lambda: lvs_validator(checker, app, wires[inst['anchor']], **kw))
            rec['built'] = 'ok'
        except Exception as e:       # noqa - the class is the observation
            v = None
            rec['built'] = 'err:' + _exc_name(e)
        validators.append(v)
        out['insts'].append(rec)

    return validators


def run_impl(case):
    if LV.is_lvs(case):
        return LV.run_impl(case)
    if case.get('conc'):
        return run_conc(case)
    from apphelp import AppRig
    from ndn import encoding as enc
    from ndn.app_support.light_versec import lvs_validator
    _fresh_process_state()
    with AppRig('v1', t0=T0) as rig:
        objs = case['objs']
        wires = {oid: build_wire(case, oid) for oid in sorted(objs)}
        names = {oid: fullname(objs[oid]) for oid in objs}
        out = {'insts': [], 'steps': [], 'names': names}
        validators = _build_insts(case, rig, rig.app, wires, names, out)

        face = rig.face
        world = dict(case['world'])
        for k_step, (ii, oid) in enumerate(case['steps']):
            world = world_at(case, k_step)      # what the network answers from now on (certificates appear, disappear, are replaced)
            v = validators[ii]
            if v is None:
                out['steps'].append({'verdict': 'X', 'fetched': []})
                continue
            name, _, _, sig = enc.parse_data(wires[oid])
            box = {}

            async def go():
                try:
                    box['r'] = await v(name, sig)
                except BaseException as e:      # noqa
                    box['e'] = e
            cursor = len(face.sent)
            task = rig.loop.create_task(go())
            rig.loop.settle()
            fetched, served, exhausted, idle = [], 0, False, 0
            while not task.done() and idle < 40:
                new = face.sent[cursor:]
                cursor = len(face.sent)
                if not new:
                    rig.loop.advance(rig.loop.time() + 4.5)
                    idle += 1
                    continue
                for w in new:
                    iname, ipar, _, _ = enc.parse_interest(w)
                    uri = _uri(iname)           # injective: the producer serves wire names, not their URI print
                    if not exhausted:       # the Interest as the simulated producer receives it
                        fetched.append([uri, int(bool(ipar.can_be_prefix)), int(bool(ipar.must_be_fresh)), ipar.lifetime])
                    wo = world.get(uri)
                    if wo is None and ipar.can_be_prefix:
                        # as a forwarder does: a CanBePrefix Interest is also satisfied by Data whose name extends it
                        for n2 in sorted(world):
                            if n2.startswith(uri + '/') and world[n2][0] == 'D':
                                wo = world[n2]
                                break
                    if not wo or wo[0] == 'T':
                        continue
                    if wo[0] == 'N':
                        rig.deliver(bytes(enc.make_network_nack(w, enc.NackReason.NO_ROUTE)))
                        continue
                    if served >= case.get('budget', BUDGET):
                        if not exhausted:
                            fetched.pop()
                        exhausted = True
                        continue
                    served += 1
                    rig.deliver(wires[wo[1]])
            if not task.done():
                verdict = 'HANG'
            elif exhausted:
                verdict = 'F'
            elif 'e' in box:
                verdict = 'E:' + _exc_name(box['e'])
            else:
                verdict = 'A' if box.get('r') else 'R'
            out['steps'].append({'verdict': verdict, 'fetched': fetched,
                                 'raw': repr(box.get('r')) if 'r' in box else None,
                                 'exc': type(box['e']).__name__ if 'e' in box else None})
        out['loop_errors'] = rig.loop.errors
        return out


# ------------------------------------------------------------------------- concurrent validations (stream conc:*)
# Several validations IN FLIGHT AT ONCE on one NDNApp (any validator instances): every step of the case is started
# while the others wait for their certificates, and the simulated network answers the outstanding certificate Interests
# one at a time in an order the case prescribes (`sched`).  Certificates may share a NAME: `twins` are further Data
# packets published under a name the world already serves (another key properly issued under the same name, a forged
# one, the same certificate re-issued) - the network hands them out to Interests that pin them by implicit digest
# (`N/sha256digest=...`, key locator field `pin`).  Ground truth and oracle: conc_chain.
class _V2AsV1:
    """what a user of the new front-end has to write to use the (v1-typed) cascade validator on ndn.appv2.NDNApp:
    `express_interest(name, validator=..., **interest parameters)` on top of `NDNApp.express`.  Harness code, no logic:
    a bool verdict becomes PASS / FAIL, the result tuple is reordered."""

    def __init__(self, app):
        self.app = app

    def express_interest(self, name, validator=None, **kw):
        from ndn import appv2

        async def val(n, sig, ctx):
            return appv2.ValidResult.PASS if await validator(n, sig) else appv2.ValidResult.FAIL

        async def go(coro):
            n, content, ctx = await coro
            return n, ctx.get('meta_info'), content
        return go(self.app.express(name, val, **kw))


def published(case):
    """every Data the network can hand out: what the world serves under a name, and the twins"""
    out = []
    for oid in [w[1] for _, w in sorted(case['world'].items()) if w[0] == 'D'] + list(case.get('twins', [])):
        if oid not in out:
            out.append(oid)
    return out


def run_conc(case):
    import hashlib
    from apphelp import AppRig
    from ndn import encoding as enc
    _fresh_process_state()
    front = case.get('front', 'v1')
    with AppRig(front, t0=T0) as rig:
        objs = case['objs']
        wires = {oid: build_wire(case, oid) for oid in sorted(objs)}
        names = {oid: fullname(objs[oid]) for oid in objs}
        out = {'insts': [], 'steps': [], 'names': names, 'conc': True}
        app = rig.app if front == 'v1' else _V2AsV1(rig.app)
        validators = _build_insts(case, rig, app, wires, names, out)
        face, world, pubs = rig.face, case['world'], published(case)
        by_digest = {(names[oid], hashlib.sha256(wires[oid]).digest()): oid for oid in pubs}
        boxes, tasks = {}, {}

        def start(k):
            ii, oid = case['steps'][k]
            v = validators[ii]
            if v is None:
                return
            name, _, _, sig = enc.parse_data(wires[oid])
            box = boxes[k] = {}

            async def go():
                try:
                    box['r'] = await v(name, sig)
                except BaseException as e:      # noqa
                    box['e'] = e
            tasks[k] = rig.loop.create_task(go())
            rig.loop.settle()

        def answer(w):
            iname, ipar, _, _ = enc.parse_interest(w)
            last = bytes(iname[-1]) if iname else b''
            if len(last) == 34 and last[0] == 1:       # ImplicitSha256DigestComponent: one exact packet or nothing
                oid = by_digest.get((_uri(iname[:-1]), last[2:]))
                if oid is not None:
                    rig.deliver(wires[oid])
                elif case.get('dnack'):
                    rig.deliver(bytes(enc.make_network_nack(w, enc.NackReason.NO_ROUTE)))
                return
            wo = world.get(_uri(iname))
            if not wo or wo[0] == 'T':
                return
            if wo[0] == 'N':
                rig.deliver(bytes(enc.make_network_nack(w, enc.NackReason.NO_ROUTE)))
            else:
                rig.deliver(wires[wo[1]])

        sched = list(case.get('sched', []))
        todo = list(range(len(case['steps'])))
        queue, interests, cursor, idle, served, maxq, inflight = [], [], 0, 0, 0, 0, 0
        while idle < 40:
            for w in face.sent[cursor:]:
                iname, ipar, _, _ = enc.parse_interest(w)
                interests.append([_uri(iname), int(bool(ipar.can_be_prefix)), int(bool(ipar.must_be_fresh)), ipar.lifetime])
                queue.append(w)
            cursor = len(face.sent)
            maxq = max(maxq, len(queue))
            inflight = max(inflight, sum(1 for t in tasks.values() if not t.done()))
            nopt = (1 if todo else 0) + len(queue)
            if nopt == 0:
                if all(t.done() for t in tasks.values()):
                    break
                rig.loop.advance(rig.loop.time() + 4.5)      # nothing to answer: the pending Interests time out
                idle += 1
                continue
            pick = (sched.pop(0) if sched else 0) % nopt
            if todo and pick == 0:
                start(todo.pop(0))
                continue
            w = queue.pop(pick - (1 if todo else 0))
            served += 1
            if served <= 4 * case.get('budget', BUDGET):
                answer(w)
        for k in range(len(case['steps'])):
            if k not in tasks:
                out['steps'].append({'verdict': 'X', 'fetched': []})
                continue
            box = boxes[k]
            if not tasks[k].done():
                verdict = 'HANG'
            elif 'e' in box:
                verdict = 'E:' + _exc_name(box['e'])
            else:
                verdict = 'A' if box.get('r') else 'R'
            out['steps'].append({'verdict': verdict, 'fetched': [], 'raw': repr(box.get('r')) if 'r' in box else None,
                                 'exc': type(box['e']).__name__ if 'e' in box else None})
        out['interests'] = interests
        out['max_outstanding'] = maxq
        out['max_inflight'] = inflight
        out['loop_errors'] = rig.loop.errors
        return out


def conc_chain(case, inst, oid):
    """(possible, certain): is there a chain oid - certificate - ... - anchor through certificates the network can hand out?
    A key locator that pins a certificate packet by its implicit digest names exactly that packet; a plain one names every
    Data published under the name.  `possible`: some choice of published certificates is a chain (an acceptance needs one).
    `certain`: every link is to the anchor, pins a published certificate, or names a certificate that is the ONLY Data
    published under its name and is what the world serves under it - whichever answers are under way, the certificates of
    this chain are what the validator gets (a refusal is judged only then: when several Data share the name, which one a
    plain Interest retrieves is the network's choice)."""
    schema = case['schemas'][inst['schema']]
    anchor = case['objs'][inst['anchor']]
    aname = fullname(anchor)
    pubs = published(case)
    byname = {}
    for p_ in pubs:
        byname.setdefault(fullname(case['objs'][p_]), []).append(p_)

    def rec(o, seen):
        kn = kl_name(case, o)
        if kn is None or not spec_allowed(schema, fullname(o), kn):
            return False, False
        if kn == aname and (not o.get('pin') or (os.environ.get('C14_PIN_ANCHOR') and o['kl'] == inst['anchor'])):
            # (a key locator that names the anchor certificate WITH its implicit digest is read as naming the anchor only
            # under C14_PIN_ANCHOR=1: the unchanged library fetches the anchor from the network and refuses, because the
            # schema does not let the anchor sign itself.  Never generated by default.)
            ok = spec_verifies(anchor['key'], o)
            return ok, ok
        if o.get('pin'):
            cands, sure = ([o['kl']] if o['kl'] in pubs else []), True
        else:
            cands = byname.get(kn, [])
            w = case['world'].get(kn)
            sure = len(cands) == 1 and bool(w) and w[0] == 'D' and w[1] == cands[0]
        poss = cert = False
        for c_ in cands:
            c = case['objs'][c_]
            if c_ in seen or c.get('kind') == 'pkt' or not spec_verifies(c.get('key'), o):
                continue
            p2, c2 = rec(c, seen | {c_})
            poss = poss or p2
            cert = cert or (p2 and c2 and sure)
        return poss, cert
    return rec(case['objs'][oid], frozenset())


def oracle_conc(case, impl):
    for k, (inst, rec) in enumerate(zip(case['insts'], impl['insts'])):
        exp, got = spec_buildable(case, inst), rec['built'] == 'ok'
        if got != exp:
            return (f'instance {k}: validator was built although the anchor does not match the roots of trust or is not properly '
                    f'self-signed' if got else f'instance {k}: validator refused a matching, properly self-signed anchor: {rec["built"]}')
    for k, ((ii, oid), s) in enumerate(zip(case['steps'], impl['steps'])):
        if s['verdict'] == 'X':
            continue
        if s['verdict'] == 'HANG':
            return f'step {k}: validation neither finished nor waited for a certificate'
        poss, cert = conc_chain(case, case['insts'][ii], oid)
        if s['verdict'] == 'A' and not poss:
            return (f'step {k}: instance {ii} accepted a packet without a valid chain to its anchor while other validations '
                    f'were in flight')
        if cert and s['verdict'] != 'A':
            return (f'step {k}: instance {ii} did not accept a packet with a valid chain while other validations were in '
                    f'flight: {s["verdict"]}')
    if impl['loop_errors'] and case.get('front', 'v1') == 'v1':     # (on appv2 the adapter's tasks are harness code)
        return f'background task error: {impl["loop_errors"][:2]}'
    return None


# ------------------------------------------------------------------------------------- model
def _ids(case, impl):
    """names -> model ids, keys -> model key tokens, object order"""
    oids = sorted(case['objs'])
    names = {}
    for oid in oids:
        names.setdefault(fullname(case['objs'][oid]), len(names))
    for n in sorted(case['world']):
        names.setdefault(n, len(names))
    for _, n, _ in changes(case):
        names.setdefault(n, len(names))
    kids = {}
    for oid in oids:
        for k in (case['objs'][oid].get('key'), case['objs'][oid].get('by')):
            if k and k not in ('empty', 'garbage'):
                kids.setdefault(k, len(kids) + 1)
    return oids, names, kids


_NAMEHEX = {}


def _name_token(uri):
    if uri not in _NAMEHEX:
        from ndn import encoding as enc
        _NAMEHEX[uri] = LC.enc_name(enc.Name.from_str(uri))
    return _NAMEHEX[uri]


def model_line(case, impl):
    """the COMPOSED model: the compiled LVS model of every instance's schema (as the real compiler emitted it), the
    user functions that are defined, and the certificate world (names, who signed what with which key, what is
    retrievable).  Nothing the real Checker answered is on the line: the driver computes every link's `allowed` with
    `Ndn.Lvs.check`, the anchor's matched rules, `root_of_trust`, `validate_user_fns` and the construction itself."""
    if LV.is_lvs(case):
        return LV.model_line(case, impl)
    if case.get('conc'):
        return None         # concurrent validations are outside the model (a validation is atomic there): oracle only
    oids, names, kids = _ids(case, impl)
    idx = {oid: i for i, oid in enumerate(oids)}
    st = {'hmac': 'h', 'rsa': 'r', 'ecdsa': 'e', 'ed25519': 'd', 'other': 'o'}
    kt = {'ec': 'e', 'rsa': 'r', 'ed': 'd'}
    ol = []
    for n, oid in enumerate(oids):
        o = case['objs'][oid]
        kn = kl_name(case, o)
        signer = kids[o['by']] if o['mode'] in ('normal', 'emptykl', 'kldigest') or o['mode'].startswith('as:') else None
        if o['kind'] == 'pkt' or o['key'] == 'empty':
            content = '~'
        elif o['key'] == 'garbage':
            content = f'b{900 + n}'
        else:
            content = kt[ktype(o['key'])] + str(kids[o['key']])
        ol.append(f"{names[fullname(o)]}:{names[kn] if kn else '~'}:{st[declared(o)]}:"
                  f"{signer if signer is not None else '~'}:{content}")
    wl = []
    for n in sorted(case['world']):
        w = case['world'][n]
        wl.append(f"{names[n]}=" + (f"D{idx[w[1]]}" if w[0] == 'D' else w[0]))
    models, il = [], []
    sids = {}
    for k, (inst, rec) in enumerate(zip(case['insts'], impl['insts'])):
        anchor = case['objs'][inst['anchor']]
        if anchor['key'] == 'empty' or rec.get('token') is None:
            return None
        if rec['token'] not in models:
            models.append(rec['token'])
        sid = storage_id(case, k)           # the storage OBJECT: E, or the number of the MemoryKeyStorage object
        store = 'E' if sid is None else 'M%d' % sids.setdefault(sid, len(sids))
        il.append('/'.join([str(idx[inst['anchor']]), str(models.index(rec['token'])), ','.join(rec['env']) or '.', store]))
    sl = []
    ch = changes(case)
    for k, (i, oid) in enumerate(case['steps']):
        for kk, n, out in ch:
            if kk == k:                     # the world changes before this validation
                sl.append(f"W{names[n]}=" + ('A' if out is None else f"D{idx[out[1]]}" if out[0] == 'D' else out[0]))
        sl.append(f'{i}:{idx[oid]}')
    nl = [_name_token(u) for u, _ in sorted(names.items(), key=lambda kv: kv[1])]
    return (f"C14 pki {case.get('budget', BUDGET)} {'/'.join(nl)} {'@'.join(models) or '.'} {';'.join(ol) or '.'} "
            f"{','.join(wl) or '.'} {';'.join(il) or '.'} {','.join(sl) or '.'}")


def _set(s):
    return [] if s == '.' else sorted(set(s.split(',')))


def model_obs(answer, case, impl):
    if LV.is_lvs(case):
        return LV.model_obs(answer, case, impl)
    assert answer.startswith('ok '), answer
    _, ir, sr, info = answer.split(' ')
    _, names, _ = _ids(case, impl)
    back = {str(v): k for k, v in names.items()}
    steps = []
    for tok in ([] if sr == '.' else sr.split(',')):
        v, log = tok.split('@')
        ints = []
        for x in (log.split('.') if log else []):
            n, cbp, mbf, life = x.split('^')
            ints.append([back[n], int(cbp), int(mbf), int(life)])
        steps.append([v, ints])
    infos = []
    for tok in ([] if info == '.' else info.split(';')):
        uf, roots, matched, links = tok.split('~')
        infos.append([uf == '1', _set(roots), matched if matched.startswith('E:') else _set(matched),
                      [] if links == '.' else links.split('+')])
    return {'insts': [] if ir == '.' else ir.split(','), 'steps': steps, 'checker': infos}


def impl_obs(impl):
    if impl.get('lvs'):
        return LV.impl_obs(impl)
    return {'insts': [r['built'] for r in impl['insts']],
            'steps': [[s['verdict'], s['fetched']] for s in impl['steps']],
            'checker': [[r['userfns'], r['roots'], r['matched'], r['links']] for r in impl['insts']]}


# ------------------------------------------------------------------------------------- oracle
def oracle(case, impl):
    """the property statement, evaluated on the implementation's observable behaviour"""
    if LV.is_lvs(case):
        return LV.oracle(case, impl)
    if case.get('conc'):
        return oracle_conc(case, impl)
    for k, (inst, rec) in enumerate(zip(case['insts'], impl['insts'])):
        exp = spec_buildable(case, inst)
        got = rec['built'] == 'ok'
        if got and not exp:
            return f'instance {k}: validator was built although the anchor does not match the roots of trust or is not properly self-signed'
        if exp and not got:
            anchor = case['objs'][inst['anchor']]
            kinds = ' with an Ed25519 signature' if declared(anchor) == 'ed25519' else ''
            return f'instance {k}: validator refused a matching, properly self-signed anchor{kinds}: {rec["built"]}'
    # what each storage OBJECT may vouch for: (certificate name, key) of every certificate that an instance holding the object
    # FETCHED (the Interest was seen) at an earlier validation, that was served under exactly that name then and had a chain then
    # (in this same sense) to the anchor of the instance that fetched it.  "Every certificate on the way can be retrieved" is read
    # as: retrievable now, or retrieved-and-validated earlier into the storage the instance was given (a cache is part of the
    # anchored state); instances that were not handed the same object share nothing.
    trust = {}
    for k, ((ii, oid), s) in enumerate(zip(case['steps'], impl['steps'])):
        if s['verdict'] == 'X':
            continue
        if s['verdict'] == 'HANG':
            return f'step {k}: validation neither finished nor waited for a certificate'
        at = dict(case, world=world_at(case, k)) if changes(case) else case
        inst = case['insts'][ii]
        sid = storage_id(case, ii)
        held = set(trust.get(sid, ())) if sid is not None else set()
        exp, why = spec_chain(at, inst, oid)                  # a chain in the world as it is NOW
        got = s['verdict'] == 'A'
        if got and not exp and not (held and spec_chain(at, inst, oid, trusted=held)[0]):
            others = sorted(set(j for j, _ in case['steps'][:k] if j != ii and storage_id(case, j) != sid))
            return (f'step {k}: instance {ii} accepted a packet without a valid chain to its anchor ({why})'
                    + (' after other instances validated before' if others else ''))
        if sid is not None:
            for f in s['fetched']:
                key = served_key(case, at['world'], f[0])
                if key not in (None, 'empty') and spec_chain(at, inst, at['world'][f[0]][1], trusted=held)[0]:
                    trust.setdefault(sid, set()).add((f[0], key))
        if exp and not got and 'odd' in why:
            continue      # chain through an expired / not-yet-valid / non-KEY certificate: refusing it is not judged
        if exp and not got and sid is not None and not key_stable(case, k):
            continue      # ANOTHER key was served under one name before (a name denotes one certificate in NDN): a storage that
            #               holds the earlier key refuses what the new key signed - not judged (model: compared; theorem: KeyStable)
        if exp and not got:
            kinds = ' that contains Ed25519 signatures' if 'ed25519' in why else ''
            return f'step {k}: instance {ii} did not accept a packet with a valid chain{kinds}: {s["verdict"]}'
    if impl['loop_errors']:
        return f'background task error: {impl["loop_errors"][:2]}'
    return None


def finding_key(case, impl, why):
    ed = '-ed25519' if 'Ed25519' in why else ''
    if 'were in flight' in why:
        return ('accept-without-chain' if 'accepted' in why else 'valid-chain-not-accepted') + '-concurrent'
    if 'accepted a packet without a valid chain' in why:
        return 'accept-without-chain' + ('-after-other-instances' if 'after other instances' in why else '')
    if 'did not accept a packet with a valid chain' in why:
        return 'valid-chain-not-accepted' + ed
    if 'validator refused a matching' in why:
        return 'good-anchor-refused' + ed
    if 'validator was built although' in why:
        return 'built-with-bad-anchor'
    if 'neither finished' in why:
        return 'validation-hangs'
    return 'background-task-error'


def nontrivial(case, impl):
    if LV.is_lvs(case):
        return LV.nontrivial(case, impl)
    if case.get('conc'):
        return bool(impl.get('interests')) or any(s['verdict'] == 'A' for s in impl['steps'])
    return any(s['fetched'] or s['verdict'] == 'A' for s in impl['steps'])


def tags(case, impl):
    if LV.is_lvs(case):
        return LV.tags(case, impl)
    t = ['dev:' + case.get('deviation', '?'), 'insts:%d' % len(case['insts']), 'steps:%d' % len(case['steps'])]
    for r in impl['insts']:
        t.append('built:' + r['built'])
    for s in impl['steps']:
        t.append('verdict:' + s['verdict'])
        t.append('fetches:%d' % len(s['fetched']))
    for oid, o in case['objs'].items():
        if o.get('by'):
            t.append('keytype:' + ktype(o['by']))
    t.append('family:' + case.get('family', '?'))
    if case.get('conc'):
        t += ['front:' + case.get('front', 'v1'), 'conc-inflight:%d' % impl['max_inflight'],
              'conc-outstanding-interests:%d' % min(impl['max_outstanding'], 4), 'conc-twins:%d' % min(len(case.get('twins', [])), 3)]
        if any(o.get('pin') for o in case['objs'].values()):
            t.append('conc-pinned-by-digest')
        for (ii, oid), st in zip(case['steps'], impl['steps']):
            if st['verdict'] != 'X':
                poss, cert = conc_chain(case, case['insts'][ii], oid)
                t.append('conc-chain:' + ('certain' if cert else 'possible' if poss else 'none'))
    if changes(case):
        for k, n, out in changes(case):
            t.append('change:' + ('absent' if out is None else out[0]))
        for k, ((ii, oid), st) in enumerate(zip(case['steps'], impl['steps'])):
            if st['verdict'] == 'A' and not st['fetched'] and kl_name(case, case['objs'][oid]) != fullname(case['objs'][case['insts'][ii]['anchor']]):
                if spec_chain(dict(case, world=world_at(case, k)), case['insts'][ii], oid)[0] is not True:
                    t.append('accepted-from-cache-without-chain-now')
            if st['verdict'] != 'A' and spec_chain(dict(case, world=world_at(case, k)), case['insts'][ii], oid)[0] is True:
                t.append('chain-now-not-accepted(key-replaced)' if not key_stable(case, k) else 'chain-now-not-accepted')
    if case.get('alias'):
        t.append('alias:' + case['alias'])
        seen = set()
        for (ii, oid), st in zip(case['steps'], impl['steps']):      # the alias-naming packet after / before its sibling
            o = case['objs'][oid]
            if o['kind'] == 'pkt' and o['name'].endswith('20') and st['verdict'] == 'A':
                seen.add(ii)
            elif ii in seen and st['verdict'] in 'AR' and o['kind'] == 'pkt':
                t.append('alias:after-sibling-accepted')
                break
    for i in case['insts']:
        t.append('storage:' + str(i.get('storage') or 'default'))
    if any('=' in o['name'].rsplit('/', 1)[-1] for o in case['objs'].values() if o['kind'] == 'cert'):
        t.append('numeric-key-id')
    return t


# ------------------------------------------------------------------------------------- cases
def _pool_ids():
    return set([f'ec{i}' for i in range(14)] + [f'rsa{i}' for i in range(4)] + [f'ed{i}' for i in range(5)])


class _Alloc:
    def __init__(self, rng):
        self.rng = rng
        self.free = {'ec': [f'ec{i}' for i in range(14)], 'rsa': [f'rsa{i}' for i in range(4)],
                     'ed': [f'ed{i}' for i in range(5)]}
        for v in self.free.values():
            rng.shuffle(v)

    def key(self, typ=None):
        if typ is None:
            typ = self.rng.choice(['ec'] * 7 + ['rsa'] * 1 + ['ed'] * 2)
        if not self.free[typ]:
            typ = 'ec'
        return self.free[typ].pop()


class _Pki:
    """one hierarchy: a site, a root key, entity certificates created on demand"""

    def __init__(self, case, rng, alloc, site, tag, keytype=None, numkid=None):
        self.case, self.rng, self.alloc, self.site, self.tag = case, rng, alloc, site, tag
        self.keytype = keytype
        self.numkid = numkid          # key ids are typed numbers (`seq=7`, `t=7`, ...) instead of generic components
        self.nkid = (ord(tag) - 97) * 60
        self.root_key = alloc.key(keytype)
        self.anchor = self.add({'kind': 'anchor', 'name': f'/{site}/KEY/{tag}r', 'issuer': 'self', 'key': self.root_key,
                                'by': self.root_key, 'mode': 'normal'}, self_kl=True)
        self.ent = {}

    def add(self, o, self_kl=False, serve=True):
        oid = 'o%02d' % len(self.case['objs'])
        self.case['objs'][oid] = o
        if self_kl:
            o['kl'] = oid
        if o['kind'] != 'pkt' and serve:
            self.case['world'][fullname(o)] = ['D', oid]
        return oid

    def cert(self, kind, ids):
        """returns oid of the certificate of an entity, creating its issuers"""
        k = (kind,) + tuple(ids)
        if k in self.ent:
            return self.ent[k]
        s, t = self.site, self.tag
        if kind == 'admin':
            name, issuer, parent = f'/{s}/admin/{ids[0]}/KEY/{t}a{ids[0]}', 'root', self.anchor
        elif kind == 'user':
            name, issuer, parent = f'/{s}/user/{ids[1]}/KEY/{t}u{ids[1]}', ids[0], self.cert('admin', ids[:1])
        elif kind == 'fuser':
            name, issuer, parent = f'/{s}/user/{ids[0]}/KEY/{t}u{ids[0]}', 'root', self.anchor
        elif kind == 'dev':
            name, issuer, parent = f'/{s}/dev/{ids[1]}/{ids[2]}/KEY/{t}d{ids[2]}', 'i', self.cert('user', ids[:2])
        elif kind == 'gb':
            name, issuer, parent = f'/{s}/grp/grp/KEY/{t}g{ids[0]}', 'i', self.anchor
        elif kind == 'ga':
            name, issuer, parent = f'/{s}/grp/grp/KEY/{t}h{ids[0]}', 'i', self.cert('gb', ids)
        if self.numkid:
            self.nkid += 1
            name = name.rsplit('/', 1)[0] + f'/{self.numkid}={self.nkid}'
        key = self.alloc.key(self.keytype)
        pk = self.case['objs'][parent]['key']
        oid = self.add({'kind': 'cert', 'name': name, 'issuer': issuer, 'key': key, 'by': pk, 'kl': parent, 'mode': 'normal'})
        self.ent[k] = oid
        return oid

    def signed_by(self, oid, n):
        """a packet signed DIRECTLY by this certificate (or the anchor), or None"""
        if oid == self.anchor:
            return self.packet('pub', [], n)
        for k, v in self.ent.items():
            if v == oid:
                kind = {'admin': 'note', 'user': 'doc', 'fuser': 'fdoc', 'dev': 'reading', 'ga': 'msg'}.get(k[0])
                return self.packet(kind, list(k[1:]), n) if kind else None
        return None

    def packet(self, kind, ids, n):
        s = self.site
        if kind == 'pub':
            name, signer = f'/{s}/pub/p{n}', self.anchor
        elif kind == 'note':
            name, signer = f'/{s}/note/{ids[0]}/n{n}', self.cert('admin', ids[:1])
        elif kind == 'doc':
            name, signer = f'/{s}/doc/{ids[1]}/d{n}', self.cert('user', ids[:2])
        elif kind == 'fdoc':
            name, signer = f'/{s}/doc/{ids[0]}/d{n}', self.cert('fuser', ids[:1])
        elif kind == 'reading':
            name, signer = f'/{s}/reading/{ids[1]}/{ids[2]}/r{n}', self.cert('dev', ids[:3])
        elif kind == 'msg':
            name, signer = f'/{s}/msg/m{n}', self.cert('ga', ids[:1])
        elif kind == 'vdoc':
            name, signer = f'/{s}/vdoc/{ids[0]}/v=1/x{n}', self.cert('fuser', ids[:1])
        sk = self.case['objs'][signer]['key']
        return self.add({'kind': 'pkt', 'name': name, 'by': sk, 'kl': signer, 'mode': 'normal'})


def _chain_of(case, oid):
    """[packet, cert, ..., anchor] following the key locators of the description"""
    out = [oid]
    while True:
        o = case['objs'][out[-1]]
        if o.get('kl') is None or o['kl'] == out[-1] or o['kl'] in out:
            return out
        out.append(o['kl'])


DEVIATIONS = ['none', 'none', 'alias', 'alias', 'alias', 'shape', 'skip', 'forged', 'subst', 'missing', 'nack', 'timeout', 'unsigned', 'loop',
              'astype', 'hmac', 'emptykey', 'garbagekey', 'wrongdata', 'prefixdata', 'prefixdata', 'oddcert', 'emptyname',
              'pubforge', 'pubforge']


def _inject(case, rng, alloc, pki, pkt_oid, dev):
    """one deviation at a random link of the chain of pkt_oid; returns a description of what was done"""
    objs = case['objs']
    chain = _chain_of(case, pkt_oid)
    d = len(chain) - 1                       # links 0..d-1; chain[d] is the anchor
    i = rng.randrange(d)
    if dev in ('prefixdata', 'oddcert'):     # these concern a fetched certificate: a link whose signer is not the anchor
        if d < 2:
            return 'none', 0
        i = rng.randrange(d - 1)
    if dev == 'emptyname':                   # the packet itself is named `/`: Checker.check raises IndexError (name[-1])
        i = 0
    signee, signer = objs[chain[i]], objs[chain[i + 1]]
    signer_is_anchor = (i + 1 == d)
    if dev == 'emptyname':
        signee['name'] = '/'
    elif dev == 'shape':
        if signee['kind'] == 'pkt':
            parts = _comps(signee['name'])
            j = rng.randrange(1, len(parts))
            parts[j] = parts[j] + 'x'
            signee['name'] = '/' + '/'.join(parts)
        else:
            old = fullname(signee)
            if rng.random() < 0.5:
                signee['issuer'] = signee['issuer'] + 'x'
            else:
                parts = _comps(signee['name'])
                j = rng.randrange(1, len(parts) - 2)
                parts[j] = parts[j] + 'x'
                signee['name'] = '/' + '/'.join(parts)
            w = case['world'].pop(old, None)
            if w:
                case['world'][fullname(signee)] = w
    elif dev == 'skip':
        if i + 2 <= d:
            signee['kl'] = chain[i + 2]
            signee['by'] = objs[chain[i + 2]]['key']
        else:
            dev = 'none'
    elif dev == 'forged':
        signee['by'] = alloc.key(ktype(signee['by']))
    elif dev == 'subst':
        if signer_is_anchor:
            dev = 'forged'
            signee['by'] = alloc.key(ktype(signee['by']))
        else:
            signer['key'] = alloc.key(ktype(signer['key']))
    elif dev in ('missing', 'nack', 'timeout'):
        n = fullname(signer)
        if dev == 'missing':
            case['world'].pop(n, None)
        else:
            case['world'][n] = ['N'] if dev == 'nack' else ['T']
    elif dev == 'unsigned':
        signee['mode'] = rng.choice(['nosig', 'digest', 'emptykl', 'kldigest'] if signee['kind'] == 'pkt'
                                    else ['digest', 'emptykl', 'kldigest'])
    elif dev == 'loop':
        if signer_is_anchor:
            dev = 'none'
        elif signee['kind'] == 'cert' and rng.random() < 0.6:
            signer['kl'], signer['by'] = chain[i], signee['key']          # two certificates naming each other
        else:
            signer['kl'], signer['by'] = chain[i + 1], signer['key']      # a certificate naming itself
    elif dev == 'astype':
        nat = NATURAL[ktype(signee['by'])]
        signee['mode'] = 'as:' + rng.choice([t for t in ('rsa', 'ecdsa', 'ed25519') if t != nat])
    elif dev == 'hmac':
        signee['mode'] = 'hmac'
    elif dev == 'pubforge':
        # a forgery anybody can compute: SignatureType rewritten (assigned and unassigned numbers), KeyLocator naming the
        # genuine certificate, SignatureValue recomputed from public inputs (_pub_forger)
        signee['mode'] = 'pub:%d:%s' % (rng.choice(PUB_TYPES), rng.choice(PUB_VALUES))
    elif dev in ('emptykey', 'garbagekey'):
        if signer_is_anchor:
            dev = 'none'
        else:
            signer['key'] = 'empty' if dev == 'emptykey' else 'garbage'
    elif dev == 'wrongdata':
        others = [oid for oid, o in objs.items() if o['kind'] == 'cert' and oid != chain[i + 1]]
        if signer_is_anchor or not others:
            dev = 'none'
        else:
            case['world'][fullname(signer)] = ['D', rng.choice(others)]
    elif dev == 'prefixdata':
        # the named certificate X is not retrievable, but a validly signed, schema-allowed Data named X/seg0 carrying the
        # same key bits is (the schema has the `...b` rules of with_bundles): only a CanBePrefix Interest can fetch it
        n = fullname(signer)
        q = rng.random()
        if q < 0.7:
            case['world'].pop(n, None)
        elif q < 0.85:
            case['world'][n] = ['T']
        pki.add({'kind': 'blob', 'name': n + '/seg0', 'key': signer['key'], 'by': signer['by'], 'kl': signer['kl'],
                 'mode': signer['mode']})
    elif dev == 'oddcert':
        signer['odd'] = rng.choice(['expired', 'future', 'ctype'])
    elif dev == 'alias':
        # the signee names ANOTHER SPELLING N' of its signer's certificate name N: a typed-number component (the version,
        # or a numeric key id) carried in another width - other bytes on the wire, another name, the same `Name.to_str`.
        # Nothing is retrievable under N' (absent / Nack / timeout / the producer answers with the certificate named N), or
        # ANOTHER certificate (another key) is published under N' and the signee is signed with that key (a valid chain
        # through N') or with the key of N (no chain).  A sibling packet signed through N is validated by the same
        # instance (the generator puts it first in most histories), so N's key is in the instance's storage.
        how = rng.choice(['missing', 'missing', 'nack', 'timeout', 'canon', 'twin-good', 'twin-good', 'twin-bad'])
        twin = {'kind': 'cert', 'name': signer['name'], 'issuer': signer['issuer'], 'key': signer['key'],
                'by': signer['by'], 'kl': signer['kl'], 'mode': signer['mode']}
        for k in ('ver', 'odd'):
            if k in signer:
                twin[k] = signer[k]
        last = signer['name'].rsplit('/', 1)[1]
        if '=' in last and rng.random() < 0.5:
            twin['name'] = signer['name'].rsplit('/', 1)[0] + '/' + respell(last, rng)
        else:
            twin['ver'] = respell(signer.get('ver', VERSION), rng)
        if how.startswith('twin'):
            twin['key'] = alloc.key(ktype(signer['key']) if signer['key'] in _pool_ids() else None)
        toid = pki.add(twin, serve=how.startswith('twin'))
        if how in ('nack', 'timeout'):
            case['world'][fullname(twin)] = ['N'] if how == 'nack' else ['T']
        elif how == 'canon':
            case['world'][fullname(twin)] = ['D', chain[i + 1]]
        signee['kl'] = toid
        if how == 'twin-good':
            signee['by'] = twin['key']
        case['alias'] = how
    return dev, i


def _gen(rng, family='random'):
    case = {'schemas': {}, 'objs': {}, 'world': {}, 'insts': [], 'steps': [], 'budget': BUDGET, 'family': family}
    alloc = _Alloc(rng)
    site = rng.choice(['sa', 'sb'])
    amb = rng.random() < 0.12
    main_t = 'amb' if amb else rng.choice(['full', 'full', 'full', 'loose', 'flat'])
    keytype = rng.choice([None, None, None, 'ec', 'ec', 'rsa', 'ed'])
    case['schemas']['S'] = TEMPLATES[main_t](site)
    numkid = rng.choice([None, None, None, 'seq', 't', 'v', 'seg', 'off'])
    h1 = _Pki(case, rng, alloc, site, 'a', keytype, numkid)
    pkts = []
    n_pk = rng.choice([1, 2, 2, 3])
    adm, usr, dv = rng.choice(['al', 'bo']), rng.choice(['ua', 'ub']), rng.choice(['d1', 'd2'])
    for n in range(n_pk):
        if main_t == 'amb':
            kind = rng.choice(['msg', 'msg', 'pub'])
            pkts.append(h1.packet(kind, ['1'], n))
        elif main_t == 'flat':
            kind = rng.choice(['pub', 'fdoc', 'fdoc'])
            pkts.append(h1.packet(kind, [usr if rng.random() < 0.7 else 'uc'], n))
        else:
            kind = rng.choice(['pub', 'note', 'doc', 'doc', 'reading', 'reading'])
            pkts.append(h1.packet(kind, [adm, usr if rng.random() < 0.7 else 'uc', dv], n))
    dev = rng.choice(DEVIATIONS)
    if amb and rng.random() < 0.7:
        dev = 'loop'
    if dev == 'prefixdata' or rng.random() < 0.15:
        case['schemas']['S'] = with_bundles(case['schemas']['S'])
    target = rng.choice(pkts)
    sibling = None
    if dev != 'none':
        chain0 = _chain_of(case, target)
        dev, link = _inject(case, rng, alloc, h1, target, dev)
        case['deviation_link'] = link
        if dev == 'alias':
            sibling = h1.signed_by(chain0[link + 1], 20)
            if sibling is not None:
                pkts.append(sibling)
    case['deviation'] = dev
    # instances
    case['insts'].append({'schema': 'S', 'anchor': h1.anchor, 'userfns': True})
    r = rng.random()
    h2 = None
    if r < 0.35:       # rival anchor on the same site and schema
        h2 = _Pki(case, rng, alloc, site, 'b', keytype, numkid)
        case['insts'].append({'schema': 'S', 'anchor': h2.anchor, 'userfns': True})
    elif r < 0.55:     # another schema on the same site, same anchor
        alt = rng.choice([t for t in ('full', 'loose', 'flat') if t != main_t])
        case['schemas']['S2'] = TEMPLATES[alt](site)
        case['insts'].append({'schema': 'S2', 'anchor': h1.anchor, 'userfns': True})
    elif r < 0.65:     # another site
        site2 = 'sc'
        case['schemas']['S3'] = TEMPLATES[rng.choice(['full', 'flat'])](site2)
        h2 = _Pki(case, rng, alloc, site2, 'c', keytype, numkid)
        case['insts'].append({'schema': 'S3', 'anchor': h2.anchor, 'userfns': True})
    if h2 is not None and rng.random() < 0.6:
        t2 = case['schemas'][case['insts'][-1]['schema']]
        kinds = [r_[0] for r_ in t2['rules']]
        if 'doc' in kinds and 'admin' in kinds:
            pkts.append(h2.packet(rng.choice(['doc', 'note', 'pub']), [adm, usr, dv], 7))
        elif 'doc' in kinds:
            pkts.append(h2.packet(rng.choice(['fdoc', 'pub']), [usr], 7))
        elif 'msg' in kinds:
            pkts.append(h2.packet('msg', ['1'], 7))
    r = rng.random()
    if r < 0.08:       # anchor of the wrong site for the schema
        case['schemas']['S4'] = TEMPLATES['flat']('sz')
        case['insts'].append({'schema': 'S4', 'anchor': h1.anchor, 'userfns': True})
    elif r < 0.14:
        case['schemas']['S5'] = TEMPLATES['tworoots'](site)
        case['insts'].append({'schema': 'S5', 'anchor': h1.anchor, 'userfns': True})
    elif r < 0.20:
        case['schemas']['S6'] = TEMPLATES['fn'](site)
        case['insts'].append({'schema': 'S6', 'anchor': h1.anchor, 'userfns': rng.random() < 0.5})
    elif r < 0.27:     # a schema on which Checker.check raises (TypeError out of a user function) for /site/vdoc/... names
        case['schemas']['S7'] = TEMPLATES['fnraise'](site)
        case['insts'].append({'schema': 'S7', 'anchor': h1.anchor, 'userfns': True})
        pkts.append(h1.packet('vdoc', ['uv'], 8))      # a user of its own: its certificate is untouched by the deviation
    elif r < 0.36:     # an anchor that is not properly self-signed
        bad = dict(case['objs'][h1.anchor])
        bad['name'] = f'/{site}/KEY/zr'
        how = rng.choice(['other-key', 'astype', 'garbage', 'digest', 'hmac', 'pub', 'pub'])
        if how == 'other-key':
            bad['by'] = alloc.key(ktype(bad['by']))
        elif how == 'astype':
            bad['mode'] = 'as:' + rng.choice([t for t in ('rsa', 'ecdsa', 'ed25519') if t != NATURAL[ktype(bad['by'])]])
        elif how == 'garbage':
            bad['key'] = 'garbage'
        elif how == 'digest':
            bad['mode'] = 'digest'
        elif how == 'pub':       # "self-signed" with a value computed from the public key it carries
            bad['mode'] = 'pub:%d:%s' % (rng.choice(PUB_TYPES), rng.choice(PUB_VALUES))
        else:
            bad['mode'] = 'hmac'
        oid = h1.add(bad, self_kl=True, serve=False)
        case['insts'].append({'schema': 'S', 'anchor': oid, 'userfns': True})
    # an explicitly passed key storage instead of the default argument
    r = rng.random()
    if r < 0.12:
        case['insts'][0]['storage'] = 'mem'
    elif r < 0.16:
        case['insts'][0]['storage'] = 'empty'
    elif r < 0.21:     # a second instance with the same schema and anchor, both given ONE storage object
        case['insts'][0]['storage'] = 'share1'
        case['insts'].append(dict(case['insts'][0]))
    # steps
    ni = len(case['insts'])
    if sibling is not None:
        # the same instance validates a packet through N, then the one that names N' (sometimes N' first as well)
        case['steps'] += ([[0, target]] if rng.random() < 0.25 else []) + [[0, sibling], [0, target]]
    for _ in range(rng.randint(2, 6) - (2 if sibling is not None else 0)):
        case['steps'].append([rng.randrange(ni), rng.choice(pkts)])
    if ni > 1 and rng.random() < 0.6:      # the same packet through two instances, both orders over the run
        p = rng.choice(pkts)
        a, b = rng.sample(range(ni), 2)
        case['steps'] += [[a, p], [b, p], [a, p]]
    return case


def _chain_cands(base):
    """(instance, packet, certificate name, certificate oid, position) for every certificate that comes from the world on a
    valid chain of a step of the case"""
    cands = []
    for (ii, oid) in base['steps']:
        ok, _ = spec_chain(base, base['insts'][ii], oid)
        if ok is not True:
            continue
        o, chain = base['objs'][oid], []
        aname = fullname(base['objs'][base['insts'][ii]['anchor']])
        while True:
            kn = kl_name(base, o)
            if kn is None or kn == aname:
                break
            w = base['world'].get(kn)
            if not w or w[0] != 'D' or w[1] in [c[1] for c in chain]:
                break
            chain.append((kn, w[1]))
            o = base['objs'][w[1]]
        for pos, (kn, coid) in enumerate(chain):
            cands.append((ii, oid, kn, coid, pos))
    return cands


DYNAMIC = ['appear', 'appear', 'disappear', 'disappear', 'disappear', 'replace', 'replace', 'shared', 'shared', 'flap']


def _gen_dynamic(rng):
    """a history in which the certificate world changes between validations and / or several instances were handed ONE storage
    object.  From a generated PKI with a valid chain through a certificate C named N:
      appear     N times out / is Nacked at the first validation, then C is retrievable: the same instance and a fresh one are asked
      disappear  the packet is validated (C's key is stored), then N is withdrawn (absent / timeout / Nack): the same instance, an
                 instance holding the same storage object, a fresh instance and one with an EmptyKeyStorage are asked; sometimes C
                 comes back afterwards
      replace    after the first validation ANOTHER certificate (another key, same issuer) is published under the same name N, and a
                 packet signed with the new key exists: old and new packet through the old instance and a fresh one
      shared     two instances with DIFFERENT anchor or schema are handed one storage object (static or changing world)
      flap       N alternates between retrievable and not, the same instance asked each time"""
    base = _gen(rng)
    if LV.is_lvs(base):
        return None
    kind = rng.choice(DYNAMIC)
    cands = _chain_cands(base)
    if kind == 'replace':
        cands = [c for c in cands if c[4] == 0 and base['objs'][c[1]]['kind'] == 'pkt']
    if not cands:
        return None
    ii, oid, kn, coid, _ = rng.choice(cands)
    c = json.loads(json.dumps(base))
    c['family'] = 'dyn:' + kind
    insts = c['insts']

    def clone(storage):
        i2 = json.loads(json.dumps(insts[ii]))
        if storage is None:
            i2.pop('storage', None)
        else:
            i2['storage'] = storage
        insts.append(i2)
        return len(insts) - 1
    gone = lambda: rng.choice([None, None, ['T'], ['N']])      # noqa
    if kind == 'appear':
        c['world'][kn] = [rng.choice(['T', 'N'])]
        j = clone(rng.choice([None, None, 'mem', 'empty']))
        c['steps'] = [[ii, oid], [ii, oid], [j, oid]] if rng.random() < 0.7 else [[ii, oid], [j, oid], [ii, oid], [ii, oid]]
        c['changes'] = [[1, kn, ['D', coid]]]
        return c
    if kind in ('disappear', 'flap'):
        if insts[ii].get('storage') in (None, 'mem') and rng.random() < 0.6:
            insts[ii]['storage'] = 'shareA'
        fresh = clone(None)
        extra = [fresh]
        if insts[ii].get('storage') not in (None, 'mem', 'empty'):
            extra.append(clone(insts[ii]['storage']))          # holds the same storage object
        if rng.random() < 0.5:
            extra.append(clone('empty'))
        if kind == 'flap':
            c['steps'], c['changes'] = [], []
            up = rng.random() < 0.5
            if not up:
                c['world'][kn] = gone() or ['T']
            for r in range(rng.randint(3, 5)):
                c['steps'].append([ii, oid])
                if rng.random() < 0.4:
                    c['steps'].append([rng.choice(extra), oid])
                up = not up
                c['changes'].append([len(c['steps']), kn, ['D', coid] if up else gone()])
            c['steps'].append([ii, oid])
            return c
        others = [x for x in set(o2 for _, o2 in base['steps']) if x != oid]
        c['steps'] = [[ii, oid]]
        c['changes'] = [[1, kn, gone()]]
        tail = [[ii, oid]] + [[j, oid] for j in extra]
        if others and rng.random() < 0.5:
            tail.append([ii, rng.choice(others)])
        rng.shuffle(tail)
        c['steps'] += tail
        if rng.random() < 0.3:                                  # ... and the certificate comes back
            c['changes'].append([len(c['steps']), kn, ['D', coid]])
            c['steps'] += [[rng.choice(extra), oid], [ii, oid]]
        return c
    if kind == 'replace':
        old = c['objs'][coid]
        used = set(o.get('key') for o in c['objs'].values()) | set(o.get('by') for o in c['objs'].values())
        free = [k for k in sorted(_pool_ids()) if k not in used and old['key'] in _pool_ids() and ktype(k) == ktype(old['key'])]
        if not free:
            return None
        twin = dict(old, key=rng.choice(free))
        toid = 'o%02d' % len(c['objs'])
        c['objs'][toid] = twin
        pk = c['objs'][oid]
        noid = 'o%02d' % len(c['objs'])
        c['objs'][noid] = dict(pk, name=pk['name'] + 'r', by=twin['key'], kl=toid)
        fresh = clone(rng.choice([None, None, 'empty']))
        c['steps'] = [[ii, oid]]
        c['changes'] = [[1, kn, ['D', toid]]]
        tail = [[ii, noid], [fresh, noid], [ii, oid], [fresh, oid]]
        rng.shuffle(tail)
        c['steps'] += tail[:rng.randint(2, 4)]
        return c
    # shared: another instance (another anchor / schema when the case has one) is handed the storage object of instance ii
    others = [j for j in range(len(insts)) if j != ii]
    jj = rng.choice(others) if others else clone(None)
    insts[ii]['storage'] = insts[jj]['storage'] = 'shareA'
    pk = [o2 for _, o2 in base['steps']]
    c['steps'] = [[ii, oid], [jj, oid]] + [[rng.choice([ii, jj]), rng.choice(pk)] for _ in range(rng.randint(0, 3))]
    if rng.random() < 0.3:
        c['steps'].insert(0, [jj, oid])
    if rng.random() < 0.5:
        c['changes'] = [[rng.randint(1, len(c['steps']) - 1), kn, gone()]]
    return c


CONC_KINDS = ['twinkey', 'twinkey', 'twinkey', 'twinforged', 'twinforged', 'reissue', 'version', 'same', 'same']


def _world_chain(case, ii, oid):
    """[packet, certificate, ..., last certificate before the anchor] of a valid chain through the world, or None"""
    if spec_chain(case, case['insts'][ii], oid)[0] is not True:
        return None
    aname = fullname(case['objs'][case['insts'][ii]['anchor']])
    out, o = [oid], case['objs'][oid]
    while True:
        kn = kl_name(case, o)
        if kn == aname:
            return out
        w = case['world'].get(kn)
        if not w or w[0] != 'D' or w[1] in out:
            return None
        out.append(w[1])
        o = case['objs'][w[1]]


def _gen_conc(rng):
    """CONCURRENT validations whose chains share certificate names.  From a generated PKI with a valid chain
    packet - ... - S - C - ... - anchor (C named N, key K1, fetched from the network):
      twinkey     the issuer also issued T = (N, K2): same name, other key, other bytes - reachable by implicit digest
      twinforged  T = (N, K2) signed by a key that is not the issuer's (no chain through T)
      reissue     T = (N, K1) issued again (same key, other bytes: the signature differs)
      version     T = (N with another version component, K2 or K1): another name
      same        no second certificate: several packets through C at once
    and variants of the chain below C (every certificate of the variant cloned, each clone pinning the next by digest, the
    packet renamed): signed with K1 / K2 / an unrelated key, naming C / T, pinned by digest or plainly.  2..5 of these
    packets (and the original) are validated AT THE SAME TIME by one instance, two instances, or two instances handed one
    storage object, on one NDNApp (legacy front-end, or ndn.appv2 through a three-line adapter); the certificate answers
    arrive in an order drawn per case; unknown digests are Nacked or left unanswered; sometimes the plain name N is Nacked /
    silent / absent while its certificates stay reachable by digest."""
    base = _gen(rng, 'conc')
    if base['deviation'] in ('loop', 'oddcert', 'prefixdata', 'alias', 'emptyname'):
        return None
    picks = []
    for (ii, oid) in base['steps']:
        ch = _world_chain(base, ii, oid) if base['objs'][oid]['kind'] == 'pkt' else None
        if ch and len(ch) > 1 and [ii, ch] not in picks:
            picks.append([ii, ch])
    if not picks:
        return None
    ii, chain = rng.choice(picks)
    pos = rng.randrange(1, len(chain))
    if rng.random() < 0.5:
        pos = 1
    c = json.loads(json.dumps(base))
    kind = rng.choice(CONC_KINDS)
    c.update(family='conc:' + kind, conc=True, front=rng.choice(['v1', 'v1', 'v2']), twins=[], dnack=rng.random() < 0.4)
    objs = c['objs']
    C = objs[chain[pos]]
    if C['key'] not in _pool_ids():
        return None
    used = set(o.get('key') for o in objs.values()) | set(o.get('by') for o in objs.values())
    free = [k for k in sorted(_pool_ids()) if k not in used and ktype(k) == ktype(C['key'])]
    rng.shuffle(free)
    if len(free) < 2:
        return None
    k1, k2, kx = C['key'], free[0], free[1]

    def add(o):
        oid = 'o%02d' % len(objs)
        objs[oid] = o
        return oid
    T = None
    if kind in ('twinkey', 'twinforged', 'reissue'):
        t = dict(C, key=k1 if kind == 'reissue' else k2)
        if kind == 'twinforged':
            t['by'] = kx
        t['twin'] = 1              # (a field of its own: the description, hence the packet, differs from C's)
        T = add(t)
        if rng.random() < 0.9:     # else: T is named by packets but nobody publishes it
            c['twins'].append(T)
    elif kind == 'version':
        t = dict(C, key=rng.choice([k1, k2, k2]), ver='v=%d' % rng.choice([999999, 1000001, 2000000]))
        T = add(t)
        if rng.random() < 0.9:
            c['world'][fullname(t)] = ['D', T]
    tkey = objs[T]['key'] if T else None

    def variant(by, kl, pin, n, at=pos):
        """the chain below C again, its element next to C signed with `by` and naming `kl`; clones of certificates pin the
        next clone by digest and are published; the packet gets a name of its own"""
        nxt, nxt_pin, signer_key = kl, pin, by
        for j in range(at - 1, -1, -1):
            o = dict(objs[chain[j]], kl=nxt, by=signer_key if j == at - 1 else objs[chain[j]]['by'])
            o.pop('pin', None)
            if nxt_pin:
                o['pin'] = True
            if o['kind'] == 'pkt':
                o['name'] = o['name'] + 'c%d' % n
            else:
                o['twin'] = 10 + n
            nxt, nxt_pin = add(o), True
            if o['kind'] != 'pkt':
                c['twins'].append(nxt)
        return nxt
    menu = [(k1, chain[pos], True), (kx, chain[pos], rng.random() < 0.5), (k1, chain[pos], False)]
    if T:
        pin_t = True if kind != 'version' else rng.random() < 0.5
        menu += [(tkey, T, pin_t), (tkey, T, pin_t), (tkey, chain[pos], True), (tkey, chain[pos], True), (k1, T, pin_t),
                 (kx, T, pin_t), (tkey, chain[pos], False)]
    rng.shuffle(menu)
    pkts = [chain[0]] if rng.random() < 0.5 else []
    for n, (by, kl, pin) in enumerate(menu[:rng.randint(2, 4)]):
        pkts.append(variant(by, kl, pin, n))
    if os.environ.get('C14_PIN_ANCHOR'):
        # NOT in the default stream (observation on the unchanged library, see conc_chain): the key locator of the element
        # signed by the anchor names the anchor certificate WITH its implicit digest
        a_oid = c['insts'][ii]['anchor']
        pkts.append(variant(objs[a_oid]['key'], a_oid, True, 9, at=len(chain)))
    if rng.random() < 0.3:      # the plain name: Nacked / silent / nothing there; C stays reachable by digest
        n_ = fullname(C)
        how = rng.choice(['N', 'N', 'T', None])
        if how:
            c['world'][n_] = [how]
        else:
            c['world'].pop(n_, None)
        c['twins'].append(chain[pos])
    insts = c['insts']
    who = [ii]
    r = rng.random()
    if r < 0.6:                              # a second instance (same schema, same anchor)
        i2 = json.loads(json.dumps(insts[ii]))
        if r < 0.2 and insts[ii].get('storage') != 'empty':
            insts[ii]['storage'] = i2['storage'] = 'shareC'      # ... handed the same storage object
        elif r < 0.4:
            i2['storage'] = rng.choice(['mem', 'empty'])
        insts.append(i2)
        who.append(len(insts) - 1)
    rng.shuffle(pkts)
    c['steps'] = [[rng.choice(who), p_] for p_ in pkts]
    if rng.random() < 0.3:
        c['steps'].append([rng.choice(who), rng.choice(pkts)])
    others = [j for j in range(len(insts)) if j not in who]
    if others and rng.random() < 0.3:        # another anchor / schema joins in
        c['steps'].insert(rng.randrange(len(c['steps']) + 1), [rng.choice(others), rng.choice(pkts)])
    # the order: mostly every validation is started before the first answer arrives, then the answers in a random order
    ns = len(c['steps'])
    c['sched'] = [0 if rng.random() < 0.9 else rng.randrange(8) for _ in range(ns)] + [rng.randrange(24) for _ in range(6 * ns + 12)]
    return c


def cases(rng, tier):
    n = 520 if tier == 'quick' else 9000
    nperm = 8 if tier == 'quick' else 150
    for _ in range(n):
        yield _gen(rng)
    for _ in range(nperm):
        base = _gen(rng, 'perm')
        steps = []
        for s in base['steps']:
            if s not in steps:
                steps.append(s)
        steps = steps[:4]
        for perm in itertools.permutations(steps):
            c = json.loads(json.dumps(base))
            c['steps'] = [list(s) for s in perm]
            yield c
    # the certificate world CHANGES between validations, several instances hold one storage object (_gen_dynamic)
    made, tries = 0, 0
    want = 90 if tier == 'quick' else 1500
    while made < want and tries < want * 30:
        tries += 1
        c = _gen_dynamic(rng)
        if c is not None:
            made += 1
            yield c
    # several validations in flight at once, chains sharing certificate names (_gen_conc; oracle only)
    made, tries = 0, 0
    want = 60 if tier == 'quick' else 900
    while made < want and tries < want * 30:
        tries += 1
        c = _gen_conc(rng)
        if c is not None:
            made += 1
            yield c
    yield from LV.cases(rng, tier)      # generated LVS schemas: construction check and anchor-signed packets (c14_lvs.py)


def shrink(case):
    if LV.is_lvs(case):
        yield from LV.shrink(case)
        return
    if changes(case):
        # step indices are part of the case: drop one step (later changes move up) / one change, then unreachable objects
        ch = changes(case)
        for i in range(len(case['steps'])):
            c = json.loads(json.dumps(case))
            c.pop('appear', None)
            c['steps'] = case['steps'][:i] + case['steps'][i + 1:]
            c['changes'] = [[k - 1 if k > i else k, n, out] for k, n, out in ch]
            if c['steps']:
                yield c
        for i in range(len(ch)):
            c = json.loads(json.dumps(case))
            c.pop('appear', None)
            c['changes'] = ch[:i] + ch[i + 1:]
            yield c
        used = set(j for j, _ in case['steps'])
        for k in range(len(case['insts']) - 1, -1, -1):
            if k not in used:
                c = json.loads(json.dumps(case))
                c['insts'] = case['insts'][:k] + case['insts'][k + 1:]
                c['steps'] = [[i - (1 if i > k else 0), o] for i, o in case['steps']]
                yield c
                break
        return
    steps = case['steps']
    if case.get('conc'):
        if case.get('sched'):
            yield dict(json.loads(json.dumps(case)), sched=[])      # everything started first, answers in the order asked
        for t_ in case.get('twins', []):
            yield dict(json.loads(json.dumps(case)), twins=[x for x in case['twins'] if x != t_])
    for i in range(len(steps)):
        c = json.loads(json.dumps(case))
        c['steps'] = steps[:i] + steps[i + 1:]
        yield c
    for k in range(len(case['insts'])):
        if len(case['insts']) > 1:
            c = json.loads(json.dumps(case))
            c['insts'] = case['insts'][:k] + case['insts'][k + 1:]
            c['steps'] = [[i - (1 if i > k else 0), o] for i, o in steps if i != k]
            yield c
    # objects not reachable from the steps / anchors through key locators or the world
    keep = set(o for _, o in steps) | set(i['anchor'] for i in case['insts'])
    names = {fullname(o): oid for oid, o in case['objs'].items()}
    todo = list(keep)
    while todo:
        oid = todo.pop()
        o = case['objs'][oid]
        nxt = []
        if o.get('kl') is not None:
            nxt.append(o['kl'])
            w = case['world'].get(fullname(case['objs'][o['kl']]))
            if w and w[0] == 'D':
                nxt.append(w[1])
            for n2, w2 in case['world'].items():       # Data published under the certificate name
                if n2.startswith(fullname(case['objs'][o['kl']]) + '/') and w2[0] == 'D':
                    nxt.append(w2[1])
        for x in nxt:
            if x not in keep:
                keep.add(x)
                todo.append(x)
    if len(keep) < len(case['objs']):
        c = json.loads(json.dumps(case))
        c['objs'] = {k: v for k, v in case['objs'].items() if k in keep}
        if 'twins' in c:
            c['twins'] = [x for x in c['twins'] if x in keep]
        knames = set(fullname(o) for o in c['objs'].values())
        c['world'] = {n: w for n, w in case['world'].items() if n in knames and (w[0] != 'D' or w[1] in keep)}
        yield c
    sch = set(i['schema'] for i in case['insts'])
    if len(sch) < len(case['schemas']):
        c = json.loads(json.dumps(case))
        c['schemas'] = {k: v for k, v in case['schemas'].items() if k in sch}
        yield c


# ------------------------------------------------------------------------------------- tables
import ast


def _handlers(node):
    out = []
    for h in ast.walk(node):
        if isinstance(h, ast.ExceptHandler):
            t = h.type
            elts = t.elts if isinstance(t, ast.Tuple) else ([t] if t is not None else [])
            out.append([ast.unparse(e) for e in elts] if elts else ['BaseException'])
    return out


def _find(tree, name, kinds=(ast.FunctionDef, ast.AsyncFunctionDef)):
    return [n for n in ast.walk(tree) if isinstance(n, kinds) and n.name == name]


def _lst(hs):
    return '[' + ', '.join('[' + ', '.join('"%s"' % c for c in h) + ']' for h in hs) + ']'


def extract(repo):
    """tables from the source: the `except` clauses on the way of an exception raised by `Checker.check` (inside
    `CascadeChecker.validate`, `validate_name`, `union_checker`'s wrapper, around the validator call of
    `NDNApp._wait_for_data`), the keyword arguments of the certificate fetch, `InterestParam`'s default lifetime"""
    rd = lambda p: ast.parse(open(os.path.join(repo, p)).read())      # noqa
    cas = rd('src/ndn/security/validator/cascade_validator.py')
    caught, kwargs = [], []
    for node in _find(cas, 'validate', (ast.AsyncFunctionDef,)):
        caught += _handlers(node)
        for c in ast.walk(node):
            if isinstance(c, ast.Call) and isinstance(c.func, ast.Attribute) and c.func.attr == 'express_interest':
                kwargs.append([[k.arg or '**', ast.unparse(k.value)] for k in c.keywords]
                              + [['*%d' % i, ast.unparse(a)] for i, a in enumerate(c.args)])
    vn = []
    for node in _find(rd('src/ndn/app_support/light_versec/validator.py'), 'validate_name'):
        vn += _handlers(node)
    un = []
    for node in _find(rd('src/ndn/security/validator/digest_validator.py'), 'union_checker'):
        un += _handlers(node)
    wv = []
    for node in _find(rd('src/ndn/app.py'), '_wait_for_data'):
        for t in ast.walk(node):
            if isinstance(t, ast.Try):
                calls = [c for b in t.body for c in ast.walk(b)
                         if isinstance(c, ast.Call) and isinstance(c.func, ast.Name) and c.func.id == 'validator']
                if calls:
                    wv += _handlers(t)
    life = []
    for cls in _find(rd('src/ndn/encoding/ndn_format_0_3.py'), 'InterestParam', (ast.ClassDef,)):
        for st in cls.body:
            if isinstance(st, ast.AnnAssign) and getattr(st.target, 'id', None) == 'lifetime' and st.value is not None:
                life.append(ast.unparse(st.value))
    kw = kwargs[0] if len(kwargs) == 1 else [['?', '%d express_interest calls' % len(kwargs)]]
    kws = '[' + ', '.join('("%s", "%s")' % (a, b.replace('"', "'")) for a, b in kw) + ']'
    lf = life[0] if len(life) == 1 and life[0].isdigit() else '0'
    return ('/- generated by harness/props/c14.py from src/ndn/security/validator/cascade_validator.py, '
            'src/ndn/app_support/light_versec/validator.py, src/ndn/security/validator/digest_validator.py, src/ndn/app.py, '
            'src/ndn/encoding/ndn_format_0_3.py; do not edit -/\n'
            'namespace Ndn.Gen.C14\n\n'
            '/-- the `except (...)` clauses inside `CascadeChecker.validate`, in source order -/\n'
            f'def validateCaught : List (List String) := {_lst(caught)}\n\n'
            '/-- the `except` clauses inside `lvs_validator`\'s `validate_name` -/\n'
            f'def validateNameCaught : List (List String) := {_lst(vn)}\n\n'
            '/-- the `except` clauses inside `union_checker` (its `wrapper`) -/\n'
            f'def unionCaught : List (List String) := {_lst(un)}\n\n'
            '/-- the `except` clauses of the `try` statements of `NDNApp._wait_for_data` that enclose the call of the validator -/\n'
            f'def waitValidatorCaught : List (List String) := {_lst(wv)}\n\n'
            '/-- keyword (and positional, `*i`) arguments of the `express_interest` call inside `CascadeChecker.validate` -/\n'
            f'def fetchKwargs : List (String × String) := {kws}\n\n'
            '/-- the default of `InterestParam.lifetime` (0: not a literal) -/\n'
            f'def defaultLifetime : Nat := {lf}\n\n'
            'end Ndn.Gen.C14\n')

LEVEL_TEXT = ('Lean 4 theorems over a hand-written model of lvs_validator / union_checker / CascadeChecker.validate / _verify_sig '
              '/ MemoryKeyStorage (one storage per instance): soundness (accept -> chain), completeness (chain of depth < fuel -> '
              'accept), verdict <-> chain whenever a verdict is reached, storage invariant preserved by every validation, '
              'history independence for one instance and for any interleaving of several instances, loops never accepted, '
              'construction refused exactly for a non-matching or not properly self-signed anchor; composed with the C12 model of '
              'the Light VerSec checker (names = lists of TLV components, allowed := Checker.check of any loader-accepted model): '
              'accept <-> a chain whose every link is a C12 signing relation (packet name matches a node one of whose sign '
              'constraints is a node the key name matches under the packet\'s bindings), no accepted chain passes through a key '
              'name that matches no rule, root_of_trust = rule names of signer nodes without signers, construction built exactly '
              'when the anchor name matches a node and every root-of-trust rule name; a signing check that raises makes the '
              'validation raise that exception at every depth (never an acceptance, never a refusal, nothing cached; no except '
              'clause on the way - generated tables), on loader-accepted schemas with total user functions and non-empty names no '
              'check raises; every Interest sent is the exact-name / MustBeFresh / 4000 ms Interest for a key locator (keyword '
              'arguments of the express_interest call as a generated table), a returned Data is taken only if it has exactly the '
              'requested name, and a key is stored only under the name that was requested and only as the content of such a Data. '
              'Histories with a CHANGING certificate world and explicit storage objects (events validate / world; EmptyKeyStorage, '
              'MemoryKeyStorage objects possibly handed to several instances): completeness for every history - a chain in the world as '
              'it is now is accepted whatever happened before (failed fetches, earlier worlds, other instances), provided a name denotes '
              'one key; soundness with a cache - an acceptance has a chain through certificates retrievable now that reaches the anchor or '
              'ends at a key of a certificate that was retrievable and had such a chain at an earlier validation of an instance holding '
              'the same storage object; exact iff at every step for EmptyKeyStorage; isolation - deleting every validation of instances '
              'that do not hold the same storage object changes nothing; refinement - without world events and with private storages the '
              'model is the static one (old theorems as corollaries). '
              'The model is tied to the code '
              'on every run by differential execution of the compiled model against the real validator on the real NDNApp with '
              'real keys and certificates - the driver runs the COMPOSED model (compiled LVS model + certificate world; every '
              'Checker.check, match, root_of_trust, construction, verdict, exception class and certificate Interest with its '
              'parameters computed by the model and compared) - plus an independent chain oracle computed from the generator\'s '
              'ground truth.')
LEVEL_NOTE = ('Proof is about the model; model=code is sampled (differential testing), not proved. Signatures are ideal '
              '(explicit hypotheses); the LVS signing check is the C12 model in the `_lvs` theorems (a parameter in the generic ones). '
              'With a world that changes, soundness (accept_sound_with_cache) is WEAKER than the statement\'s "iff" exactly by the cache: '
              'an accepted chain may end at the key of a certificate that is no longer retrievable but was retrieved and validated by a '
              'chain at an earlier validation of an instance holding the same storage object (exhibited: Props/C14.lean example DISAPPEAR, '
              'stream dyn:disappear tag accepted-from-cache-without-chain-now - judged within "can be retrieved", not reported; nothing ever '
              'expires a stored key). Completeness (accept_of_chain_now) holds for every history under KeyStable (no other key was ever '
              'served under the name of a certificate retrievable now); without it it is false (example REPLACE). With an EmptyKeyStorage '
              'the plain iff holds at every step. Isolation (instances_independent) is by storage OBJECT: instances the caller handed one '
              'object do influence each other.')
TECHNIQUE = 'Lean 4 proof (induction on fuel / on the chain, storage invariant) + model/implementation correspondence check'
DESIGN_REF = 'DESIGN.md section 7, C14; finding F11'
