"""C10 — link-layer envelopes are transparent: Nack, PIT token and wrapped packets
(src/ndn/encoding/ndnlp_v2.py, appv2.py, app.py)."""
import hashlib, re
from apphelp import AppRig
from props import c06 as c6
from props import c10_extract

PROP = 'C10'
TITLE = 'Link-layer envelopes are transparent: Nack, PIT token and wrapped packets'
LEAN_TARGETS = ['NdnProofs.Props.C10', 'NdnProofs.Props.C10Bytes']
THEOREMS = [
    'Ndn.C10.parseLp_wrapped', 'Ndn.C10.lp_transparent', 'Ndn.C10.parseLp_nack', 'Ndn.C10.lp_nack', 'Ndn.C10.parseLp_nack_bare', 'Ndn.C10.lp_nack_bare',
    'Ndn.C10.parseLp_fragmented', 'Ndn.C10.lp_fragment_rejected', 'Ndn.C10.token_roundtrip',
    'Ndn.C10.reply_uses_own_token', 'Ndn.C10.no_token_bare', 'Ndn.C10.frontends',
    # every layout the decoder's in-order scan recognises / every envelope in increasing type-number order
    'Ndn.C10.nack_recognised_iff', 'Ndn.C10.parseLp_nack_general', 'Ndn.C10.lp_nack_general', 'Ndn.C10.lp_nack_ascending',
    'Ndn.C10.parseLp_nack_out_of_order', 'Ndn.C10.lp_nack_out_of_order',
    'Ndn.C10.parseLp_fragmented_general', 'Ndn.C10.lp_fragment_rejected_general',
    'Ndn.C10.parseLp_token_general', 'Ndn.C10.token_general', 'Ndn.C10.token_ascending',
    # byte level, composed with the packet decoders of the receive pipeline (NdnProofs/Props/C10Bytes.lean): the two models of
    # TlvModel.parse agree on every byte string, so the theorems are about Ndn.RecvBytes.receiveBytes
    'Ndn.LpCodec.sim_loop', 'Ndn.LpCodec.lp_schema_eq', 'Ndn.LpCodec.parse_agree', 'Ndn.LpCodec.parseLp_eq_lpDec',
    'Ndn.C10.decoders_agree', 'Ndn.C10.receiveBytes_eq', 'Ndn.C10.frontends_swallow',
    'Ndn.C10.bytes_accepted_transparent', 'Ndn.C10.bytes_accepted_dropped', 'Ndn.C10.bytes_rejected_dropped',
    'Ndn.C10.bytes_transparent', 'Ndn.C10.bytes_nack', 'Ndn.C10.nackVal_reason', 'Ndn.C10.nackVal_empty',
    'Ndn.C10.parseLp_illegal_header', 'Ndn.C10.illegal_uint_width', 'Ndn.C10.illegal_nested_critical',
    'Ndn.C10.illegal_nested_width', 'Ndn.C10.bytes_illegal_header_dropped', 'Ndn.C10.bytes_fragment_dropped',
    'Ndn.C10.parseLp_nack_repeated', 'Ndn.C10.bytes_nack_repeated', 'Ndn.C10.lpDec_elems',
    'Ndn.C10.parseLp_after_fragment', 'Ndn.C10.bytes_after_fragment_ignored',
    'Ndn.C10.reply_bytes', 'Ndn.C10.encoders_are_codec', 'Ndn.C10.nack_encoder_is_codec', 'Ndn.C10.reply_parses_back',
    'Ndn.C10.receiveNet_invoke_token', 'Ndn.C10.token_echo', 'Ndn.C10.no_token_echo',
]
PARTIAL = {}
TRUSTED = [
    'C10: the envelope layer (parse_and_check_tl, TlvModel.parse of LpPacketValue with ignore_critical, nested '
    'NetworkNack/CachePolicy, UintField/BytesField/BoolField parsing and encoding) is modelled at byte level over the field '
    'table generated from the live LpPacketValue class. The first group of theorems (lp_transparent ... token_ascending) '
    'holds for ARBITRARY Interest / Data decoders; the byte-level group (bytes_*, token_echo, ...) instantiates them with the '
    'byte-level decoder models of C07 (Ndn.RecvBytes.intDec / dataDec over the schemas generated from the live packet '
    'classes) - there the enclosed packet is an arbitrary byte string and nothing about it is assumed. That C10\'s envelope '
    'decoder and the envelope decoder of C06\'s receiveBytes (generic codec over Gen.C07.lp) are the same function on every '
    'byte string is a theorem (parseLp_eq_lpDec), as is that C10\'s two encoders are TlvModel.encode of the generic codec '
    '(encoders_are_codec, nack_encoder_is_codec)',
    'C10: the reply closure is modelled before its deadline and with the face up (deadline/return value are property C04)',
    'C10: in the transparency / Nack theorems optional headers carry a legal value when their type is one the format knows (a '
    'NonNegativeInteger of 1/2/4/8 bytes, a decodable CachePolicy); the other side is proved too: the first header with an '
    'illegal value (wrong width: ValueError; critical unknown sub-element inside Nack / CachePolicy: DecodeError) makes the '
    'decoder raise exactly that class and both front-ends drop the envelope without effect (parseLp_illegal_header, '
    'illegal_*, bytes_illegal_header_dropped; generated stream `illegal`). At the top level a critical unknown header is not '
    'illegal (ignore_critical=True). Unknown headers are unrestricted (any type, value, number, position - also after the '
    'Fragment: bytes_accepted_transparent / lpDec_elems; generated stream `headers-after-fragment`, judged by the oracle)',
    'C10: lp_transparent covers every list of optional headers (any order, any number). The PIT token is proved to be the '
    'value of the first PitToken header for every envelope whose headers are in increasing type-number order (the NDNLPv2 '
    'order; token_ascending), and more generally whenever only headers unknown to the format precede it (token_general). '
    'A PitToken header placed after a header of a later field of the format is ignored by the library (out-of-order = '
    'unrecognised) - such envelopes violate the NDNLPv2 order and are not judged by the oracle',
    'C10: lp_nack_general covers a Nack header anywhere among optional headers (a PitToken included) provided no header of '
    'a field the format declares after Nack precedes it - exactly the envelopes in which the in-order scan recognises it '
    '(nack_recognised_iff), among them every envelope in increasing type-number order (lp_nack_ascending) - and every Nack '
    'value made of an optional NackReason of 1/2/4/8 bytes among unknown non-critical sub-elements (no NackReason = reason 0). '
    'The other side is proved as the code behaves (lp_nack_out_of_order: processed as a plain envelope; an NDNLPv2 order '
    'violation, compared with the model, not judged by the oracle). Remaining assumptions: one Nack header per envelope; a '
    'critical unknown or repeated sub-element inside the Nack header makes the library drop the envelope (decoder stream only)',
    'C10: lp_fragment_rejected_general covers every envelope whose headers are in increasing type-number order and include '
    'FragIndex or FragCount (any other headers and values, with or without Fragment); a FragIndex/FragCount placed after a '
    'later-field header (order violation) is treated as unknown and ignored by the library (observation, see '
    'candidate_fixes/C10-observations.md)',
    'C10: LpPacketValue declares tx_sequence (0x348) before ack (0x344): in an increasing-order envelope `Ack, TxSequence` the '
    'library does not recognise the TxSequence header (observation; the receive pipeline reads neither). The general theorems '
    'hold over the generated table as declared, so Nack, PitToken and Fragment are proved unaffected by it',
    'C10: a Fragment that is itself an LpPacket is dropped (the library unwraps once: bytes_accepted_dropped); a Fragment whose '
    'type number cannot be read is dropped; FragIndex / FragCount are rejected by presence (also FragIndex=0, FragCount=1)',
    'C10 (byte level): SHA-256 is a parameter of the theorems (any function); the element-level theorems need every Type and '
    'Length below 2^64 (what the TL encoding can express); byte strings that are not a sequence of well-formed elements are '
    'covered by bytes_accepted_transparent / bytes_rejected_dropped (every byte string the decoder accepts / rejects) and by '
    'C06.receive_bytes_total',
]
RULE = ('(1) envelopes: every subset/order of the optional headers (PitToken of length 0..40, preceded at most by unknown '
        'lower-type headers such as Sequence/HopCount, '
        'IncomingFaceId/NextHopFaceId/CongestionMark with 1/2/4/8-byte values, CachePolicy, TxSequence, Ack, NonDiscovery, '
        'PrefixAnnouncement, Sequence and unknown critical/non-critical types) around Interests, signed Interests, Data and '
        'malformed packets; Nack headers with reasons at the 1/2/4/8-byte boundaries (0, 255, 256, 65535, 65536, 2^32-1, '
        '2^32, 2^64-1) and without reason, with unknown non-critical sub-elements before/after the NackReason; fragmentation '
        'headers; about a third of each kind with all headers in increasing type-number order (unknown types anywhere in the '
        'range, Ack repeated, FragIndex/FragCount followed by HopCount/PitToken/Nack/later fields); all of them also mutated '
        '(truncation, substitution, length edits, element drop/dup/swap) for the decoder correspondence. (1b) exhaustively: '
        'all 512 subsets of the 9 known optional headers in increasing type order, once around a Nack header (reasons and '
        'widths cycling, every third with unknown sub-elements) and once without. (1c) Nack headers placed behind a header of '
        'a later field (order violation): model-vs-library correspondence only. (2) make_network_nack and '
        '_put_raw_packet_with_pit_token for tokens of length 0..40. (3) reply histories: 1..5 Interests with distinct '
        'tokens / no token, replies through the closures in every order (permutations) incl. repeated replies. '
        '(3b) Interests whose envelope has unknown headers before and/or after the token, tokens up to 253 bytes, long replies. '
        '(4) both front-ends: Nack envelopes with a token, with wider-than-minimal reason encodings, with unknown sub-elements, '
        'with any subset of known headers in increasing order around the Nack header; out-of-order Nack headers (model '
        'correspondence only); fragmented envelopes (also increasing-order ones carrying PitToken/Nack/later fields) around '
        'whole packets that would complete a pending Interest / reach a handler (must have no effect); '
        'each packet is delivered bare to one application and wrapped to an identical one (0..3 '
        'pending Interests, 0..2 handlers) and the observable outcomes are compared. Second hardening round: every well-formed envelope of (1) is also decoded from a bytearray / read-only / writable memoryview, as a bare value with with_tl=False, through the legacy helper parse_lp_packet and through parse_network_nack (same token / reason / enclosed packet, same rejection of fragments); enclosed packets, replies and Nacked Interests whose size takes the Length of the envelope across 253 and 65536; tokens and replies handed over as bytearray / memoryview; 3..5 Interests pending on one name (with and without implicit digest, CanBePrefix and exact) when the Nack arrives; envelopes delivered in a bytearray / memoryview. Byte-level round: (1d) envelopes with 1..3 unknown headers AFTER the Fragment (plain and Nack; judged), two or three Nack headers with different reasons or undecodable later ones, one header with an illegal value (NonNegativeInteger / NackReason / CachePolicyType of 0/3/5/6/7/9/16 bytes, critical unknown sub-element in Nack / CachePolicy) among legal ones (both compared with the model), known headers / PitToken / Nack / fragmentation fields / a second Fragment written AFTER the Fragment (compared with the model: all skipped); (4) the same inside the front-end stream, plus a Fragment that is itself an envelope and Fragments whose type number is unreadable; in half of the front-end cases with handlers every handler replies at once with a fixed wire and the bytes written to the face are compared with the model (Ndn.Lp.reply over the token receiveBytes hands out) and judged (identical token + unmodified reply, bare without token / on the legacy front-end); every front-end case is also answered by the byte-level pipeline receiveBytes from the envelope bytes alone (effects, bytes sent, who is still pending after each packet). (5) SIZE of the network packet through the RECEIVING side of the real transports (oracle only): Data completing a pending Interest, Interests (signed / with parameters / long-named, with and without PIT token, handlers replying with Data of 40..65536 bytes) and Nacks echoing an Interest the application itself sent with that size; each packet bare to one application and in an envelope (none / token only / any headers, also behind the Fragment) to an identical one, both through a real TcpFace / UnixFace whose StreamFace.run reader loop is fed from an in-memory StreamReader in network segments (single bytes, 1460, 4096, ... with and without the loop running in between, several frames on one stream), a real UdpFace (datagram_received of the opened endpoint) or face.callback directly, on both front-ends; sizes: at every limit of 1024, 1500, 2048, 4096, 8192, 8800 (MAX_NDN_PACKET_SIZE of NFD, weighted), 9000, 16384, 32768, 65507, 65535, 65536 the bare packet exactly at / up to the limit with its envelope beyond it (every position of the window), around the limit, and anywhere from 300 to 70000 bytes. non-trivial = the case has a header, a '
        'token or a pending Interest; distinct = distinct cases')

LP = 0x64
NOJUDGE = ('ooo-nack', 'repeat-nack', 'illegal', 'late')     # envelope kinds compared with the model only
tlv, tlnum, read_num, split_tlvs = c6.tlv, c6.tlnum, c6.read_num, c6.split_tlvs


def extract(repo):
    return c10_extract.generate(repo)


# ---------------------------------------------------------------------------------------- generators
REASONS = [0, 1, 50, 100, 150, 255, 256, 65535, 65536, 2 ** 32 - 1, 2 ** 32, 2 ** 63, 2 ** 64 - 1]
KNOWN_ORDER = [0x62, 0x32c, 0x330, 0x334, 0x340, 0x348, 0x344, 0x34c, 0x350]     # order of the format


def uint_bytes(rng):
    w = rng.choice([1, 2, 4, 8])
    return bytes(rng.randrange(256) for _ in range(w))


def rand_bytes(rng, n):
    return bytes(rng.randrange(256) for _ in range(n))


def gen_headers(rng, token='maybe', canonical=None):
    """optional headers as [[type, value]]; a PitToken header, when present, comes first"""
    hs = []
    for t in KNOWN_ORDER[1:]:
        if rng.random() < 0.3:
            if t in (0x32c, 0x330, 0x340):
                v = uint_bytes(rng)
            elif t == 0x334:
                v = tlv(0x335, uint_bytes(rng))
            elif t == 0x34c:
                v = b''
            else:
                v = rand_bytes(rng, rng.randint(0, 9))
            hs.append([t, v])
    if canonical is None:
        canonical = rng.random() < 0.6
    if not canonical:
        rng.shuffle(hs)
    for _ in range(rng.choice([0, 0, 1, 2, 2, 4])):       # unknown headers, the same type possibly more than once
        t = rng.choice([0x51, 0x3e8, 0x3e9, 0x3ea, 0x20, 0x21, 0xfd00, 0x10001])
        v = rand_bytes(rng, 8) if t == 0x51 else rand_bytes(rng, rng.randint(0, 5))
        hs.insert(rng.randint(0, len(hs)), [t, v])
    tok = None
    if token == 'yes' or (token == 'maybe' and rng.random() < 0.6):
        tok = rand_bytes(rng, rng.choice([0, 1, 2, 4, 8, 8, 16, 32, 33, 40, rng.randint(0, 40)]))
        hs.insert(0, [0x62, tok])
        hs[0:0] = preamble(rng)
    return hs, tok


LOW_UNKNOWN = [0x51, 0x54, 0x20, 0x21, 0x5f]      # header types below PitToken that the format does not know
# unknown header types anywhere in the type range (those below PitToken are exactly LOW_UNKNOWN); 0x321 = NackReason at the
# top level, where it is not a field
UNKNOWN_ANY = LOW_UNKNOWN + [0x63, 0x2ff, 0x321, 0x322, 0x33e, 0x346, 0x3e8, 0x3e9, 0x3ea, 0xfd00, 0x10001]
AFTER_NACK = [0x32c, 0x330, 0x334, 0x340, 0x348, 0x344, 0x34c, 0x350]    # fields the format declares after Nack


def known_value(rng, t):
    """a legal value for the known optional header `t`"""
    if t in (0x32c, 0x330, 0x340):
        return uint_bytes(rng)
    if t == 0x334:
        return tlv(0x335, uint_bytes(rng))
    if t == 0x34c:
        return b''
    if t == 0x62:
        return rand_bytes(rng, rng.choice([0, 1, 2, 4, 8, 8, 16, 32, 33, 40]))
    return rand_bytes(rng, rng.randint(0, 9))


def nack_value(rng, reason, extra=None):
    """value of a Nack header: an optional NackReason (shortest or wider legal encoding) among unknown non-critical
    (even-typed) sub-elements, which a decoder ignores"""
    if extra is None:
        extra = rng.random() < 0.3
    sub = lambda: tlv(rng.choice([0x322, 0x324, 0x20, 0x3e8]), rand_bytes(rng, rng.randint(0, 3)))     # noqa
    pre = [sub() for _ in range(rng.choice([0, 1, 1, 2]))] if extra else []
    post = [sub() for _ in range(rng.choice([0, 1, 1, 2]))] if extra else []
    mid = tlv(0x321, c6_uint(reason, rng.choice([0, 0, 2, 4, 8]))) if reason is not None else b''
    return b''.join(pre) + mid + b''.join(post)


def gen_ascending(rng, nack=None, token='maybe', subset=None, frag=None):
    """an envelope whose headers are in increasing type-number order, as NDNLPv2 prescribes: a subset of the known optional
    headers (`subset`, else random; Ack possibly repeated), unknown headers of any type in between, optionally one Nack
    header with value `nack`, optionally fragmentation headers `frag` ('index' / 'count' / 'both').
    Returns (headers, token | None)."""
    hs, tok = [], None
    for t in KNOWN_ORDER:
        if t == 0x62:
            present = token == 'yes' or (token == 'maybe' and (rng.random() < 0.5 if subset is None else t in subset))
        else:
            present = rng.random() < 0.35 if subset is None else t in subset
        if present:
            v = known_value(rng, t)
            hs.append([t, v])
            if t == 0x62:
                tok = v
            if t == 0x344 and rng.random() < 0.2:
                hs.append([t, known_value(rng, t)])           # Ack is repeatable
    for _ in range(rng.choice([0, 0, 1, 2, 3])):
        t = rng.choice(UNKNOWN_ANY)
        hs.append([t, rand_bytes(rng, 8) if t == 0x51 else rand_bytes(rng, rng.randint(0, 5))])
    if nack is not None:
        hs.append([0x320, nack])
    if frag in ('index', 'both'):
        hs.append([0x52, c6_uint(rng.choice([0, 1, 300]))])
    if frag in ('count', 'both'):
        hs.append([0x53, c6_uint(rng.choice([1, 2, 70000]))])
    hs.sort(key=lambda h: h[0])
    return hs, tok


def out_of_order_nack(rng, nv):
    """headers in which a header of a field declared after Nack precedes the Nack header (violates the NDNLPv2 order):
    the library's in-order scan does not recognise that Nack header"""
    hs, tok = gen_ascending(rng, token='maybe')
    hs = [h for h in hs if h[0] != 0x320]
    later = [i for i, h in enumerate(hs) if h[0] in AFTER_NACK]
    if not later:
        t = rng.choice(AFTER_NACK)
        hs.append([t, known_value(rng, t)])
        hs.sort(key=lambda h: h[0])
        later = [i for i, h in enumerate(hs) if h[0] in AFTER_NACK]
    pos = rng.randint(later[0] + 1, len(hs))
    return hs[:pos] + [[0x320, nv]] + hs[pos:], tok


def preamble(rng, p=0.3):
    """unknown headers that precede the PitToken when headers are written in increasing type order (Sequence, HopCount,
    ...): they are ignored, so the token of the envelope is still the PitToken header's value"""
    if rng.random() >= p:
        return []
    ts = sorted(rng.choice(LOW_UNKNOWN) for _ in range(rng.choice([1, 1, 2])))
    return [[t, rand_bytes(rng, 8) if t == 0x51 else rand_bytes(rng, rng.choice([0, 1, 2]))] for t in ts]


def split_token(hs):
    """(position of the PitToken header, its value) when the envelope has exactly one and only unknown lower-type
    headers precede it; else (None, None)"""
    idx = [i for i, h in enumerate(hs) if h[0] == 0x62]
    if len(idx) != 1 or any(h[0] not in LOW_UNKNOWN for h in hs[:idx[0]]):
        return None, None
    return idx[0], hs[idx[0]][1]


def wrap(hs, frag, tail=()):
    """LpPacket{ hs…, Fragment = frag, tail… } (`tail`: elements written after the Fragment)"""
    return tlv(LP, b''.join(tlv(t, v) for t, v in hs) + (tlv(0x50, frag) if frag is not None else b'') +
               b''.join(tlv(t, v) for t, v in tail))


def gen_late_tail(rng):
    """elements after the Fragment that are NOT unknown: a late PitToken / Nack / FragIndex / FragCount / second Fragment /
    known header with any (also illegal) value.  NDNLPv2 puts the Fragment last; the library's in-order scan recognises
    nothing behind it, so all of them are skipped (model correspondence, not judged)."""
    out = []
    for _ in range(rng.choice([1, 1, 2, 3])):
        t = rng.choice([0x62, 0x320, 0x52, 0x53, 0x50, 0x32c, 0x334, 0x340] + UNKNOWN_ANY[:4])
        v = rng.choice([known_value(rng, t) if t in KNOWN_ORDER else rand_bytes(rng, rng.randint(0, 4)),
                        nack_value(rng, rng.choice(REASONS)), rand_bytes(rng, 3)])
        out.append([t, v])
    return out


def gen_tail(rng):
    """1..3 headers of types the format does not have, to be written AFTER the Fragment (ignored like any unknown header)"""
    return [[rng.choice(UNKNOWN_ANY), rand_bytes(rng, rng.randint(0, 5))] for _ in range(rng.choice([1, 1, 2, 3]))]


BAD_WIDTHS = [0, 3, 5, 6, 7, 9, 16]


def gen_illegal(rng):
    """(headers, description): optional headers in increasing order, one of them with an ILLEGAL value - a NonNegativeInteger
    header / NackReason / CachePolicyType of a width other than 1/2/4/8, or a critical (odd) unknown sub-element inside a
    Nack / CachePolicy header.  The library raises (ValueError / DecodeError) and drops the whole envelope."""
    hs, _ = gen_ascending(rng, token='maybe')
    hs = [h for h in hs if h[0] not in (0x320, 0x334)]
    what = rng.choice(['uint', 'uint', 'reason', 'reason', 'nack-critical', 'cp-width', 'cp-critical'])
    bad = rand_bytes(rng, rng.choice(BAD_WIDTHS))
    if what == 'uint':
        t = rng.choice([0x32c, 0x330, 0x340])
        hs = [h for h in hs if h[0] != t] + [[t, bad]]
    elif what == 'reason':
        pre = [tlv(0x322, b'x')] if rng.random() < 0.3 else []
        hs.append([0x320, b''.join(pre) + tlv(0x321, bad)])
    elif what == 'nack-critical':
        hs.append([0x320, tlv(0x321, c6_uint(rng.choice(REASONS))) + tlv(rng.choice([0x323, 0x325, 0x21]), rand_bytes(rng, 2))])
    elif what == 'cp-width':
        hs.append([0x334, tlv(0x335, bad)])
    else:
        hs.append([0x334, tlv(rng.choice([0x337, 0x21]), b'')])
    hs.sort(key=lambda h: h[0])
    return hs, what


def gen_repeated_nack(rng):
    """(headers, first reason): increasing-order headers with TWO (or three) Nack headers carrying different reasons; the
    later ones may be undecodable.  TlvModel.parse takes the first and skips the rest as unknown elements."""
    r1 = rng.choice(REASONS + [None])
    hs, tok = gen_ascending(rng, nack=nack_value(rng, r1), token='maybe')
    for _ in range(rng.choice([1, 1, 2])):
        r2 = rng.choice([x for x in REASONS if x != r1])
        nv2 = rng.choice([nack_value(rng, r2), nack_value(rng, r2), tlv(0x321, rand_bytes(rng, 3)), tlv(0x323, b'')])
        hs.append([0x320, nv2])
    hs.sort(key=lambda h: h[0])
    return hs, r1, tok


def hs_json(hs):
    return [[t, v.hex()] for t, v in hs]


def hs_unjson(hs):
    return [[t, bytes.fromhex(v)] for t, v in hs]


def network_packets(rng):
    P = c6.base_packets()
    good = [P[k] for k in ('int', 'int-cbp', 'int-h', 'int-signed', 'int-param', 'data/a', 'data/a/b', 'data/a/b/c',
                           'data/x', 'data-d0', 'data-long', 'unknown-type')]
    return good


def cases(rng, tier):
    quick = tier == 'quick'
    P = c6.base_packets()
    nets = network_packets(rng)
    # (1) envelope decoder ----------------------------------------------------------------------
    for _ in range(1200 if quick else 40000):
        frag = rng.choice(nets)
        r = rng.random()
        if r < 0.55:
            hs, tok = gen_headers(rng)
            spec = {'kind': 'plain', 'tok': None if tok is None else tok.hex(), 'frag': frag.hex()}
        elif r < 0.80:
            hs, tok = gen_headers(rng)
            reason = rng.choice(REASONS + [None])
            nk = [0x320, tlv(0x321, c6_uint(reason, rng.choice([0, 0, 2, 4, 8]))) if reason is not None else b'']
            pos = split_token(hs)[0] + 1 if tok is not None else 0
            hs_before = [h for h in hs[pos:] if h[0] not in KNOWN_ORDER]
            hs_after = [h for h in hs[pos:] if h[0] in KNOWN_ORDER]
            hs = hs[:pos] + hs_before + [nk] + hs_after
            spec = {'kind': 'nack', 'reason': reason, 'tok': None if tok is None else tok.hex(), 'frag': frag.hex()}
        else:
            hs, tok = gen_headers(rng, token='no')
            hs = [h for h in hs if h[0] not in KNOWN_ORDER]
            which = rng.choice(['both', 'index', 'count'])
            fr = ([[0x52, c6_uint(rng.choice([0, 1, 300]))]] if which != 'count' else []) + \
                 ([[0x53, c6_uint(rng.choice([1, 2, 70000]))]] if which != 'index' else [])
            hs = hs + fr + ([[0x62, rand_bytes(rng, 4)]] if rng.random() < 0.3 else [])
            spec = {'kind': 'frag'}
        if rng.random() < 0.35:
            # the same three kinds, the headers in increasing type-number order with any subset of the known headers
            if spec['kind'] == 'plain':
                hs, tok = gen_ascending(rng)
                spec = {'kind': 'plain', 'tok': None if tok is None else tok.hex(), 'frag': frag.hex(), 'asc': True}
            elif spec['kind'] == 'nack':
                reason = rng.choice(REASONS + [None])
                hs, tok = gen_ascending(rng, nack=nack_value(rng, reason))
                spec = {'kind': 'nack', 'reason': reason, 'tok': None if tok is None else tok.hex(), 'frag': frag.hex(), 'asc': True}
            else:
                hs, tok = gen_ascending(rng, frag=rng.choice(['both', 'index', 'count']),
                                        nack=nack_value(rng, rng.choice(REASONS)) if rng.random() < 0.3 else None)
                spec = {'kind': 'frag', 'asc': True}
        w = wrap(hs, frag)
        yield {'k': 'lp', 'w': w.hex(), 'spec': spec}
        for tag, m in c6.mutations(w, rng, 1 if quick else 2):
            yield {'k': 'lp', 'w': m.hex(), 'spec': None}
    # every subset of the known optional headers, in increasing type order, around a Nack header and without one
    for mask in range(1 << len(KNOWN_ORDER)):
        subset = [t for i, t in enumerate(KNOWN_ORDER) if mask >> i & 1]
        frag = nets[mask % len(nets)]
        reason = (REASONS + [None])[mask % (len(REASONS) + 1)]
        hs, tok = gen_ascending(rng, nack=nack_value(rng, reason, extra=mask % 3 == 0), subset=subset)
        yield {'k': 'lp', 'w': wrap(hs, frag).hex(),
               'spec': {'kind': 'nack', 'reason': reason, 'tok': None if tok is None else tok.hex(), 'frag': frag.hex(), 'asc': True}}
        hs, tok = gen_ascending(rng, subset=subset)
        yield {'k': 'lp', 'w': wrap(hs, frag).hex(),
               'spec': {'kind': 'plain', 'tok': None if tok is None else tok.hex(), 'frag': frag.hex(), 'asc': True}}
    # a Nack header behind a header of a later field of the format: not judged (the envelope violates the NDNLPv2 order),
    # model and library must agree that the scan does not recognise it
    for _ in range(150 if quick else 3000):
        hs, tok = out_of_order_nack(rng, nack_value(rng, rng.choice(REASONS + [None])))
        yield {'k': 'lp', 'w': wrap(hs, rng.choice(nets)).hex(), 'spec': {'kind': 'ooo-nack'}}
    # enclosed packets whose size takes the Length of the Fragment / of the envelope across 253 and 65536
    for n in SIZES_253 + (SIZES_64K[::3] if quick else SIZES_64K):
        blob = tlv(6, rand_bytes(rng, 8) + bytes(n - 8))
        hs, tok = gen_ascending(rng, token='yes', subset=[0x62])
        yield {'k': 'lp', 'w': wrap(hs, blob).hex(), 'spec': {'kind': 'plain', 'tok': tok.hex(), 'frag': blob.hex(), 'asc': True}}
        reason = rng.choice(REASONS)
        yield {'k': 'lp', 'w': wrap([[0x320, nack_value(rng, reason, extra=False)]], blob).hex(),
               'spec': {'kind': 'nack', 'reason': reason, 'tok': None, 'frag': blob.hex(), 'asc': True}}
    # (1d) byte-level composition: unknown headers AFTER the Fragment (ignored like any unknown header: judged); several
    # Nack headers / headers with illegal values / a Fragment that is itself an envelope (model correspondence, not judged)
    for _ in range(300 if quick else 6000):
        frag = rng.choice(nets)
        r = rng.random()
        if r < 0.4:
            hs, tok = gen_ascending(rng) if rng.random() < 0.5 else gen_headers(rng)
            yield {'k': 'lp', 'w': wrap(hs, frag, gen_tail(rng)).hex(),
                   'spec': {'kind': 'plain', 'tok': None if tok is None else tok.hex(), 'frag': frag.hex(), 'tail': True}}
        elif r < 0.6:
            reason = rng.choice(REASONS + [None])
            hs, tok = gen_ascending(rng, nack=nack_value(rng, reason))
            yield {'k': 'lp', 'w': wrap(hs, frag, gen_tail(rng)).hex(),
                   'spec': {'kind': 'nack', 'reason': reason, 'tok': None if tok is None else tok.hex(), 'frag': frag.hex(), 'tail': True}}
        elif r < 0.72:
            hs, r1, tok = gen_repeated_nack(rng)
            yield {'k': 'lp', 'w': wrap(hs, frag, gen_tail(rng) if rng.random() < 0.2 else ()).hex(), 'spec': {'kind': 'repeat-nack'}}
        elif r < 0.84:
            hs, tok = gen_ascending(rng, nack=nack_value(rng, rng.choice(REASONS)) if rng.random() < 0.3 else None)
            yield {'k': 'lp', 'w': wrap(hs, frag, gen_late_tail(rng)).hex(), 'spec': {'kind': 'late'}}
        else:
            hs, what = gen_illegal(rng)
            yield {'k': 'lp', 'w': wrap(hs, frag).hex(), 'spec': {'kind': 'illegal', 'what': what}}
    for w in [b'', b'\x64', b'\x64\x00', tlv(LP, tlv(0x50, b'')), tlv(LP, tlv(0x320, b'')), tlv(LP, tlv(0x320, tlv(0x321, b''))),
              tlv(LP, tlv(0x320, tlv(0x321, b'\x00\x00\x00'))), tlv(LP, tlv(0x320, tlv(0x323, b'\x01')) + tlv(0x50, b'\x05\x00')),
              tlv(LP, tlv(0x62, b'\x01') + tlv(0x62, b'\x02') + tlv(0x50, b'\x05\x00')), tlv(5, b''), tlv(LP, tlv(0x50, b'\x05\x00')) + b'\x00',
              tlv(LP, tlv(0x50, b'\x05\x00') + tlv(0x62, b'\x09')), tlv(LP, tlv(0x340, b'\x01') + tlv(0x52, b'\x00') + tlv(0x50, b'\x05\x00'))]:
        yield {'k': 'lp', 'w': w.hex(), 'spec': None}
    # (2) encoders ------------------------------------------------------------------------------
    for reason in REASONS:
        yield {'k': 'nack', 'reason': reason, 'int': rng.choice([P['int'], P['int-cbp'], P['int-signed'], b'\x05\x00', b'']).hex()}
    for n in list(range(0, 41)) + [252, 253] + ([] if quick else [64, 300, 65536]):
        yield {'k': 'put', 'tok': rand_bytes(rng, n).hex(), 'data': rng.choice([P['data/a'], P['data-long'], b'\x06\x00', b'']).hex()}
    # the same with the token / the reply handed over as bytearray or memoryview (what the context dict and make_data
    # give an application), and replies / Nacked Interests whose size takes the envelope's Length across 253 and 65536
    for n in (0, 1, 4, 8, 32):
        for form in FORMS[1:]:
            yield {'k': 'put', 'tok': rand_bytes(rng, n).hex(), 'data': rng.choice([P['data/a'], P['data-long'], b'\x06\x00']).hex(), 'form': form}
    for n in SIZES_253 + (SIZES_64K[::3] if quick else SIZES_64K):
        yield {'k': 'put', 'tok': rand_bytes(rng, rng.choice([0, 4, 8])).hex(), 'data': tlv(6, rand_bytes(rng, 8) + bytes(n - 8)).hex(),
               'form': rng.choice(FORMS)}
        yield {'k': 'nack', 'reason': rng.choice(REASONS), 'int': tlv(5, rand_bytes(rng, 8) + bytes(n - 8)).hex(), 'form': rng.choice(FORMS)}
    # (3) reply histories -----------------------------------------------------------------------
    import itertools
    for _ in range(150 if quick else 4000):
        n = rng.randint(1, 5)
        toks = []
        for i in range(n):
            toks.append(None if rng.random() < 0.25 else rand_bytes(rng, rng.choice([0, 1, 4, 8, 32, 33, 40, 253])).hex())
        order = list(range(n))
        rng.shuffle(order)
        if rng.random() < 0.3:
            order += [rng.randrange(n) for _ in range(rng.randint(1, 3))]
        evs, pending = [], list(order)
        arrived = 0
        while arrived < n or pending:
            can = [i for i in pending if i < arrived]
            if arrived < n and (not can or rng.random() < 0.5):
                # third field: 0 = token only, 1 = known + unknown headers after the token, 2 = unknown lower-type headers
                # (Sequence, HopCount) before the token, 3 = both
                evs.append(['i', toks[arrived], rng.choice([0, 0, 0, 1, 1, 2, 2, 3])])
                arrived += 1
            else:
                i = can[0]
                pending.remove(i)
                evs.append(['r', i, rng.choice([P['data/a'], P['data/x'], b'\x06\x00', P['data-long']]).hex()])
                if rng.random() < 0.3:
                    evs[-1].append(rng.choice(FORMS[1:]))        # the reply is a bytearray / memoryview
                if rng.random() < 0.04:
                    evs[-1][2] = tlv(6, rand_bytes(rng, 8) + bytes(rng.choice(SIZES_253 + SIZES_64K[::4]) - 8)).hex()
                elif rng.random() < 0.12:
                    # replies of a kilobyte and more (sizes at which an implementation may switch to another way of writing)
                    evs[-1][2] = tlv(6, rand_bytes(rng, 8) + bytes(rng.choice([500, 1000, 1015, 1016, 1017, 1023, 1024, 1025, 1500,
                                                                               2048, 4096, 8800]) - 8)).hex()
        c = {'k': 'replies', 'evs': evs}
        if rng.random() < 0.4:
            c['face'] = 'stream'       # the application is connected through a StreamFace (Unix / TCP socket)
        yield c
    if not quick:
        for perm in itertools.permutations(range(4)):
            evs = [['i', bytes([0x10 + i] * (i + 1)).hex() if i != 2 else None, False] for i in range(4)]
            evs += [['r', i, tlv(6, bytes([i])).hex()] for i in perm]
            yield {'k': 'replies', 'evs': evs}
    # (4) wrapped = bare, Nack, on both front-ends ----------------------------------------------
    for ci in range(700 if quick else 24000):
        fe = 'v2' if ci % 2 == 0 else 'v1'
        pend = []
        for _ in range(rng.choice([0, 1, 2, 2, 3])):
            if rng.random() < 0.12:
                pend.append({'n': '/a/b', 'cbp': False, 'dg': True})
            else:
                pend.append({'n': rng.choice(c6.NAMES[:4]), 'cbp': rng.random() < 0.4, 'dg': False})
        if ci % 5 == 4:
            # a crowded name: 3..5 Interests pending on /a/b (with and without implicit digest, CanBePrefix and exact),
            # sometimes one on the parent and one on a child as well
            pend = [{'n': '/a/b', 'cbp': rng.random() < 0.5, 'dg': rng.random() < 0.35} for _ in range(rng.randint(3, 5))]
            pend += [{'n': x, 'cbp': rng.random() < 0.7, 'dg': False} for x in ('/a', '/a/b/c') if rng.random() < 0.4]
            rng.shuffle(pend)
        hand = rng.sample(['/a', '/a/b', '/h'], rng.choice([0, 1, 2]))
        pkts = []
        for _ in range(rng.randint(1, 4)):
            r = rng.random()
            if r < 0.7:
                p = rng.choice(nets)
            else:
                p = c6.refit(c6.mutations(rng.choice(nets), rng, 1)[0][1])
            if rng.random() < 0.3:
                hs, tok = gen_headers(rng, token='maybe' if rng.random() < 0.4 else 'no')     # a Nack may carry a token too
                pos = split_token(hs)[0] + 1 if tok is not None else 0
                head, hs = hs[:pos], hs[pos:]
                reason = rng.choice(REASONS)
                nint = rng.choice([P['int'], P['int-cbp'], P['nack-x'][-11:] if False else P['int-h']])
                if rng.random() < 0.5:
                    from_pending = [q for q in pend]
                    if from_pending:
                        nint = interest_for(rng.choice(from_pending))
                hs_before = [h for h in hs if h[0] not in KNOWN_ORDER]
                hs_after = [h for h in hs if h[0] in KNOWN_ORDER]
                nv = tlv(0x321, c6_uint(reason, rng.choice([0, 0, 0, 2, 8])))
                if rng.random() < 0.12:
                    # NDNLPv2: NackReason is optional; a Nack header without it is a Nack with reason None (0)
                    reason, nv = 0, rng.choice([b'', b'', tlv(0x324, b'x')])
                if rng.random() < 0.25:
                    nv = nack_value(rng, None if nv in (b'', tlv(0x324, b'x')) else reason)
                hdrs = head + hs_before + [[0x320, nv]] + hs_after
                if rng.random() < 0.4:
                    # headers in increasing type order: any subset of the known headers around the Nack header
                    hdrs, _ = gen_ascending(rng, nack=nv)
                if rng.random() < 0.12:
                    # Nack header behind a later-field header: not judged by the oracle (order violation), compared with the model
                    hdrs, _ = out_of_order_nack(rng, nv)
                    pkts.append({'p': nint.hex(), 'nack': None, 'ooo': True, 'hdrs': hs_json(hdrs)})
                    continue
                pkts.append({'p': nint.hex(), 'nack': reason, 'hdrs': hs_json(hdrs)})
            elif rng.random() < 0.12:
                # a fragmented envelope (FragIndex / FragCount after at most unknown headers) around a whole network
                # packet that would have an effect when processed: it must be rejected by both front-ends
                hs, _ = gen_headers(rng, token='no')
                hs = [h for h in hs if h[0] not in KNOWN_ORDER]
                which = rng.choice(['both', 'index', 'count'])
                fr = ([[0x52, c6_uint(rng.choice([0, 1, 300]))]] if which != 'count' else []) + \
                     ([[0x53, c6_uint(rng.choice([1, 2, 70000]))]] if which != 'index' else [])
                hs = hs + fr + ([[0x62, rand_bytes(rng, 4)]] if rng.random() < 0.3 else [])
                if rng.random() < 0.5:
                    # increasing type order, any other headers (PitToken, Nack, known later fields) behind them
                    hs, _ = gen_ascending(rng, frag=which, nack=nack_value(rng, rng.choice(REASONS)) if rng.random() < 0.4 else None)
                pkts.append({'p': rng.choice(nets).hex(), 'hdrs': hs_json(hs), 'nack': None, 'frag': True})
            elif rng.random() < 0.14:
                # byte-level composition (model correspondence, not judged by the oracle): several Nack headers; a header
                # with an illegal value in front of a packet that would have an effect; a Fragment that is itself an
                # envelope; a Fragment whose type number cannot be read
                kind = rng.choice(['repeat', 'repeat', 'illegal', 'illegal', 'nested', 'unreadable', 'late'])
                if kind == 'repeat':
                    hs, r1, _ = gen_repeated_nack(rng)
                    nint = interest_for(rng.choice(pend)) if pend and rng.random() < 0.7 else P['int']
                    pkts.append({'p': nint.hex(), 'hdrs': hs_json(hs), 'nack': None, 'nj': 'repeat-nack', 'env': True})
                elif kind == 'illegal':
                    hs, what = gen_illegal(rng)
                    q = interest_for(rng.choice(pend)) if pend and what in ('reason', 'nack-critical') else rng.choice(nets)
                    pkts.append({'p': q.hex(), 'hdrs': hs_json(hs), 'nack': None, 'nj': 'illegal', 'env': True})
                elif kind == 'late':
                    hs, _ = gen_ascending(rng)
                    pkts.append({'p': p.hex(), 'hdrs': hs_json(hs), 'nack': None, 'nj': 'late', 'env': True,
                                 'tail': hs_json(gen_late_tail(rng))})
                elif kind == 'nested':
                    hs, _ = gen_ascending(rng)
                    pkts.append({'p': wrap([], rng.choice(nets)).hex(), 'hdrs': hs_json(hs), 'nack': None, 'nj': 'nested', 'env': True})
                else:
                    hs, _ = gen_ascending(rng)
                    pkts.append({'p': rng.choice([b'', b'\xfd', b'\xfe\x00\x01', b'\xff']).hex(), 'hdrs': hs_json(hs), 'nack': None,
                                 'nj': 'unreadable', 'env': True})
            else:
                hs, tok = gen_headers(rng) if rng.random() < 0.65 else gen_ascending(rng)
                pkts.append({'p': p.hex(), 'hdrs': hs_json(hs), 'nack': None})
            if rng.random() < 0.15 and not pkts[-1].get('frag') and not pkts[-1].get('ooo') and 'tail' not in pkts[-1]:
                pkts[-1]['tail'] = hs_json(gen_tail(rng))       # unknown headers after the Fragment
        case = {'k': 'recv', 'fe': fe, 'pend': pend, 'hand': hand, 'pkts': pkts}
        if hand and rng.random() < 0.5:
            # every handler replies at once with these bytes: the bytes written to the face are compared with the model
            case['reply'] = rng.choice([P['data/a'], P['data/a/b'], P['data-long'], b'\x06\x00', b'\x06\x02\x07\x00',
                                        tlv(6, rand_bytes(rng, rng.choice([240, 250, 252, 253, 300])))]).hex()
        if rng.random() < 0.2:
            case['rx'] = rng.choice(FORMS[1:])          # the face hands the packets over in a bytearray / memoryview
        yield case
    # (5) SIZE of the network packet, through the RECEIVING side of the real transports -----------------------------
    # (StreamFace.run frame reader fed in segments, UdpFace datagram_received, face.callback directly); oracle only
    kinds = ['data', 'int', 'nack']
    vias = ['stream', 'udp', 'direct', 'unix']
    k = rng.randrange(12)
    for B in XBOUNDS:                  # at every size limit: the largest packet within it, bare and in an envelope
        for t in (kinds if not quick else [kinds[k % 3]]):
            yield gen_xport(rng, B=B, via=vias[k % 3] if B != 8800 else 'stream', t=t, exact=True)
            k += 1
    for t in kinds:                    # 8800 = the practical maximum packet size of NDN links (NFD's MAX_NDN_PACKET_SIZE)
        for via in vias[:3]:
            yield gen_xport(rng, B=8800, via=via, t=t, exact=quick and via != 'stream')
    for _ in range(30 if quick else 1300):
        yield gen_xport(rng)
    # (6) TIME between an Interest's arrival and its reply (late / reordered replies after further frames); oracle only
    for _ in range(60 if quick else 2500):
        yield gen_xlate(rng)


FORMS = ['bytes', 'ba', 'mv', 'rwmv']
# sizes of an enclosed packet around the points where the Length of the Fragment / of the envelope needs 3 resp. 5 bytes
SIZES_253 = [240, 244, 246, 247, 248, 249, 250, 251, 252, 253, 254, 255, 256]
SIZES_64K = [65516, 65520, 65522, 65524, 65526, 65527, 65528, 65529, 65530, 65531, 65532, 65533, 65534, 65535, 65536, 65537, 65540]


def as_form(b, form):
    """the same bytes in another buffer class"""
    if form in (None, 'bytes'):
        return b
    if form == 'ba':
        return bytearray(b)
    if form == 'mv':
        return memoryview(b)
    return memoryview(bytearray(b))


def c6_uint(v, width=0):
    """nonNegativeInteger: shortest of 1/2/4/8 bytes, or `width` bytes when that is wide enough (a wider encoding of the
    same number is the same number)"""
    if width and v < 1 << (8 * width):
        return v.to_bytes(width, 'big')
    if v <= 0xFF:
        return v.to_bytes(1, 'big')
    if v <= 0xFFFF:
        return v.to_bytes(2, 'big')
    if v <= 0xFFFFFFFF:
        return v.to_bytes(4, 'big')
    return v.to_bytes(8, 'big')


def interest_for(p):
    """the Interest a Nack for pending entry `p` would enclose (its full expressed name); written with pktcommon's
    packet writers, not with the library: it is an INPUT of the envelope decoder under judgement"""
    import pktcommon as K
    name = K.uri_to_comps(p['n'])
    if p['dg']:
        name = name + [K.gen_comp(hashlib.sha256(c6.data_d0()).digest(), 1)]     # ImplicitSha256DigestComponent
    return K.build_interest(name, nonce=77, can_be_prefix=p['cbp'])


# sizes at which a transport, a buffer or a length field may have a limit: bare packets up to the limit, the envelope beyond
XBOUNDS = [1024, 1500, 2048, 4096, 8192, 8800, 9000, 16384, 32768, 65507, 65535, 65536]


def gen_xport(rng, B=None, via=None, t=None, exact=False):
    """one case of stream (5): 1..3 network packets of chosen total sizes (Data completing a pending Interest, Interest
    reaching a handler - with or without PIT token -, Nack of a pending Interest of that size), each delivered bare to one
    application and in an envelope to an identical one, THROUGH the receiving side of transport `via`.  Sizes: the bare
    packet is within a limit B and its envelope beyond it (every position of the window), near B, or anywhere between a
    few hundred bytes and 70000."""
    fe = rng.choice(['v2', 'v2', 'v1'])
    via = via or rng.choice(['stream', 'stream', 'stream', 'unix', 'udp', 'direct'])
    pkts = []
    for i in range(1 if exact else rng.choice([1, 1, 2, 3])):
        ti = t or rng.choice(['data', 'int', 'int', 'nack'])
        Bi = B if (B is not None and i == 0) else rng.choice(XBOUNDS + [8800, 8800, 8800, 65536])
        reason = None
        if ti == 'nack':
            reason = rng.choice(REASONS)
            if rng.random() < 0.5:
                hs = [[0x320, nack_value(rng, reason, extra=False)]]
            else:
                hs, _ = gen_ascending(rng, nack=nack_value(rng, reason))
        else:
            r = rng.random()
            if r < 0.25:
                hs = []                                  # the smallest envelope: LpPacket{Fragment}
            elif r < 0.5:
                hs, _ = gen_ascending(rng, token='yes', subset=[0x62])
            elif r < 0.8:
                hs, _ = gen_ascending(rng)
            else:
                hs, _ = gen_headers(rng)
        tail = gen_tail(rng) if rng.random() < 0.12 else []
        cap = 65507 if via == 'udp' else 1 << 30         # a UDP datagram cannot be larger
        Bi = min(Bi, cap)
        ov = len(wrap(hs, bytes(Bi), tail)) - Bi
        r = rng.random()
        if exact:
            size = Bi
        elif r < 0.5:
            size = Bi - rng.randint(0, ov - 1)           # bare within the limit, envelope beyond it
        elif r < 0.75:
            size = Bi - rng.randint(-8, ov + 8)
        else:
            size = rng.choice([rng.randint(300, 9000), rng.randint(300, 9000), rng.randint(9000, 70000)])
        if via == 'udp':
            size = min(size, cap - ov)
        pk = {'id': i, 't': ti, 'size': size, 'big': rng.choice(['body', 'body', 'name']), 'seed': rng.randrange(1 << 30),
              'hdrs': hs_json(hs)}
        if tail:
            pk['tail'] = hs_json(tail)
        if ti == 'nack':
            pk['reason'] = reason
        if ti == 'int':
            pk['signed'] = rng.random() < 0.5
        if ti != 'int':
            pk['cbp'] = rng.random() < 0.5
        pkts.append(pk)
    case = {'k': 'xport', 'fe': fe, 'via': via, 'pkts': pkts}
    if via in ('stream', 'unix'):
        case['head'] = rng.choice([[], [], [], [1], [1, 1, 1], [2, 1, 5], [rng.randint(1, 12)], [rng.randint(1, 9000)]])
        case['mss'] = rng.choice([0, 0, 0, 1460, 4096, 8192, 65536, rng.randint(512, 9000)])
        case['settle'] = rng.random() < 0.5
    if any(p['t'] == 'int' for p in pkts) and rng.random() < 0.7:
        # every handler replies at once with a Data packet of this size (judged: identical token + unmodified reply / bare)
        case['reply'] = rng.choice([40, 300, rng.randint(40, 9000), rng.choice(XBOUNDS) - rng.randint(0, 20)])
    return case


def _rb(seed, n):
    import random
    return random.Random(seed).randbytes(n) if n > 0 else b''


def _fit_n(build, size):
    """(build(n), n) for the filler length n that makes the wire `size` bytes long (the nearest not above it when no n does)"""
    n = max(0, size - len(build(0)))
    best = None
    for _ in range(6):
        w = build(n)
        if len(w) == size:
            return w, n
        if len(w) < size and (best is None or len(w) > len(best[0])):
            best = (w, n)
        n = max(0, n + size - len(w))
    return best if best is not None else (build(0), 0)


def _fit(build, size):
    return _fit_n(build, size)[0]


def x_names(pk):
    """(prefix the application registers / expresses, kind letter)"""
    import pktcommon as K
    return K.uri_to_comps('/x/%s%d' % ({'data': 'd', 'int': 'h', 'nack': 'n'}[pk['t']], pk['id']))


def x_packet(pk):
    """the network packet of `pk` (Data / Interest), written with pktcommon's writers, pk['size'] bytes long; the bulk is
    the Content / ApplicationParameters ('body') or one long name component ('name')"""
    return x_packet_name(pk)[0]


def x_packet_name(pk):
    """(the Data packet of `pk`, the components of its name)"""
    import pktcommon as K
    pre, seed = x_names(pk), pk['seed']
    if pk['t'] == 'data':
        if pk['big'] == 'name':
            w, n = _fit_n(lambda n: K.build_data(pre + [K.gen_comp(_rb(seed, n), 8)], {'content_type': 0, 'freshness_period': 10},
                                                 b'c', {'type': 0}), pk['size'])
            return w, pre + [K.gen_comp(_rb(seed, n), 8)]
        return _fit(lambda n: K.build_data(pre + [K.gen_comp(b'v', 8)], {'content_type': 0, 'freshness_period': 10},
                                           _rb(seed, n), {'type': 0}), pk['size']), pre + [K.gen_comp(b'v', 8)]
    sig = {'type': 0} if pk.get('signed') else None
    if pk['big'] == 'name':
        return _fit(lambda n: K.build_interest(pre + [K.gen_comp(_rb(seed, n), 8)], nonce=seed & 0xffffff, lifetime=4000,
                                               app=b'' if sig else None, sig=sig), pk['size']), None
    return _fit(lambda n: K.build_interest(pre + [K.gen_comp(b'q', 8)], nonce=seed & 0xffffff, lifetime=4000,
                                           app=_rb(seed, n), sig=sig), pk['size']), None


def x_reply(case):
    import pktcommon as K
    return _fit(lambda n: K.build_data(K.uri_to_comps('/x/r'), {'content_type': 0}, _rb(7, n), {'type': 0}), case['reply'])


def _dg(b):
    b = bytes(b)
    return '%d:%s' % (len(b), hashlib.sha256(b).hexdigest()[:20])


def _sent_obs(b):
    """compact observation of something written to the transport: its digest and, when it is a well-formed envelope, the
    (type, value) list of the envelope (values over 64 bytes as digests)"""
    els = strict_envelope(b) if b[:1] == bytes([LP]) else None
    return {'d': _dg(b), 'env': None if els is None else [[t, v.hex() if len(v) <= 64 else _dg(v)] for t, v in els]}


def _xport_run(case, wrapped):
    from ndn import encoding as enc, types
    from apphelp import TransportRig
    fe, via = case['fe'], case['via']
    with TransportRig(fe, via) as rig:
        app, loop = rig.app, rig.loop
        outcomes, invoked = {}, []
        reply = x_reply(case) if case.get('reply') is not None else None

        async def v2_validator(name, sig, ctx):
            return types.ValidResult.PASS

        async def v1_validator(name, sig):
            return True

        def express(i, name, cbp, app_param=None):
            async def go():
                try:
                    if fe == 'v2':
                        kw = {}
                        if app_param is not None:
                            from ndn.security import DigestSha256Signer
                            kw = {'app_param': app_param, 'signer': DigestSha256Signer(for_interest=True)}
                        r = await app.express(name, v2_validator, can_be_prefix=cbp, lifetime=600000, nonce=i + 1, **kw)
                    else:
                        kw = {} if app_param is None else {'app_param': app_param}
                        r = await app.express_interest(name, validator=v1_validator, can_be_prefix=cbp, lifetime=600000,
                                                       nonce=i + 1, **kw)
                    outcomes[i] = ['data', _dg(r[1] if fe == 'v2' else r[2]) if (r[1] if fe == 'v2' else r[2]) is not None else None]
                except types.InterestNack as e:
                    outcomes[i] = ['nack', e.reason]
                except BaseException as e:     # noqa
                    outcomes[i] = ['exc', type(e).__name__]
            loop.run_now(go())
            return b''.join(rig.take_sent())

        # the application's state: one pending Interest per Data / Nack packet, one handler per Interest packet
        nacked = {}
        for pk in case['pkts']:
            i, pre = pk['id'], [bytes(c) for c in x_names(pk)]
            if pk['t'] == 'data':
                express(i, pre if pk.get('cbp') else [bytes(c) for c in x_packet_name(pk)[1]], bool(pk.get('cbp')))
            elif pk['t'] == 'nack':
                # the Interest the application itself sends, as large as the case says; the Nack echoes exactly those bytes
                if pk['big'] == 'name':
                    import pktcommon as K
                    _, n = _fit_n(lambda n: K.build_interest(pre + [K.gen_comp(_rb(pk['seed'], n), 8)], can_be_prefix=bool(pk.get('cbp')),
                                                             nonce=i + 1, lifetime=600000), pk['size'])
                    nacked[i] = express(i, pre + [bytes(K.gen_comp(_rb(pk['seed'], n), 8))], bool(pk.get('cbp')))
                else:
                    # a probe of the same shape tells how many bytes the application's encoder puts around the parameters
                    probe = express(100 + i, pre[:1] + [b'\x08\x02p' + bytes([48 + i])], bool(pk.get('cbp')), _rb(pk['seed'], 300))
                    n = max(0, 300 + pk['size'] - len(probe)) if probe else max(0, pk['size'] - 120)
                    if n >= 65536:
                        n -= 4                  # the Lengths of the parameters and of the packet take two more bytes each
                    nacked[i] = express(i, pre, bool(pk.get('cbp')), _rb(pk['seed'], n))
            else:
                if fe == 'v2':
                    def handler(name, app_param, rep, context, i=i):
                        tok = context.get('pit_token')
                        invoked.append([i, _dg(enc.Name.to_bytes(name)), None if app_param is None else _dg(app_param),
                                        None if tok is None else (bytes(tok).hex() or '-')])
                        if reply is not None:
                            rep(reply)
                    app.attach_handler(pre, handler, v2_validator)
                else:
                    def handler1(name, param, app_param, i=i):
                        invoked.append([i, _dg(enc.Name.to_bytes(name)), None if app_param is None else _dg(app_param), None])
                        if reply is not None:
                            app.put_raw_packet(reply)
                    app.set_interest_filter(pre, handler1, v1_validator)
        loop.settle()
        rig.take_sent()
        trace = []
        for pk in case['pkts']:
            hs, tail = hs_unjson(pk['hdrs']), hs_unjson(pk.get('tail', []))
            if pk['t'] == 'nack':
                p = nacked.get(pk['id'], b'')
                w = wrap(hs, p, tail)                 # a Nack envelope has no bare counterpart: both runs get it
            else:
                p = x_packet(pk)
                w = wrap(hs, p, tail) if wrapped else p
            before = dict(outcomes)
            inv0, err0 = len(invoked), len(loop.errors)
            exc = None
            try:
                rig.feed(w, case.get('head', ()), case.get('mss', 0), bool(case.get('settle')))
            except Exception as e:                    # noqa
                exc = c6.cls_name(type(e).__name__)
            loop.settle()
            writes = rig.take_sent()
            if via in ('stream', 'unix') and writes:
                writes = [b''.join(writes)]           # a stream: what one reply puts on the wire is the concatenation
            trace.append({'exc': exc, 'bg': [c6.cls_name(x[0]) for x in loop.errors[err0:]],
                          'done': {str(i): o for i, o in outcomes.items() if i not in before},
                          'invoked': invoked[inv0:], 'sent': [_sent_obs(x) for x in writes],
                          'net': len(p), 'wire': len(w), 'alive': bool(rig.face.running)})
        return trace


def run_xport(case):
    r = {'bare': _xport_run(case, False), 'wrapped': _xport_run(case, True)}
    if case.get('reply') is not None:
        r['reply'] = _dg(x_reply(case))
    return r


def oracle_xport(case, impl):
    fe, via = case['fe'], case['via']
    how = {'stream': 'a TcpFace (StreamFace.run)', 'unix': 'a UnixFace (StreamFace.run)', 'udp': 'a UdpFace (datagram_received)',
           'direct': 'face.callback'}[via]
    for n, (pk, b, w) in enumerate(zip(case['pkts'], impl['bare'], impl['wrapped'])):
        if pk['t'] != 'nack' and (b['exc'] or b['bg']):
            return None              # reception failing on the bare packet is C06's finding, not a transparency issue
        if w['exc'] or w['bg']:
            return f"{fe} over {how}: receiving envelope {n} ({w['wire']} bytes) failed with {w['exc'] or w['bg'][0]}"
        if pk['t'] == 'nack':
            want = {str(pk['id']): ['nack', pk['reason']]}
            for r in (b, w):
                if r['net'] == 0:
                    continue         # the application did not send the Interest (not this property's business)
                if r['done'] != want:
                    return (f"{fe} over {how}: Nack envelope {n} of {r['wire']} bytes (reason {pk['reason']}) around the "
                            f"{r['net']}-byte Interest the application sent completed {r['done']} instead of {want}")
                if r['invoked'] or r['sent']:
                    return f'{fe} over {how}: Nack envelope {n} reached a handler or made the application send'
            continue
        what = f"{pk['t']} packet {n} of {w['net']} bytes ({w['wire']} with its envelope)"
        tok = split_token(hs_unjson(pk['hdrs']))[1]
        want_tok = None if (tok is None or fe == 'v1') else (tok.hex() or '-')
        if b['done'] != w['done']:
            return f"{fe} over {how}: {what} completes {b['done']} when bare but {w['done']} when wrapped"
        if [x[:3] for x in b['invoked']] != [x[:3] for x in w['invoked']]:
            return f"{fe} over {how}: {what} reaches handlers {[x[0] for x in b['invoked']]} when bare but {[x[0] for x in w['invoked']]} when wrapped"
        if len(b['sent']) != len(w['sent']):
            return f'{fe} over {how}: {what} makes the application send differently when wrapped'
        for x in w['invoked']:
            if x[3] != want_tok:
                return f'{fe} over {how}: handler context carries token {x[3]} instead of {want_tok}'
        for x in b['invoked']:
            if x[3] is not None:
                return f'{fe} over {how}: bare Interest reached the handler with a token'
        if 'reply' in impl and w['invoked']:
            if len(w['sent']) != len(w['invoked']):
                return f"{fe} over {how}: {len(w['invoked'])} handler replies to {what} wrote {len(w['sent'])} packets to the face"
            rd = impl['reply']
            rv = rd if int(rd.split(':')[0]) > 64 else x_reply(case).hex()
            for sx in w['sent']:
                if want_tok is None:
                    if sx['d'] != rd:
                        return f'{fe} over {how}: reply to {what} (no PIT token) was not sent bare and unmodified'
                elif sx['env'] != [[0x62, tok.hex()], [0x50, rv]]:
                    return (f'{fe} over {how}: reply to {what} does not carry exactly the identical token and the unmodified '
                            f'reply bytes')
            for sx in b['sent']:
                if sx['d'] != rd:
                    return f'{fe} over {how}: reply to the bare {what} was not sent bare and unmodified'
    return None

# ---- stream (6): TIME between the arrival of an Interest and its reply, through the receiving side of the real transports --------
XL_JUNK = ['6400', '64046202aabb', 'f003010203', '6409fd032000fd03e80178', '0500']


def gen_xlate(rng, via=None):
    """one case of stream (6): a connection (real TcpFace / UnixFace frame reader, UdpFace, face.callback) on which 1..5
    Interests arrive - each in an envelope with its own PIT token (some without a token / bare) - whose handlers keep the
    reply function and what they were given, and answer LATER: after the dispatch has finished, after further frames (other
    Interests, Data, junk, envelopes without Fragment) have arrived on the same connection, with loop turns / time in between,
    in another order than the arrivals, some twice, some never.  Frames arrive one by one or glued back to back."""
    via = via or rng.choice(['stream', 'stream', 'stream', 'unix', 'unix', 'udp', 'direct'])
    n = rng.choice([1, 2, 2, 3, 3, 4, 5])
    evs, arrived, ids = [], [], list(range(n))

    def size():
        r = rng.random()
        return rng.randint(40, 400) if r < 0.6 else rng.randint(400, 8800) if r < 0.9 else rng.choice([8800, 9000, 12000, 20000])

    def other():
        r = rng.random()
        if r < 0.35:
            return {'e': 't', 'dt': rng.choice([0, 0, 0.001, 0.02, 0.25])}
        if r < 0.65:
            hs = None if rng.random() < 0.4 else hs_json(gen_ascending(rng)[0])
            return {'e': 'd', 'size': size(), 'seed': rng.randrange(1 << 30), 'hdrs': hs, 'glue': rng.random() < 0.2}
        return {'e': 'j', 'w': rng.choice(XL_JUNK), 'glue': rng.random() < 0.2}
    nxt = 0
    while nxt < n or any(i not in [e['id'] for e in evs if e['e'] == 'r'] for i in arrived) and rng.random() < 0.9:
        r = rng.random()
        if nxt < n and (r < 0.45 or not arrived):
            r2 = rng.random()
            if r2 < 0.12:
                hs = None                                      # bare: its reply is bare
            elif r2 < 0.22:
                hs = gen_ascending(rng, token='no')[0]         # an envelope without a token: its reply is bare
            elif r2 < 0.6:
                hs = gen_ascending(rng, token='yes', subset=[0x62])[0]
            elif r2 < 0.85:
                hs = gen_ascending(rng, token='yes')[0]
            else:
                hs = gen_headers(rng, token='yes')[0]
            evs.append({'e': 'i', 'id': nxt, 'size': size(), 'big': rng.choice(['body', 'body', 'name']),
                        'seed': rng.randrange(1 << 30), 'signed': rng.random() < 0.4,
                        'hdrs': None if hs is None else hs_json(hs), 'glue': rng.random() < 0.2})
            arrived.append(nxt)
            nxt += 1
        elif arrived and r < 0.75:
            # replies in any order; now and then a second reply to the same Interest
            done = [e['id'] for e in evs if e['e'] == 'r']
            todo = [i for i in arrived if i not in done]
            i = rng.choice(todo) if todo and rng.random() < 0.9 else rng.choice(arrived)
            evs.append({'e': 'r', 'id': i, 'size': rng.choice([40, 60, 300, rng.randint(40, 9000)])})
        else:
            evs.append(other())
    case = {'k': 'xlate', 'via': via, 'evs': evs}
    if via in ('stream', 'unix'):
        case['head'] = rng.choice([[], [], [], [1], [1, 1, 1], [2, 1, 5], [rng.randint(1, 12)]])
        case['mss'] = rng.choice([0, 0, 0, 1460, 4096, rng.randint(512, 9000)])
        case['settle'] = rng.random() < 0.5
    return case


def xl_pk(e):
    return {'id': e['id'], 't': 'int', 'size': e['size'], 'big': e['big'], 'seed': e['seed'], 'signed': e.get('signed')}


def xl_reply(e, n):
    """the reply bytes of reply event number n: distinct for every reply"""
    import pktcommon as K
    return _fit(lambda m: K.build_data(K.uri_to_comps('/x/h%d/r%d' % (e['id'], n)), {'content_type': 0}, _rb(n + 11, m), {'type': 0}),
                e['size'])


def _xlate_run(case, wrapped):
    from ndn import encoding as enc, types
    from apphelp import TransportRig
    via = case['via']
    with TransportRig('v2', via) as rig:
        app, loop = rig.app, rig.loop
        kept = {}              # id -> what the handler was given, KEPT (not copied): name, app_param, reply, context
        first = {}

        async def validator(name, sig, ctx):
            return types.ValidResult.PASS

        def look(i):
            name, app_param, rep, ctx = kept[i]
            tok = ctx.get('pit_token')
            return [_dg(enc.Name.to_bytes(name)), None if app_param is None else _dg(app_param),
                    None if tok is None else (bytes(tok).hex() or '-'),
                    None if ctx.get('raw_packet') is None else _dg(ctx['raw_packet'])]
        for e in case['evs']:
            if e['e'] == 'i':
                def handler(name, app_param, rep, context, i=e['id']):
                    if i not in kept:
                        kept[i] = (name, app_param, rep, context)
                        first[i] = look(i)
                app.attach_handler([bytes(c) for c in x_names(xl_pk(e))], handler, validator)
        loop.settle()
        rig.take_sent()
        glued, replies, stray = [], [], []

        def flush():
            if glued:
                w = b''.join(glued)
                del glued[:]
                try:
                    rig.feed(w, case.get('head', ()), case.get('mss', 0), bool(case.get('settle')))
                except Exception as ex:      # noqa
                    stray.append('feed:' + c6.cls_name(type(ex).__name__))
                loop.settle()
                stray.extend(_dg(x) for x in rig.take_sent())      # nothing is to be written on arrival: no handler replies at once

        def frame(w, glue):
            glued.append(w)
            if not (glue and via in ('stream', 'unix')):
                flush()
        for n, e in enumerate(case['evs']):
            if e['e'] == 'i':
                p = x_packet(xl_pk(e))
                frame(wrap(hs_unjson(e['hdrs']), p) if (wrapped and e['hdrs'] is not None) else p, e.get('glue'))
            elif e['e'] == 'd':
                import pktcommon as K
                p = _fit(lambda m: K.build_data(K.uri_to_comps('/x/u'), {'content_type': 0}, _rb(e['seed'], m), {'type': 0}), e['size'])
                frame(wrap(hs_unjson(e['hdrs']), p) if (wrapped and e['hdrs'] is not None) else p, e.get('glue'))
            elif e['e'] == 'j':
                frame(bytes.fromhex(e['w']), e.get('glue'))
            elif e['e'] == 't':
                flush()
                loop.advance(loop.time() + e['dt'])
            else:
                flush()
                i = e['id']
                if i not in kept:
                    replies.append({'n': n, 'id': i, 'ret': 'no-handler-invocation', 'sent': []})
                    continue
                box = {}

                def call(i=i, d=xl_reply(e, n)):
                    box['r'] = kept[i][2](d)
                try:
                    loop.call_now(call)
                    ret = bool(box.get('r'))
                except Exception as ex:          # noqa
                    ret = 'exc:' + c6.cls_name(type(ex).__name__)
                loop.settle()
                writes = rig.take_sent()
                if via in ('stream', 'unix') and writes:
                    writes = [b''.join(writes)]
                replies.append({'n': n, 'id': i, 'ret': ret, 'sent': [_sent_obs(x) for x in writes]})
        flush()
        return {'first': {str(i): v for i, v in first.items()}, 'late': {str(i): look(i) for i in kept}, 'replies': replies,
                'stray': stray, 'bg': [c6.cls_name(x[0]) for x in loop.errors], 'alive': bool(rig.face.running)}


def run_xlate(case):
    return {'xl': True, 'bare': _xlate_run(case, False), 'wrapped': _xlate_run(case, True)}


def oracle_xlate(case, impl):
    via = case['via']
    how = {'stream': 'a TcpFace (StreamFace.run)', 'unix': 'a UnixFace (StreamFace.run)', 'udp': 'a UdpFace (datagram_received)',
           'direct': 'face.callback'}[via]
    b, w = impl['bare'], impl['wrapped']
    ints = {e['id']: e for e in case['evs'] if e['e'] == 'i'}
    if b['bg'] or b['stray'] or sorted(b['first']) != sorted(str(i) for i in ints):
        return None                  # reception of the bare packets failing is not a transparency issue (C06)
    if w['bg'] or w['stray']:
        return f"appv2 over {how}: receiving the packets in envelopes failed / wrote to the face: {(w['bg'] + w['stray'])[0]}"
    if sorted(w['first']) != sorted(b['first']):
        return f"appv2 over {how}: handlers reached {sorted(b['first'])} by the bare Interests but {sorted(w['first'])} by the wrapped ones"
    for i, e in sorted(ints.items()):
        tok = None if e['hdrs'] is None else split_token(hs_unjson(e['hdrs']))[1]
        want = None if tok is None else (tok.hex() or '-')
        for when in ('first', 'late'):
            bo, wo = b[when][str(i)], w[when][str(i)]
            if bo[:2] != wo[:2]:
                return (f"appv2 over {how}: name / parameters the handler of Interest {i} was given differ between bare and "
                        f"wrapped arrival ({'at the invocation' if when == 'first' else 'read after later frames arrived'})")
            if wo[2] != want or bo[2] is not None:
                return (f"appv2 over {how}: handler context of Interest {i} carries token {wo[2]} instead of {want} "
                        f"({'at the invocation' if when == 'first' else 'read after later frames arrived'})")
        if b['late'][str(i)] != b['first'][str(i)]:
            return None              # what the bare packet's handler keeps changes under it: not a matter of envelopes
        if w['late'][str(i)][:2] != w['first'][str(i)][:2]:
            return (f"appv2 over {how}: name / parameters given to the handler of wrapped Interest {i} changed after later frames "
                    f"arrived while those of the bare one stayed")
    for rb, rw in zip(b['replies'], w['replies']):
        e = case['evs'][rw['n']]
        i = e['id']
        tok = None if ints[i]['hdrs'] is None else split_token(hs_unjson(ints[i]['hdrs']))[1]
        data = xl_reply(e, rw['n'])
        rv = _dg(data) if len(data) > 64 else data.hex()
        what = f"late reply (event {rw['n']}) to Interest {i}"
        for r, t in ((rb, None), (rw, tok)):
            if r['ret'] is not True and not r['sent']:
                continue             # the application refused to reply (deadline passed): nothing to carry
            if len(r['sent']) != 1:
                return f"appv2 over {how}: {what} wrote {len(r['sent'])} packets to the face"
            if t is None:
                if r['sent'][0]['d'] != _dg(data):
                    return f'appv2 over {how}: {what} (no PIT token) was not sent bare and unmodified'
            elif r['sent'][0]['env'] != [[0x62, t.hex()], [0x50, rv]]:
                return f'appv2 over {how}: {what} does not carry exactly the identical token and the unmodified reply bytes'
    return None


def shrink(case):
    k = case['k']
    if k == 'xlate':
        evs = case['evs']
        for j, e in enumerate(evs):
            if e['e'] != 'i':
                yield {**case, 'evs': evs[:j] + evs[j + 1:]}
            else:
                yield {**case, 'evs': [x for x in evs if not (x['e'] in ('i', 'r') and x['id'] == e['id'])]}
        for key in ('head', 'mss', 'settle'):
            if case.get(key):
                yield {a: b for a, b in case.items() if a != key}
        for j, e in enumerate(evs):
            if e.get('glue'):
                yield {**case, 'evs': evs[:j] + [{**e, 'glue': False}] + evs[j + 1:]}
            if e['e'] == 'i' and e['hdrs'] and len(e['hdrs']) > 1:
                for h in range(len(e['hdrs'])):
                    if e['hdrs'][h][0] != 0x62:
                        yield {**case, 'evs': evs[:j] + [{**e, 'hdrs': e['hdrs'][:h] + e['hdrs'][h + 1:]}] + evs[j + 1:]}
            if e['e'] in ('i', 'd', 'r') and e['size'] > 60:
                yield {**case, 'evs': evs[:j] + [{**e, 'size': 60}] + evs[j + 1:]}
        return
    if k == 'lp':
        w = bytes.fromhex(case['w'])
        if case['spec'] is None:
            for i in range(len(w)):
                yield {'k': 'lp', 'w': (w[:i] + w[i + 1:]).hex(), 'spec': None}
        return
    if k == 'put':
        t, d = bytes.fromhex(case['tok']), bytes.fromhex(case['data'])
        if len(t) > 0:
            yield {**case, 'tok': t[:-1].hex()}
        if len(d) > 2:
            yield {**case, 'data': '0600'}
    if k == 'replies':
        evs = case['evs']
        for i, e in enumerate(evs):
            if e[0] == 'r':
                yield {'k': 'replies', 'evs': evs[:i] + evs[i + 1:]}
        n = sum(1 for e in evs if e[0] == 'i')
        for j in range(n):           # drop Interest j and its replies, renumber
            out, seen = [], -1
            for e in evs:
                if e[0] == 'i':
                    seen += 1
                    if seen != j:
                        out.append(e)
                elif e[1] != j:
                    out.append(['r', e[1] - (1 if e[1] > j else 0), e[2]])
            yield {'k': 'replies', 'evs': out}
    if k == 'xport':
        for i in range(len(case['pkts'])):
            if len(case['pkts']) > 1:
                yield {**case, 'pkts': case['pkts'][:i] + case['pkts'][i + 1:]}
        for key in ('head', 'mss', 'settle', 'reply'):
            if case.get(key):
                yield {a: b for a, b in case.items() if a != key}
        for i, p in enumerate(case['pkts']):
            if p.get('tail'):
                yield {**case, 'pkts': case['pkts'][:i] + [{a: b for a, b in p.items() if a != 'tail'}] + case['pkts'][i + 1:]}
            for j in range(len(p['hdrs'])):
                if p['hdrs'][j][0] != 0x320:
                    yield {**case, 'pkts': case['pkts'][:i] + [{**p, 'hdrs': p['hdrs'][:j] + p['hdrs'][j + 1:]}] + case['pkts'][i + 1:]}
            if p['big'] != 'body':
                yield {**case, 'pkts': case['pkts'][:i] + [{**p, 'big': 'body'}] + case['pkts'][i + 1:]}
        return
    if k == 'recv':
        if case.get('rx'):
            yield {a: b for a, b in case.items() if a != 'rx'}
        for i in range(len(case['pkts'])):
            yield {**case, 'pkts': case['pkts'][:i] + case['pkts'][i + 1:]}
        for i in range(len(case['pend'])):
            yield {**case, 'pend': case['pend'][:i] + case['pend'][i + 1:]}
        for i in range(len(case['hand'])):
            yield {**case, 'hand': case['hand'][:i] + case['hand'][i + 1:]}
        for i, p in enumerate(case['pkts']):
            if p.get('ooo'):
                continue             # its meaning depends on the order of its headers
            for j in range(len(p['hdrs'])):
                if p['hdrs'][j][0] not in (0x320, 0x52, 0x53):
                    yield {**case, 'pkts': case['pkts'][:i] + [{**p, 'hdrs': p['hdrs'][:j] + p['hdrs'][j + 1:]}] + case['pkts'][i + 1:]}


# ------------------------------------------------------------------------------------ implementation
def lp_obs(w):
    from ndn import encoding as enc
    try:
        r = enc.parse_lp_packet_v2(w, with_tl=True)
        nack = '~' if r.nack is None else ('n' if r.nack.nack_reason is None else str(r.nack.nack_reason))
        tok = '~' if r.pit_token is None else (bytes(r.pit_token).hex() or '-')
        frag = '~' if r.fragment is None else (bytes(r.fragment).hex() or '-')
        return f'ok {nack}:{tok}:{frag}'
    except Exception as e:                 # noqa
        return 'err ' + c6.cls_name(type(e).__name__)


def lp_alt(w):
    """the same envelope through the other entry points of ndnlp_v2 and in the other buffer classes"""
    from ndn import encoding as enc
    from ndn.encoding import ndnlp_v2
    out = {f: lp_obs(as_form(w, f)) for f in FORMS[1:]}
    t = read_num(w, 0)
    ln = read_num(w, t[1]) if t else None
    if ln is not None:
        try:
            r = enc.parse_lp_packet_v2(w[ln[1]:], with_tl=False)
            nack = '~' if r.nack is None else ('n' if r.nack.nack_reason is None else str(r.nack.nack_reason))
            tok = '~' if r.pit_token is None else (bytes(r.pit_token).hex() or '-')
            frag = '~' if r.fragment is None else (bytes(r.fragment).hex() or '-')
            out['notl'] = f'ok {nack}:{tok}:{frag}'
        except Exception as e:                 # noqa
            out['notl'] = 'err ' + c6.cls_name(type(e).__name__)
    for key, fn in (('v1', ndnlp_v2.parse_lp_packet), ('nn', ndnlp_v2.parse_network_nack)):
        try:
            reason, frag = fn(w, True)
            out[key] = 'ok %s:%s' % ('~' if reason is None else reason, '~' if frag is None else (bytes(frag).hex() or '-'))
        except Exception as e:                 # noqa
            out[key] = 'err ' + c6.cls_name(type(e).__name__)
    return out


def run_replies(case):
    from ndn import encoding as enc, types
    # case['face'] == 'stream': the application's face is a StreamFace (Unix / TCP socket): what one reply puts on the
    # wire is the CONCATENATION of what it writes to the stream, in one or several writes
    stream = case.get('face') == 'stream'
    with AppRig('v2', face_kind='stream' if stream else 'mem') as rig:
        closures = []

        def handler(name, app_param, reply, context):
            closures.append((reply, context.get('pit_token')))
        rig.app.attach_handler('/h', handler)
        sent, ret, seen_tok = [], [], []
        k = 0
        for e in case['evs']:
            if e[0] == 'i':
                w = bytes(enc.make_interest(f'/h/{k}', enc.InterestParam(nonce=k + 1, lifetime=60000)))
                k += 1
                flags = int(e[2])          # (older replays carry a bool: True = 1)
                if e[1] is not None:
                    extra = [[0x340, b'\x01'], [0x3e8, b'zz']] if flags & 1 else []
                    pre = [[0x51, bytes(8)], [0x54, b'\x02']] if flags & 2 else []
                    w = wrap(pre + [[0x62, bytes.fromhex(e[1])]] + extra, w)
                elif flags:
                    w = wrap(([[0x51, bytes(8)]] if flags & 2 else []) + [[0x32c, b'\x07']], w)
                rig.deliver(w)
                seen_tok.append(None if len(closures) < k or closures[k - 1][1] is None else bytes(closures[k - 1][1]).hex())
            else:
                n0 = len(rig.face.sent)
                box = {}

                def call(i=e[1], d=as_form(bytes.fromhex(e[2]), e[3] if len(e) > 3 else None)):
                    box['r'] = closures[i][0](d)
                try:
                    rig.loop.call_now(call)
                    ret.append(None)
                except Exception as ex:          # noqa
                    ret.append(type(ex).__name__)
                if stream:
                    sent.append([b''.join(rig.face.sent[n0:]).hex()] if rig.face.sent[n0:] else [])
                else:
                    sent.append([x.hex() for x in rig.face.sent[n0:]])
        return {'invocations': len(closures), 'sent': sent, 'raised': ret, 'seen_tok': seen_tok, 'errors': len(rig.loop.errors)}


def _one_run(case, wrapped):
    """deliver every packet of the case (bare or wrapped) to a fresh application in the case's state"""
    from ndn import encoding as enc, types
    fe = case['fe']
    with AppRig(fe) as rig:
        app, loop = rig.app, rig.loop
        outcomes, invoked = {}, []

        async def v2_validator(name, sig, ctx):
            return types.ValidResult.PASS

        async def v1_validator(name, sig):
            return True
        d0 = c6.data_d0()
        full = []
        for i, p in enumerate(case['pend']):
            name = enc.Name.from_str(p['n'])
            if p['dg']:
                name = name + [enc.Component.from_bytes(hashlib.sha256(d0).digest(), enc.Component.TYPE_IMPLICIT_SHA256)]
            full.append(c6._comps(name))

            async def go(i=i, p=p, name=name):
                try:
                    if fe == 'v2':
                        r = await app.express(name, v2_validator, can_be_prefix=p['cbp'], lifetime=600000, nonce=i + 1)
                        content = r[1]
                    else:
                        r = await app.express_interest(name, validator=v1_validator, can_be_prefix=p['cbp'], lifetime=600000, nonce=i + 1)
                        content = r[2]
                    outcomes[i] = ['data', bytes(content).hex() if content is not None else None]
                except types.InterestNack as e:
                    outcomes[i] = ['nack', e.reason]
                except BaseException as e:     # noqa
                    outcomes[i] = ['exc', type(e).__name__]
            loop.run_now(go())
        for h in case['hand']:
            if fe == 'v2':
                def handler(name, app_param, reply, context, h=h):
                    tok = context.get('pit_token')
                    invoked.append([c6._comps(enc.Name.from_str(h)), c6._comps(name),
                                    None if app_param is None else bytes(app_param).hex(),
                                    None if tok is None else (bytes(tok).hex() or '-')])
                    if case.get('reply') is not None:
                        reply(bytes.fromhex(case['reply']))
                app.attach_handler(h, handler, v2_validator)
            else:
                def handler1(name, param, app_param, h=h):
                    invoked.append([c6._comps(enc.Name.from_str(h)), c6._comps(name),
                                    None if app_param is None else bytes(app_param).hex(), None])
                    if case.get('reply') is not None:
                        app.put_raw_packet(bytes.fromhex(case['reply']))
                app.set_interest_filter(h, handler1, v1_validator)
        trace = []
        for pk in case['pkts']:
            p = bytes.fromhex(pk['p'])
            if wrapped or pk['nack'] is not None or pk.get('frag') or pk.get('env'):
                # a Nack envelope has no bare counterpart: both runs get it
                w = wrap(hs_unjson(pk['hdrs']), p, hs_unjson(pk.get('tail', [])))
            else:
                w = p
            before = dict(outcomes)
            inv0, err0, s0 = len(invoked), len(loop.errors), len(rig.face.sent)
            e = rig.deliver_await(as_form(w, case.get('rx')), c6.first_type(w))
            loop.settle()
            rec = {'exc': None if e is None else c6.cls_name(type(e).__name__),
                   'bg': [c6.cls_name(x[0]) for x in loop.errors[err0:]],
                   'done': {str(i): o for i, o in outcomes.items() if i not in before},
                   'invoked': invoked[inv0:], 'sent': len(rig.face.sent) - s0,
                   'sent_hex': [bytes(x).hex() for x in rig.face.sent[s0:]],
                   'pending': sorted(i for i in range(len(case['pend'])) if i not in outcomes)}
            if wrapped:
                rec['dec'] = c6.decode_outcomes(rig, p, c6.first_type(p))
            trace.append(rec)
        return trace, full


def run_recv(case):
    bare, full = _one_run(case, False)
    wrapped, _ = _one_run(case, True)
    pend = [{'node': c6._comps_of(p['n']), 'cbp': p['cbp'], 'digest': hashlib.sha256(c6.data_d0()).hexdigest() if p['dg'] else '',
             'full': full[i]} for i, p in enumerate(case['pend'])]
    return {'bare': bare, 'wrapped': wrapped, 'pend': pend, 'fib0': sorted(c6._comps_of(h) for h in case['hand'])}


def run_impl(case):
    from ndn import encoding as enc
    k = case['k']
    if k == 'lp':
        r = {'obs': lp_obs(bytes.fromhex(case['w']))}
        if case['spec'] is not None and case['spec']['kind'] not in NOJUDGE:
            r['alt'] = lp_alt(bytes.fromhex(case['w']))
        return r
    if k == 'nack':
        try:
            return {'obs': 'ok ' + (bytes(enc.make_network_nack(as_form(bytes.fromhex(case['int']), case.get('form')), case['reason'])).hex() or '-')}
        except Exception as e:             # noqa
            return {'obs': 'err ' + c6.cls_name(type(e).__name__)}
    if k == 'put':
        with AppRig('v2') as rig:
            try:
                rig.app._put_raw_packet_with_pit_token(as_form(bytes.fromhex(case['data']), case.get('form')),
                                                       as_form(bytes.fromhex(case['tok']), case.get('form')))
                return {'obs': 'ok ' + ','.join(x.hex() for x in rig.face.sent)}
            except Exception as e:         # noqa
                return {'obs': 'err ' + c6.cls_name(type(e).__name__)}
    if k == 'replies':
        return run_replies(case)
    if k == 'xport':
        return run_xport(case)
    if k == 'xlate':
        return run_xlate(case)
    return run_recv(case)


# ---------------------------------------------------------------------------------------------- model
def model_line(case, impl):
    k = case['k']
    if k == 'xlate':
        return None          # judged by the oracle only (no transports, no time in the model)
    if k == 'xport':
        return None          # judged by the oracle only (the model has no transports; sizes are covered by the proofs)
    if k == 'lp':
        return 'C10 lp ' + (case['w'] or '-')
    if k == 'nack':
        return f"C10 nack {case['reason']} {case['int'] or '-'}"
    if k == 'put':
        return f"C10 put {case['tok'] or '-'} {case['data'] or '-'}"
    if k == 'replies':
        toks = []
        for e in case['evs']:
            toks.append(('i:' + ('~' if e[1] is None else (e[1] or '-'))) if e[0] == 'i' else f"r:{e[1]}:{e[2] or '-'}")
        return 'C10 replies ' + ';'.join(toks)
    groups, order = {}, []
    for i, p in enumerate(impl['pend']):
        if p['node'] not in groups:
            groups[p['node']] = []
            order.append(p['node'])
        groups[p['node']].append(f"{i}/{1 if p['cbp'] else 0}/{p['digest'] or '-'}")
    pit = ';'.join(f"{n}={'+'.join(groups[n])}" for n in order) or '.'
    fib = ';'.join(impl['fib0']) or '.'
    toks = []
    for pk, rec in zip(case['pkts'], impl['wrapped']):
        w = wrap(hs_unjson(pk['hdrs']), bytes.fromhex(pk['p']), hs_unjson(pk.get('tail', [])))
        toks.append(f"{LP},{w.hex()},{rec['dec']['int']},{rec['dec']['data']}" +
                    ('' if case.get('reply') is None else ',' + (case['reply'] or '-')))
    return f"C10 recv {case['fe']} {pit} {fib} " + ' '.join(toks)


def model_obs(answer, case, impl):
    k = case['k']
    if k in ('lp', 'nack', 'put'):
        return answer
    if k == 'replies':
        assert answer.startswith('ok '), answer
        body = answer[3:]
        return [] if body == '.' else [('' if x == '-' else x) for x in body.split(',')]
    toks = answer.split(' ')
    cut = toks.index('#') if '#' in toks else len(toks)
    out = []
    for t in toks[:cut - 1]:
        out.append(['err', t[4:]] if t.startswith('err:') else ['ok', sorted([] if t[3:] == '-' else t[3:].split('+'))])
    # the byte-level pipeline (receiveBytes): effects incl. the bytes each reply closure writes, and who is still pending
    byt = []
    for t in toks[cut + 1:]:
        if t.startswith('err:'):
            byt.append(['err', t[4:]])
        else:
            effs, pit = t[3:].split('^')
            byt.append(['ok', sorted([] if effs == '-' else effs.split('+')), sorted(int(x) for x in re.findall(r'(?:=|\+)(\d+)/', pit))])
    return [[a, b] for a, b in zip(out, byt)] if len(out) == len(byt) else {'abstract': out, 'bytes': byt}


def impl_obs(impl):
    if 'obs' in impl:
        return impl['obs']
    if 'sent' in impl:
        return [x for s in impl['sent'] for x in s]
    steps, byt = [], []
    for rec in impl['wrapped']:
        err = rec['exc'] or (rec['bg'][0] if rec['bg'] else None)
        if err:
            steps.append(['err', err])
            byt.append(['err', err])
            continue
        effs, effb = [], []
        for i, o in rec['done'].items():
            effs.append(f'N{i}:{o[1]}' if o[0] == 'nack' else (f'S{i}' if o[0] == 'data' else f'X{i}:{o[1]}'))
        effb = list(effs)
        sent = list(rec.get('sent_hex', []))
        for pfx, name, ap, tok in rec['invoked']:
            effs.append(f"I{pfx}:{'~' if tok is None else tok}")
            effb.append(effs[-1] + (('>' + (sent.pop(0) or '-')) if sent else ''))
        effb += ['sent:' + x for x in sent]            # anything written to the face that no handler reply accounts for
        steps.append(['ok', sorted(effs)])
        byt.append(['ok', sorted(effb), rec.get('pending', [])])
    return [[a, b] for a, b in zip(steps, byt)]


# --------------------------------------------------------------------------------------------- oracle
def strict_envelope(w):
    """independent strict decoding of an envelope: list of (type, value) or None"""
    t = read_num(w, 0)
    l = read_num(w, t[1]) if t else None
    if t is None or l is None or t[0] != LP or l[1] + l[0] != len(w):
        return None
    els = split_tlvs(w[l[1]:])
    if els is None:
        return None
    out = []
    for ty, s, e in els:
        tt = read_num(w, l[1] + s)
        ll = read_num(w, tt[1])
        out.append((ty, w[ll[1]:l[1] + e]))
    return out


def oracle(case, impl):
    k = case['k']
    if k == 'lp':
        sp = case['spec']
        if sp is None:
            return None
        o = impl['obs']
        if sp['kind'] in NOJUDGE:
            return None
        alt = impl.get('alt', {})
        for f in FORMS[1:] + ['notl']:
            if f in alt and alt[f].split(' ')[0] != o.split(' ')[0] or (o.startswith('ok ') and f in alt and alt[f] != o):
                return (f"the envelope decodes differently {'as a bare value (with_tl=False)' if f == 'notl' else 'from a ' + f + ' buffer'}: "
                        f"{alt[f][:60]} instead of {o[:60]}")
        if sp['kind'] == 'frag':
            if 'v1' in alt and not alt['v1'].startswith('err '):
                return 'a fragmented envelope (FragIndex/FragCount) was accepted by parse_lp_packet'
            return None if o.startswith('err ') else 'a fragmented envelope (FragIndex/FragCount) was accepted'
        if 'v1' in alt:
            # the legacy helper: (reason, enclosed packet); a Nack header without NackReason is a Nack with reason None (0)
            want = ('~' if sp['kind'] == 'plain' else str(sp['reason'] or 0)) + ':' + (sp['frag'] or '-')
            if alt['v1'] != 'ok ' + want:
                return f"parse_lp_packet gives {alt['v1'][:60]} for an envelope with {'no Nack header' if sp['kind'] == 'plain' else 'Nack reason ' + str(sp['reason'])}"
        if 'nn' in alt and sp['kind'] == 'nack' and alt['nn'] != 'ok ' + str(sp['reason'] or 0) + ':' + (sp['frag'] or '-'):
            return f"parse_network_nack gives {alt['nn'][:60]} for a Nack envelope with reason {sp['reason']}"
        if not o.startswith('ok '):
            return f"a well-formed envelope ({sp['kind']}) was rejected with {o}"
        nack, tok, frag = o[3:].split(':')
        if frag != (sp['frag'] or '-'):
            return 'the enclosed packet was not returned unmodified'
        if tok != ('~' if sp['tok'] is None else (sp['tok'] or '-')):
            return 'the PIT token of the envelope was not returned identically'
        if sp['kind'] == 'plain' and nack != '~':
            return 'an envelope without Nack header decoded as a Nack'
        if sp['kind'] == 'nack' and sp['reason'] is not None and nack != str(sp['reason']):
            return f"Nack reason {sp['reason']} decoded as {nack}"
        if sp['kind'] == 'nack' and nack == '~':
            return 'an envelope with a Nack header decoded as an envelope without one'
        return None
    if k == 'nack':
        o = impl['obs']
        if not o.startswith('ok '):
            return f"make_network_nack failed for reason {case['reason']}: {o}"
        els = strict_envelope(bytes.fromhex(o[3:]))
        if els is None:
            return 'make_network_nack produced a malformed envelope'
        nk = [v for t, v in els if t == 0x320]
        fr = [v for t, v in els if t == 0x50]
        if len(nk) != 1 or len(fr) != 1 or fr[0].hex() != case['int'] or els[-1][0] != 0x50:
            return 'make_network_nack: envelope does not carry exactly one Nack header and the Interest as last element'
        inner = split_tlvs(nk[0])
        if not inner or len(inner) != 1 or inner[0][0] != 0x321:
            return 'make_network_nack: Nack header without NackReason'
        tt = read_num(nk[0], 0)
        ll = read_num(nk[0], tt[1])
        val = nk[0][ll[1]:]
        if int.from_bytes(val, 'big') != case['reason'] or len(val) not in (1, 2, 4, 8):
            return f"make_network_nack: reason {case['reason']} encoded as {val.hex()}"
        return None
    if k == 'put':
        o = impl['obs']
        if not o.startswith('ok '):
            return f'_put_raw_packet_with_pit_token failed: {o}'
        els = strict_envelope(bytes.fromhex(o[3:])) if ',' not in o else None
        if els is None or [(t, v.hex()) for t, v in els] != [(0x62, case['tok']), (0x50, case['data'])]:
            return 'reply envelope does not carry exactly the identical token and the unmodified reply bytes'
        return None
    if k == 'replies':
        toks = [e[1] for e in case['evs'] if e[0] == 'i']
        if impl['errors']:
            return 'unhandled error in the event loop'
        if impl['invocations'] != len(toks):
            return f"{len(toks)} Interests reached the handler {impl['invocations']} times"
        if impl['seen_tok'] != [None if t is None else t for t in toks]:
            return 'handler context does not show the PIT token the Interest arrived with'
        reps = [e for e in case['evs'] if e[0] == 'r']
        for n, (e, s, r) in enumerate(zip(reps, impl['sent'], impl['raised'])):
            if r is not None:
                return f'reply {n} raised {r}'
            if len(s) != 1:
                return f'reply {n} wrote {len(s)} packets to the face'
            tok = toks[e[1]]
            if tok is None:
                if s[0] != e[2]:
                    return f'reply {n} to an Interest without PIT token was not sent bare and unmodified'
            else:
                els = strict_envelope(bytes.fromhex(s[0]))
                if els is None or [(t, v.hex()) for t, v in els] != [(0x62, tok), (0x50, e[2])]:
                    got = None if els is None else [v.hex() for t, v in els if t == 0x62]
                    return (f'reply {n} (to Interest {e[1]}) does not carry exactly its own token and the unmodified reply '
                            f'(token sent: {got})')
        return None
    if k == 'xport':
        return oracle_xport(case, impl)
    if k == 'xlate':
        return oracle_xlate(case, impl)
    # recv ------------------------------------------------------------------------------------------
    fe = case['fe']
    pend = impl['pend']
    for n, (pk, b, w) in enumerate(zip(case['pkts'], impl['bare'], impl['wrapped'])):
        if pk['nack'] is None and (b['exc'] or b['bg']):
            return None              # reception failing on the bare packet is C06's finding, not a transparency issue
        if w['exc'] or w['bg']:
            return f"{fe}: receiving envelope {n} failed with {w['exc'] or w['bg'][0]}"
        if pk.get('ooo') or pk.get('nj'):
            continue
        if pk.get('frag'):
            if w['done'] or w['invoked'] or w['sent']:
                return (f"{fe}: fragmented envelope {n} was not rejected: its Fragment was processed as a whole packet "
                        f"(completed {sorted(w['done'])}, handlers {[x[0] for x in w['invoked']]})")
        elif pk['nack'] is None:
            tok = split_token(pk['hdrs'])[1]
            want_tok = None if (tok is None or fe == 'v1') else (tok or '-')
            if b['done'] != w['done']:
                return f'{fe}: packet {n} completes {b["done"]} when bare but {w["done"]} when wrapped'
            if [x[:3] for x in b['invoked']] != [x[:3] for x in w['invoked']]:
                return f'{fe}: packet {n} reaches handlers {b["invoked"]} when bare but {w["invoked"]} when wrapped'
            if b['sent'] != w['sent']:
                return f'{fe}: packet {n} makes the application send differently when wrapped'
            for x in w['invoked']:
                if x[3] != want_tok:
                    return f'{fe}: handler context carries token {x[3]} instead of {want_tok}'
            for x in b['invoked']:
                if x[3] is not None:
                    return f'{fe}: bare Interest reached the handler with a token'
            if case.get('reply') is not None and w['invoked'] and 'sent_hex' in w:
                # every reply is sent in an envelope that carries the identical token and the reply bytes unmodified;
                # without a token (and by the legacy front-end, which has no tokens) it is sent bare
                if len(w['sent_hex']) != len(w['invoked']):
                    return f"{fe}: {len(w['invoked'])} handler replies to packet {n} wrote {len(w['sent_hex'])} packets to the face"
                for sx in w['sent_hex']:
                    if want_tok is None:
                        if sx != case['reply']:
                            return f'{fe}: reply to the Interest in envelope {n} (no PIT token) was not sent bare and unmodified'
                    else:
                        els = strict_envelope(bytes.fromhex(sx))
                        if els is None or [(t, v.hex()) for t, v in els] != [(0x62, tok), (0x50, case['reply'])]:
                            return (f'{fe}: reply to the Interest in envelope {n} does not carry exactly the identical token and '
                                    f'the unmodified reply bytes')
        else:
            d = w['dec']
            if d['int'].startswith('E:'):
                named = None
            else:
                named = d['int'].split(':')[0]
            for i, o in w['done'].items():
                if named is None or pend[int(i)]['full'] != named or o != ['nack', pk['nack']]:
                    return (f"{fe}: Nack envelope {n} (reason {pk['nack']}) completed pending Interest {i} "
                            f"({'does not name it' if named is None or pend[int(i)]['full'] != named else 'wrong outcome ' + str(o)})")
            if named is not None:
                for i, p in enumerate(pend):
                    already = any(str(i) in r['done'] for r in impl['wrapped'][:n])
                    if p['full'] == named and not already and str(i) not in w['done']:
                        return f"{fe}: Nack envelope {n} names pending Interest {i} but did not complete it"
            if w['invoked'] or w['sent']:
                return f'{fe}: Nack envelope {n} reached a handler or made the application send'
    return None


def nontrivial(case, impl):
    k = case['k']
    if k == 'lp':
        return case['spec'] is not None
    if k == 'recv':
        return bool(case['pend'] or case['hand'])
    if k == 'xport':
        return any(r['done'] or r['invoked'] for r in impl['bare'])
    if k == 'xlate':
        return any(r['sent'] for r in impl['wrapped']['replies'])
    return True


def tags(case, impl):
    k = case['k']
    t = ['kind:' + k]
    if k == 'lp':
        t.append('lp:' + ('mutated' if case['spec'] is None else case['spec']['kind'] + (':ascending' if case['spec'].get('asc') else '') +
                          (':headers-after-fragment' if case['spec'].get('tail') else '') +
                          (':' + case['spec']['what'] if case['spec'].get('what') else '')))
        t.append('lp-result:' + impl['obs'].split(' ')[0] + ('' if impl['obs'].startswith('ok') else ':' + impl['obs'][4:]))
    elif k == 'put':
        t.append('toklen:%d' % (len(case['tok']) // 2))
        t.append('put-form:' + case.get('form', 'bytes'))
        if len(case['data']) // 2 >= 240:
            t.append('put-size:' + ('64k' if len(case['data']) > 100000 else '253'))
    elif k == 'replies':
        t.append('interests:%d' % sum(1 for e in case['evs'] if e[0] == 'i'))
        t.append('replies:%d' % sum(1 for e in case['evs'] if e[0] == 'r'))
        if any(e[0] == 'i' and e[1] is not None and int(e[2]) & 2 for e in case['evs']):
            t.append('replies:unknown-headers-before-token')
    elif k == 'xlate':
        t.append('xlate:' + case['via'])
        seen = 0
        for e in case['evs']:
            if e['e'] in ('i', 'd', 'j'):
                seen += 1
            elif e['e'] == 'r':
                later = seen - 1 - [x['id'] for x in case['evs'] if x['e'] == 'i'].index(e['id'])
                t.append('xlate:reply-after-%s-further-frames' % ('no' if later <= 0 else '1' if later == 1 else 'several'))
        for r in impl['wrapped']['replies']:
            t.append('xlate-reply:' + ('refused' if not r['sent'] else 'in-envelope' if r['sent'][0]['env'] else 'bare'))
    elif k == 'xport':
        for pk, b, w in zip(case['pkts'], impl['bare'], impl['wrapped']):
            lim = [B for B in XBOUNDS if b['net'] <= B < w['wire']] if pk['t'] != 'nack' else [B for B in XBOUNDS if w['net'] <= B < w['wire']]
            sz = 'straddles-%d' % lim[0] if lim else ('<1k' if w['net'] < 1024 else '<8800' if w['net'] <= 8800 else '<64k' if w['net'] < 65536 else '>=64k')
            t.append('xport:%s:%s:%s' % (case['via'], pk['t'], sz))
            t.append('xport-effect:%s:%s' % (pk['t'], 'yes' if (b['done'] or b['invoked']) else 'none'))
            if pk['t'] == 'nack' and w['net'] != pk['size']:
                t.append('xport:nacked-interest-size-off-by:%d' % max(-9, min(9, w['net'] - pk['size'])))
            if pk['t'] != 'nack' and w['net'] != pk['size']:
                t.append('xport:size-not-exact')
            if w['invoked'] and w['sent']:
                t.append('xport-reply:' + ('in-envelope' if w['invoked'][0][3] else 'bare'))
        t.append('xport-fe:' + case['fe'])
        if case.get('head') or case.get('mss'):
            t.append('xport:stream-segmented')
    elif k == 'recv':
        t.append(case['fe'] + ':pend%d:hand%d' % (len(case['pend']), len(case['hand'])))
        if case.get('rx'):
            t.append('rx:' + case['rx'])
        if sum(1 for q in case['pend'] if q['n'] == '/a/b') >= 3:
            t.append(case['fe'] + ':crowded-name')
        for pk, w in zip(case['pkts'], impl['wrapped']):
            t.append('pkt:' + ('nack' if pk['nack'] is not None else 'fragmented' if pk.get('frag') else
                               'out-of-order-nack' if pk.get('ooo') else pk['nj'] if pk.get('nj') else 'wrapped') +
                     ':hdrs%d' % min(len(pk['hdrs']), 6))
            if pk.get('tail'):
                t.append('pkt:headers-after-fragment')
            if case.get('reply') is not None and w['invoked']:
                t.append('handler-replies:' + ('in-envelope' if w['invoked'][0][3] else 'bare'))
            types = [h[0] for h in pk['hdrs']]
            if len(types) > 1 and types == sorted(types):
                t.append('increasing-order:' + ('nack' if pk['nack'] is not None else 'fragmented' if pk.get('frag') else 'wrapped'))
            if pk['nack'] is not None:
                known = sum(1 for x in types if x in KNOWN_ORDER)
                t.append('nack-known-headers:%d' % min(known, 4))
                nvs = [bytes.fromhex(h[1]) for h in pk['hdrs'] if h[0] == 0x320]
                if nvs and any(x[0] != 0x321 for x in (split_tlvs(nvs[0]) or [])):
                    t.append('nack-unknown-sub-elements')
            pos, tk = split_token(pk['hdrs'])
            if tk is not None and pk['nack'] is not None:
                t.append('nack-with-token')
            if pos:
                t.append('unknown-headers-before-token')
            ts = [h[0] for h in pk['hdrs']]
            if len(ts) != len(set(ts)):
                t.append('repeated-header-type')
            if w['done']:
                t.append('completes-pending')
            if w['invoked']:
                t.append('invokes-handler' + ('-with-token' if w['invoked'][0][3] else ''))
    return t


def finding_key(case, impl, why):
    w = why.replace('v1:', 'legacy:').replace('v2:', 'appv2:')
    w = re.sub(r'\{.*?\}|\[.*?\]', '', w)
    w = re.sub(r'\b\d+\b', 'N', w)
    w = re.sub(r'[^a-zA-Z0-9]+', '-', w).strip('-').lower()
    return w[:70]


LEVEL_TEXT = ('[byte level] the envelope decoder model of C10 and the one inside the byte-level receive pipeline of C06 (generic '
              'codec of C07 over the generated LpPacketValue schema) are proved to be the same function on every byte string '
              '(simulation of the two scan loops); hence for EVERY byte string p and every accepted envelope without '
              'fragmentation / Nack around it receiveBytes(envelope) = receiveBytes(p) up to the PIT token handed to handlers '
              '(same state change, completions, invocations, same drop when p is malformed; nested envelope / unreadable type '
              'dropped); a Nack envelope around ANY bytes completes exactly the Interests named by the decoded Interest with '
              'exactly the reason of the header bytes (every width, none = 0) and is dropped when the bytes are no Interest; '
              'illegal header values, fragmentation fields: dropped, with the exception class; later Nack headers ignored; '
              'reply bytes = LpPacket{PitToken=t, Fragment=r} exactly, = TlvModel.encode of the generic codec, and parse back '
              'to (t, r); end to end from the envelope bytes to the bytes of the reply (token_echo). [abstract decoders] '
              'Lean 4 theorems over a byte-level model of the envelope decoder/encoder (parse_lp_packet_v2, make_network_nack, '
              '_put_raw_packet_with_pit_token; field table generated from the live LpPacketValue class) composed with the '
              'receive pipeline model of C06: wrapped = bare for every network packet and every list of optional headers '
              '(known or unknown, any order) in every table state; a Nack header anywhere the decoder\'s in-order scan '
              'recognises it (exact condition proved; includes every envelope in increasing type-number order, with any other '
              'headers incl. a PitToken, any NackReason width, unknown sub-elements, or no NackReason = reason 0) completes '
              'exactly the Interests pending on the exact enclosed name with exactly the reason, for all reasons < 2^64, and '
              'an unrecognised (out-of-order) Nack header is proved to be processed as a plain envelope; every '
              'increasing-order envelope with FragIndex/FragCount is rejected; the PIT token of every increasing-order '
              'envelope is the value of its first PitToken header; token round trip for every token length; each reply '
              'carries its own token over every history and reply order; no token => bare. Tied to the code by differential '
              'execution of the compiled model against '
              'parse_lp_packet_v2 / the encoders / both NDNApp front-ends, plus the property oracle on the implementation '
              '(bare-vs-wrapped twin applications, strict independent envelope decoder for face output).')
LEVEL_NOTE = ('Proofs are about the model; model = code is sampled. Byte level: the enclosed packet is an arbitrary byte string '
              'decoded by the C07 decoder models (receiveBytes); illegal header values and repeated Nack headers are proved as '
              'the code behaves (envelope dropped with the class of the first illegal header; the first Nack header decides, '
              'later ones are skipped - the property statement does not constrain which of several Nack headers counts, so the '
              'oracle does not judge those envelopes). Envelopes that violate the NDNLPv2 header order (PitToken/FragIndex/'
              'FragCount/Nack behind a later field, anything but unknown headers behind the Fragment) are handled by the '
              'library as if the late header were unknown - proved for Nack, observations reported.')
TECHNIQUE = ('Lean 4 proof (refinement byte loop -> element fold by induction, induction over header lists and histories, '
             'table facts by decide) + generated table from live class + model/implementation correspondence check')
DESIGN_REF = 'DESIGN.md section 7, C10'
