"""AST extraction of what the Lean models of C03 / C04 / C05 (lean/NdnModel/{Pit,Fib,Gate}.lean) assume about the source:
constants, `except` class lists, comparison operators, guard shapes of the pending-Interest table, the handler table and
the validation gate of both front-ends.  Nothing here executes the source: it is parsed with `ast`.

Output = text of lean/NdnGen/C03.lean, C04.lean, C05.lean (types in lean/NdnModel/SrcShape.lean).

Every guard is recognised by its *shape* after a small normalisation (`canon`): `not` pushed into comparisons, operands of
commutative operators sorted, `len(x) == 0` = `not x`, `len(x) > 0` / `len(x) != 0` = `x`, the loop variable written `E`.
A shape that is not recognised is emitted as `unknown: <text>` (strings) or `.unknown` (constructors), so that the pinned
theorem fails rather than guessing."""
import ast, os, copy

# --------------------------------------------------------------------------------------------- generic helpers


def parse(path):
    return ast.parse(open(path).read())


def find_class(tree, name):
    for n in ast.walk(tree):
        if isinstance(n, ast.ClassDef) and n.name == name:
            return n
    return None


def find_func(node, name):
    """direct or nested function definition `name` inside `node` (first in source order)"""
    best = None
    for n in ast.walk(node):
        if isinstance(n, (ast.FunctionDef, ast.AsyncFunctionDef)) and n.name == name:
            if best is None or n.lineno < best.lineno:
                best = n
    return best


def method(tree, cls, name):
    c = find_class(tree, cls)
    if c is None:
        return None
    for f in c.body:
        if isinstance(f, (ast.FunctionDef, ast.AsyncFunctionDef)) and f.name == name:
            return f
    return None


class _Rename(ast.NodeTransformer):
    def __init__(self, m):
        self.m = m

    def visit_Name(self, n):
        if n.id in self.m:
            return ast.copy_location(ast.Name(id=self.m[n.id], ctx=n.ctx), n)
        return n


def _is_len_of(n):
    return (isinstance(n, ast.Call) and isinstance(n.func, ast.Name) and n.func.id == 'len' and len(n.args) == 1
            and not n.keywords)


def _is_const(n, v):
    return isinstance(n, ast.Constant) and n.value == v and type(n.value) is type(v)


_NEG = {ast.Eq: ast.NotEq, ast.NotEq: ast.Eq, ast.Lt: ast.GtE, ast.GtE: ast.Lt, ast.Gt: ast.LtE, ast.LtE: ast.Gt,
        ast.Is: ast.IsNot, ast.IsNot: ast.Is, ast.In: ast.NotIn, ast.NotIn: ast.In}
_FLIP = {ast.Lt: ast.Gt, ast.Gt: ast.Lt, ast.LtE: ast.GtE, ast.GtE: ast.LtE}
_SYM = (ast.Eq, ast.NotEq, ast.Is, ast.IsNot)


def _key(n):
    # constants go to the right-hand side of a symmetric comparison
    return (isinstance(n, ast.Constant), ast.unparse(n))


def _norm(n, neg=False):
    """normalised copy of a boolean expression (see module docstring); `neg` = under an odd number of `not`s"""
    if isinstance(n, ast.UnaryOp) and isinstance(n.op, ast.Not):
        return _norm(n.operand, not neg)
    if isinstance(n, ast.BoolOp):
        op = n.op
        if neg:
            op = ast.Or() if isinstance(n.op, ast.And) else ast.And()
        vals = [_norm(v, neg) for v in n.values]
        flat = []
        for v in vals:
            if isinstance(v, ast.BoolOp) and type(v.op) is type(op):
                flat += v.values
            else:
                flat.append(v)
        flat.sort(key=ast.unparse)
        return ast.BoolOp(op=op, values=flat)
    if isinstance(n, ast.Compare) and len(n.ops) == 1:
        l, r, op = n.left, n.comparators[0], n.ops[0]
        # len(x) == 0 / len(x) > 0 / len(x) != 0
        for a, b, o in ((l, r, op), (r, l, _FLIP.get(type(op), type(op))())):
            if _is_len_of(a) and _is_const(b, 0):
                if isinstance(o, ast.Eq):
                    return _norm(a.args[0], not neg)
                if isinstance(o, (ast.Gt, ast.NotEq)):
                    return _norm(a.args[0], neg)
        if neg:
            op = _NEG[type(op)]()
        if isinstance(op, _SYM) and _key(l) > _key(r):
            l, r = r, l
        elif type(op) in _FLIP and _key(l) > _key(r):
            l, r, op = r, l, _FLIP[type(op)]()
        return ast.Compare(left=l, ops=[op], comparators=[r])
    if neg:
        return ast.UnaryOp(op=ast.Not(), operand=n)
    return n


def canon(n, rename=None):
    n = copy.deepcopy(n)
    if rename:
        n = _Rename(rename).visit(n)
    return ast.unparse(ast.fix_missing_locations(_norm(n))).replace('\n', ' ')


def mentions(node, ident):
    return any((isinstance(n, ast.Name) and n.id == ident) or (isinstance(n, ast.Attribute) and n.attr == ident)
               for n in ast.walk(node))


def callee(c):
    f = c.func
    return f.attr if isinstance(f, ast.Attribute) else (f.id if isinstance(f, ast.Name) else '?')


def calls_in(node, name):
    return [n for n in ast.walk(node) if isinstance(n, ast.Call) and callee(n) == name]


def guards_of(root, target):
    """the chain of (If node, in_body) that encloses `target` inside `root` (outermost first); elif = nested If in
    orelse.  IfExp and comprehension conditions are not followed."""
    def rec(node, chain):
        if node is target:
            return chain
        if isinstance(node, ast.If):
            if any(x is target for x in ast.walk(node.test)):
                return chain
            for s in node.body:
                r = rec(s, chain + [(node, True)])
                if r is not None:
                    return r
            for s in node.orelse:
                r = rec(s, chain + [(node, False)])
                if r is not None:
                    return r
            return None
        for c in ast.iter_child_nodes(node):
            r = rec(c, chain)
            if r is not None:
                return r
        return None
    return rec(root, []) or []


def path_cond(root, target, rename=None):
    """canonical conjunction of the If tests under which `target` is reached (else-branches negated)"""
    parts = []
    for i, inb in guards_of(root, target):
        t = i.test if inb else ast.UnaryOp(op=ast.Not(), operand=i.test)
        parts.append(t)
    if not parts:
        return 'always'
    e = parts[0] if len(parts) == 1 else ast.BoolOp(op=ast.And(), values=parts)
    return canon(e, rename)


def lean_str(s):
    return '"' + s.replace('\\', '\\\\').replace('"', '\\"') + '"'


def lean_bool(b):
    return 'true' if b else 'false'


def unknown(txt):
    return 'unknown: ' + txt[:160]


EXC_MAP = {'TimeoutError': 'timeoutError', 'CancelledError': 'cancelledError', 'KeyError': 'keyError',
           'Exception': 'any', 'BaseException': 'any'}
EXC_ORDER = ['timeoutError', 'cancelledError', 'keyError', 'any', 'unknown']


def exc_name(t):
    nm = t.attr if isinstance(t, ast.Attribute) else (t.id if isinstance(t, ast.Name) else '?')
    return EXC_MAP.get(nm, 'unknown')


def handler_classes(h):
    if h.type is None:
        return ['any']
    ts = h.type.elts if isinstance(h.type, ast.Tuple) else [h.type]
    return [exc_name(t) for t in ts]


def sort_exc(xs):
    out = []
    for x in EXC_ORDER:
        if x in xs and x not in out:
            out.append(x)
    return out


def enclosing_try(root, target):
    """innermost Try whose *body* contains target"""
    best = None
    for n in ast.walk(root):
        if isinstance(n, ast.Try) and any(x is target for s in n.body for x in ast.walk(s)):
            if best is None or n.lineno >= best.lineno:
                best = n
    return best


VR_MAP = {'FAIL': 'fail', 'TIMEOUT': 'timeout', 'SILENCE': 'silence', 'PASS': 'pass', 'ALLOW_BYPASS': 'allowBypass'}


def vr_of(n):
    """`ValidResult.X` / `types.ValidResult.X` -> constructor name, else None"""
    if isinstance(n, ast.Attribute) and mentions(n.value, 'ValidResult'):
        return VR_MAP.get(n.attr, 'unknown')
    return None


def module_int(tree, name):
    for n in tree.body:
        if isinstance(n, ast.Assign) and len(n.targets) == 1 and isinstance(n.targets[0], ast.Name) \
                and n.targets[0].id == name and isinstance(n.value, ast.Constant) and type(n.value.value) is int:
            return n.value.value
    return None


def dflt_shape(func, tree, attr='lifetime'):
    """how a missing `<x>.lifetime` (or parameter `lifetime`) is replaced by a default inside `func`:
    returns (shape, default value or None); shape in ifNotNone / orElse / unknown"""
    def is_val(n):
        return (isinstance(n, ast.Attribute) and n.attr == attr) or (isinstance(n, ast.Name) and n.id == attr)

    def dval(n):
        if isinstance(n, ast.Constant) and type(n.value) is int:
            return n.value
        if isinstance(n, ast.Name):
            return module_int(tree, n.id)
        return None

    def find_default(nodes):
        for s in nodes:
            for n in ast.walk(s):
                if isinstance(n, (ast.Constant, ast.Name)) and not is_val(n) and dval(n) is not None:
                    return dval(n)
        return None
    hits = []
    for n in ast.walk(func):
        if isinstance(n, ast.BoolOp) and isinstance(n.op, ast.Or) and len(n.values) == 2 and is_val(n.values[0]) \
                and dval(n.values[1]) is not None:
            hits.append(('orElse', dval(n.values[1])))
        elif isinstance(n, (ast.IfExp, ast.If)):
            c = canon(n.test)
            body = [n.body] if isinstance(n, ast.IfExp) else n.body
            orelse = [n.orelse] if isinstance(n, ast.IfExp) else n.orelse
            tv = [x for x in ast.walk(n.test) if is_val(x)]
            if not tv or not orelse:
                continue
            v = ast.unparse(tv[0])
            if c == f'{v} is not None':
                pos, neg = body, orelse
            elif c == f'{v} is None':
                pos, neg = orelse, body
            elif c == v:                      # truthiness: same as `or`
                d = find_default(orelse)
                if d is not None and any(is_val(x) for s in body for x in ast.walk(s)):
                    hits.append(('orElse', d))
                continue
            else:
                continue
            d = find_default(neg)
            uses = any(is_val(x) for s in pos for x in ast.walk(s))
            leak = any(is_val(x) for s in neg for x in ast.walk(s))
            if d is not None and uses and not leak and find_default(pos) is None:
                hits.append(('ifNotNone', d))
    hits = sorted(set(hits))
    if len(hits) == 1:
        return hits[0]
    return ('unknown', None)


CMP_MAP = {ast.Lt: 'lt', ast.LtE: 'le', ast.Gt: 'gt', ast.GtE: 'ge', ast.Eq: 'eq', ast.NotEq: 'ne'}
CMP_FLIP = {'lt': 'gt', 'gt': 'lt', 'le': 'ge', 'ge': 'le', 'eq': 'eq', 'ne': 'ne'}


# --------------------------------------------------------------------------------------------- canonical blocks
def _is_logging(s):
    if isinstance(s, ast.Expr) and isinstance(s.value, ast.Call):
        t = ast.unparse(s.value.func)
        return t.startswith('self.logger.') or t.startswith('logging.') or t.startswith('logger.')
    if isinstance(s, ast.If) and 'isEnabledFor' in ast.unparse(s.test):
        return True
    return False


def _is_doc(s):
    return isinstance(s, ast.Expr) and isinstance(s.value, ast.Constant) and isinstance(s.value.value, str)


def canon_block(stmts, rename=None):
    """one-line canonical text of a statement list: logging calls, docstrings, `pass` and annotations dropped, tests
    normalised, names renamed"""
    out = []
    for s in stmts:
        if _is_logging(s) or _is_doc(s) or isinstance(s, ast.Pass):
            continue
        if isinstance(s, ast.If):
            t = f'if {canon(s.test, rename)}: {canon_block(s.body, rename)}'
            if s.orelse:
                t += f' else: {canon_block(s.orelse, rename)}'
            out.append('{' + t + '}')
        elif isinstance(s, (ast.For, ast.AsyncFor)):
            out.append('{for ' + canon(s.target, rename) + ' in ' + canon(s.iter, rename) + ': ' + canon_block(s.body, rename) + '}')
        elif isinstance(s, ast.AnnAssign) and s.value is not None:
            out.append(canon(ast.Assign(targets=[s.target], value=s.value, lineno=0), rename))
        else:
            s2 = copy.deepcopy(s)
            if rename:
                s2 = _Rename(rename).visit(s2)
            out.append(ast.unparse(ast.fix_missing_locations(s2)).replace('\n', ' '))
    return '; '.join(out)


def single_assign(func, name):
    """value of the only plain assignment `name = value` in func (None when there is none or several)"""
    vals = [n.value for n in ast.walk(func) if isinstance(n, ast.Assign) and len(n.targets) == 1
            and isinstance(n.targets[0], ast.Name) and n.targets[0].id == name]
    return vals[0] if len(vals) == 1 else None


class _Inline(ast.NodeTransformer):
    def __init__(self, m):
        self.m = m

    def visit_Name(self, n):
        if isinstance(n.ctx, ast.Load) and n.id in self.m:
            return copy.deepcopy(self.m[n.id])
        return n


def inline(expr, func, names):
    m = {}
    for nm in names:
        v = single_assign(func, nm)
        if v is not None:
            m[nm] = v
    e = copy.deepcopy(expr)
    for _ in range(3):
        e = _Inline(m).visit(e)
    return e


def sym_value(stmts, var, func, rename, inl):
    """symbolic value of `var` after a statement list made of assignments and if/else: ite(c, a, b) text"""
    val = None
    for s in stmts:
        if isinstance(s, ast.Assign) and len(s.targets) == 1 and isinstance(s.targets[0], ast.Name) and s.targets[0].id == var:
            val = canon(inline(s.value, func, inl), rename)
        elif isinstance(s, ast.If) and (mentions_assign(s, var)):
            a = sym_value(s.body, var, func, rename, inl)
            b = sym_value(s.orelse, var, func, rename, inl)
            val = f'ite({canon(inline(s.test, func, inl), rename)}, {a if a is not None else val}, {b if b is not None else val})'
    return val


def mentions_assign(node, var):
    return any(isinstance(n, ast.Assign) and any(isinstance(t, ast.Name) and t.id == var for t in n.targets)
               for n in ast.walk(node))


def pending_loops(func):
    return [n for n in ast.walk(func) if isinstance(n, ast.For) and ast.unparse(n.iter) == 'self.pending_list'
            and isinstance(n.target, ast.Name)]


def list_names(func):
    """local names that stand for the new pending list: assigned to self.pending_list somewhere"""
    out = {}
    for n in ast.walk(func):
        if isinstance(n, ast.Assign) and len(n.targets) == 1 and ast.unparse(n.targets[0]) == 'self.pending_list' \
                and isinstance(n.value, ast.Name):
            out[n.value.id] = 'L'
    return out


# --------------------------------------------------------------------------------------------- InterestTreeNode
def node_shape(cls, entry_cls=None):
    """guards of InterestTreeNode.satisfy / nack_interest / timeout / cancel (strings, see NdnModel/SrcShape.lean)"""
    g = {}
    # ---- satisfy
    f = find_func(cls, 'satisfy')
    loops = pending_loops(f) if f else []
    if f and len(loops) == 1:
        lp = loops[0]
        ren = {lp.target.id: 'E'}
        ren.update(list_names(f))
        g['satisfyPasses'] = sym_value(lp.body, 'passed', f, ren, ['data_sha256', 'raw_packet']) or unknown(canon_block(lp.body, ren))
        act = [s for s in lp.body if isinstance(s, ast.If) and canon(s.test) == 'passed']
        if len(act) == 1:
            g['satisfyHands'] = canon_block(act[0].body, ren)
            g['satisfyElse'] = canon_block(act[0].orelse, ren)
        else:
            g['satisfyHands'] = g['satisfyElse'] = unknown(canon_block(lp.body, ren))
        i = f.body.index(lp) if lp in f.body else None
        g['satisfyKeep'] = canon_block(f.body[i + 1:], ren) if i is not None else unknown('loop not at top level')
    else:
        for k in ('satisfyPasses', 'satisfyHands', 'satisfyElse', 'satisfyKeep'):
            g[k] = unknown('no single loop over self.pending_list')
    # ---- completion of an entry when satisfy hands the Data to a task (appv2 PendingIntEntry.satisfy)
    g['satisfyDone'] = 'n/a'
    if entry_cls is not None and find_func(entry_cls, 'satisfy') is not None:
        ef = find_func(entry_cls, 'satisfy')
        comp = [c for c in ast.walk(ef) if isinstance(c, ast.Call) and callee(c) in ('set_result', 'set_exception')]
        first = min([c.lineno for c in comp], default=None)
        guards = [s for s in ef.body if isinstance(s, ast.If) and mentions(s.test, 'done')
                  and any(isinstance(x, ast.Return) for x in s.body) and (first is None or s.lineno < first)]
        if len(guards) == 1 and all(not guards_of(ef, c) or all(mentions(i.test, 'valid') for i, _ in guards_of(ef, c)) for c in comp):
            g['satisfyDone'] = f'if {canon(guards[0].test)}: return'
        elif not guards:
            g['satisfyDone'] = 'none'
        else:
            g['satisfyDone'] = unknown('; '.join(canon(x.test) for x in guards))
    # ---- nack_interest
    f = find_func(cls, 'nack_interest')
    loops = pending_loops(f) if f else []
    if f and len(loops) == 1:
        lp = loops[0]
        ren = {lp.target.id: 'E'}
        ren.update(list_names(f))
        app = [c for c in ast.walk(lp) if isinstance(c, ast.Call) and callee(c) == 'append']
        exc = [c for c in ast.walk(lp) if isinstance(c, ast.Call) and callee(c) == 'set_exception']
        g['nackKeep'] = path_cond(lp, app[0], ren) if len(app) == 1 else unknown(canon_block(lp.body, ren))
        g['nackFails'] = (path_cond(lp, exc[0], ren) + ' => ' + canon(exc[0], ren)) if len(exc) == 1 else unknown(canon_block(lp.body, ren))
        i = f.body.index(lp) if lp in f.body else None
        g['nackList'] = canon_block(f.body[i + 1:], ren) if i is not None else unknown('loop not at top level')
    else:
        for k in ('nackKeep', 'nackFails', 'nackList'):
            g[k] = unknown('no single loop over self.pending_list')
    # ---- timeout
    f = find_func(cls, 'timeout')
    g['timeoutKeep'] = g['timeoutReturn'] = unknown('timeout not found')
    if f:
        ren = dict(list_names(f))
        keeps = []
        for n in ast.walk(f):
            if isinstance(n, ast.ListComp) and len(n.generators) == 1 and ast.unparse(n.generators[0].iter) == 'self.pending_list' \
                    and isinstance(n.generators[0].target, ast.Name) and ast.unparse(n.elt) == n.generators[0].target.id:
                gen = n.generators[0]
                cond = gen.ifs[0] if len(gen.ifs) == 1 else (ast.BoolOp(op=ast.And(), values=gen.ifs) if gen.ifs else ast.Constant(value=True))
                keeps.append(canon(cond, {gen.target.id: 'E'}))
        for lp in pending_loops(f):
            for c in ast.walk(lp):
                if isinstance(c, ast.Call) and callee(c) == 'append' and len(c.args) == 1 and ast.unparse(c.args[0]) == lp.target.id:
                    keeps.append(path_cond(lp, c, {lp.target.id: 'E'}))
        g['timeoutKeep'] = keeps[0] if len(keeps) == 1 else unknown(' | '.join(keeps))
        rets = [n for n in ast.walk(f) if isinstance(n, ast.Return)]
        if len(rets) == 1 and rets[0].value is not None:
            g['timeoutReturn'] = canon(rets[0].value, ren).replace('self.pending_list', 'L')
    # ---- cancel
    f = find_func(cls, 'cancel')
    g['cancel'] = unknown('cancel not found')
    if f:
        loops = pending_loops(f)
        if len(loops) == 1:
            lp = loops[0]
            cs = [c for c in ast.walk(lp) if isinstance(c, ast.Call) and canon(c, {lp.target.id: 'E'}) == 'E.future.cancel()']
            g['cancel'] = ('E.future.cancel() ' + path_cond(lp, cs[0], {lp.target.id: 'E'})) if len(cs) == 1 else unknown(canon_block(lp.body, {lp.target.id: 'E'}))
    return g


def members_of(test, var='valid'):
    """`valid == VR.A or valid == VR.B` / `valid in (VR.A, VR.B)` -> [members]; None when the test has another shape"""
    def one(n):
        if isinstance(n, ast.Compare) and len(n.ops) == 1:
            l, r, op = n.left, n.comparators[0], n.ops[0]
            if isinstance(op, ast.Eq):
                for a, b in ((l, r), (r, l)):
                    if isinstance(a, ast.Name) and a.id == var and vr_of(b):
                        return [vr_of(b)]
            if isinstance(op, ast.In) and isinstance(l, ast.Name) and l.id == var and isinstance(r, (ast.Tuple, ast.List, ast.Set)):
                ms = [vr_of(e) for e in r.elts]
                if all(ms):
                    return ms
        return None
    if isinstance(test, ast.BoolOp) and isinstance(test.op, ast.Or):
        out = []
        for v in test.values:
            m = one(v)
            if m is None:
                return None
            out += m
        return out
    return one(test)


VR_ORDER = ['fail', 'timeout', 'silence', 'pass', 'allowBypass', 'unknown']


def sort_vr(ms):
    return [x for x in VR_ORDER if x in ms]


def deliver_shape(func, action):
    """which values of `valid` reach the call `action` (set_result / callback) inside func:
    ('only', members) | ('allBut', members) | ('unknown', text)"""
    acts = [c for c in ast.walk(func) if isinstance(c, ast.Call) and callee(c) == action]
    if len(acts) != 1:
        return ('unknown', f'{len(acts)} calls of {action}')
    gs = [(i, b) for i, b in guards_of(func, acts[0]) if mentions(i.test, 'valid')]
    if len(gs) == 1:
        i, inb = gs[0]
        ms = members_of(i.test)
        if ms is not None and 'unknown' not in ms:
            return ('only' if inb else 'allBut', sort_vr(ms))
        return ('unknown', canon(i.test))
    if not gs:
        # reached after early-return guards: `if valid in (...): ...; return`
        pre = [s for s in ast.walk(func) if isinstance(s, ast.If) and mentions(s.test, 'valid') and s.lineno < acts[0].lineno
               and any(isinstance(x, ast.Return) for x in s.body) and not s.orelse]
        if len(pre) == 1:
            ms = members_of(pre[0].test)
            if ms is not None and 'unknown' not in ms:
                return ('allBut', sort_vr(ms))
            return ('unknown', canon(pre[0].test))
        if not pre:
            return ('allBut', [])
    return ('unknown', ' ; '.join(canon(i.test) for i, _ in gs))


def lean_deliver(d):
    if d[0] == 'truthy':
        return '.truthy'
    if d[0] in ('only', 'allBut'):
        return f'.{d[0]} [' + ', '.join('.' + m for m in d[1]) + ']'
    return '.unknown'


def strip_mod(s):
    for p in ('types.', 'aio.', 'enc.', 'sec.', 'utils.'):
        s = s.replace(p, '')
    return s


# --------------------------------------------------------------------------------------------- NDNApp: pending Interests
def table_attr(app_cls):
    """name of the attribute holding the pending-Interest trie: the one `_on_data` walks with `.prefixes(`"""
    f = find_func(app_cls, '_on_data')
    for c in calls_in(f, 'prefixes') if f else []:
        if isinstance(c.func.value, ast.Attribute):
            return c.func.value.attr
    return None


def pit_shape(tree, app_cls, fe):
    g = {}
    T = table_attr(app_cls) or '?'
    ren = {}

    def txt(s):
        return strip_mod(s).replace('self.' + T, 'PIT')
    # ---- lifetime default and waiting budget
    wf = find_func(app_cls, '_wait_for_data')
    ex = find_func(app_cls, 'express_raw_interest')
    src = ex if fe == 'v2' else wf
    shape, dv = dflt_shape(src, tree) if src else ('unknown', None)
    g['lifetimeDflt'] = shape
    g['defaultLifetime'] = dv if dv is not None else 0
    g['budget'] = '.unknown'
    g['msPerSecond'] = 0
    g['waitHandlers'] = []
    if wf:
        w = calls_in(wf, 'wait_for')
        if len(w) == 1:
            to = [k.value for k in w[0].keywords if k.arg == 'timeout'] + list(w[0].args[1:2])
            if to and isinstance(to[0], ast.BinOp) and isinstance(to[0].op, ast.Div) and isinstance(to[0].left, ast.Name) \
                    and isinstance(to[0].right, ast.Constant):
                g['msPerSecond'] = int(to[0].right.value) if float(to[0].right.value).is_integer() else 0
                var = to[0].left.id
                params = [a.arg for a in wf.args.args]
                assigns = [n for n in ast.walk(wf) if isinstance(n, ast.Assign) and len(n.targets) == 1
                           and isinstance(n.targets[0], ast.Name) and n.targets[0].id == var]
                if var in params:
                    # the parameter itself (possibly defaulted): the whole lifetime counts from the await
                    if all(dflt_shape(ast.Module(body=[a], type_ignores=[]), tree)[0] != 'unknown' for a in assigns):
                        g['budget'] = '.fullLifetime'
                else:
                    # lifetime = deadline - now; if lifetime <cmp> 0: lifetime = <grace>
                    rem = [a for a in assigns if isinstance(a.value, ast.BinOp) and isinstance(a.value.op, ast.Sub)
                           and isinstance(a.value.left, ast.Name) and a.value.left.id == 'deadline' and calls_in(a.value.right, 'timestamp')]
                    late = [n for n in wf.body if isinstance(n, ast.If) and isinstance(n.test, ast.Compare) and len(n.test.ops) == 1
                            and not n.orelse and len(n.body) == 1 and n.body[0] in assigns and isinstance(n.body[0].value, ast.Constant)]
                    if len(rem) == 1 and len(late) == 1 and len(assigns) == 2:
                        t = late[0].test
                        l, r, op = t.left, t.comparators[0], CMP_MAP.get(type(t.ops[0]))
                        if op and isinstance(r, ast.Name) and r.id == var and _is_const(l, 0):
                            l, r, op = r, l, CMP_FLIP[op]
                        if op and isinstance(l, ast.Name) and l.id == var and _is_const(r, 0) and type(late[0].body[0].value.value) is int:
                            g['budget'] = f'.untilDeadline .{op} {late[0].body[0].value.value}'
            tr = enclosing_try(wf, w[0])
            if tr is not None:
                hs = []
                for h in tr.handlers:
                    rm = bool(calls_in(ast.Module(body=h.body, type_ignores=[]), '_remove_pending'))
                    ra = [n for b in h.body for n in ast.walk(b) if isinstance(n, ast.Raise)]
                    rt = strip_mod(ast.unparse(ra[0].exc)) if len(ra) == 1 and ra[0].exc is not None else 'none'
                    for c in handler_classes(h):
                        hs.append((c, rm, rt))
                g['waitHandlers'] = sorted(hs, key=lambda x: EXC_ORDER.index(x[0]))
    # ---- express_raw_interest
    g['noResponse'] = False
    g['express'] = unknown('express_raw_interest not found')
    if ex:
        params = [a.arg for a in ex.args.args]
        sd = calls_in(ex, 'setdefault')
        if 'no_response' in params:
            first = [s for s in ex.body if isinstance(s, ast.If) and canon(s.test) == 'no_response'
                     and any(isinstance(x, ast.Return) for x in s.body) and calls_in(s, 'send')]
            g['noResponse'] = bool(first) and bool(sd) and first[0].lineno < sd[0].lineno
        steps = []
        for n in sorted([c for c in ast.walk(ex) if isinstance(c, ast.Call)], key=lambda c: (c.lineno, c.col_offset)):
            if callee(n) in ('setdefault', 'append_interest', 'send', '_wait_for_data', 'create_future'):
                if guards_of(ex, n) and callee(n) != 'send':
                    steps.append(callee(n) + '?')
                elif not guards_of(ex, n):
                    steps.append(callee(n))
        split = [s for s in ast.walk(ex) if isinstance(s, ast.If) and mentions(s.test, 'TYPE_IMPLICIT_SHA256')]
        sp = 'no-split'
        if len(split) == 1:
            sp = txt('{if ' + canon(split[0].test) + ': ' + canon_block(split[0].body) + ' else: ' + canon_block(split[0].orelse) + '}')
        key = txt(canon(sd[0])) if len(sd) == 1 else 'no-setdefault'
        g['express'] = sp + ' ' + key + ' ' + ','.join(steps)
    # ---- _remove_pending
    f = find_func(app_cls, '_remove_pending')
    g['removePending'] = txt(canon_block(f.body)) if f else unknown('_remove_pending not found')
    # ---- _on_data
    f = find_func(app_cls, '_on_data')
    g['onData'] = txt(canon_block(f.body)) if f else unknown('_on_data not found')
    # ---- _on_nack: what happens once the node is looked up (the lookup itself is in the C06 table)
    f = find_func(app_cls, '_on_nack')
    g['onNack'] = unknown('_on_nack not found')
    if f:
        c = calls_in(f, 'nack_interest')
        dels = [n for n in ast.walk(f) if isinstance(n, ast.Delete)]
        if len(c) == 1 and len(dels) == 1:
            pc = path_cond(f, dels[0])
            inner = txt(canon(c[0]))
            g['onNack'] = txt(pc) + ' => ' + txt(ast.unparse(dels[0]))
            if inner not in g['onNack']:
                g['onNack'] = unknown(g['onNack'])
    # ---- _clean_up
    f = find_func(app_cls, '_clean_up')
    g['cleanUp'] = txt(canon_block(f.body)) if f else unknown('_clean_up not found')
    return g


def data_validation(tree, fe):
    """how the verdict on a Data packet decides what the awaitable finishes with"""
    g = {'dataCaught': [], 'dataCaughtAs': 'unknown', 'dataNoValidator': unknown('?'), 'dataDelivers': ('unknown', ''),
         'dataFailure': unknown('?')}
    if fe == 'v2':
        ec = find_class(tree, 'PendingIntEntry')
        f = find_func(ec, 'satisfy') if ec else None
        if not f:
            return g
        vc = [c for c in calls_in(f, 'validator')]
        if len(vc) == 1:
            tr = enclosing_try(f, vc[0])
            cls, subs = [], []
            for h in (tr.handlers if tr else []):
                cls += handler_classes(h)
                for s in h.body:
                    if isinstance(s, ast.Assign) and ast.unparse(s.targets[0]) == 'valid':
                        subs.append(vr_of(s.value) or 'unknown')
            g['dataCaught'] = sort_exc(cls)
            g['dataCaughtAs'] = subs[0] if len(set(subs)) == 1 and len(subs) == len(tr.handlers if tr else []) else 'unknown'
            gs = guards_of(f, vc[0])
            if len(gs) == 1 and gs[0][1] and canon(gs[0][0].test) == 'self.validator is not None':
                g['dataNoValidator'] = strip_mod(canon_block(gs[0][0].orelse))
            else:
                g['dataNoValidator'] = unknown(' ; '.join(canon(i.test) for i, _ in gs) or 'unguarded')
        g['dataDelivers'] = deliver_shape(f, 'set_result')
        se = calls_in(f, 'set_exception')
        g['dataFailure'] = strip_mod(canon(se[0])) if len(se) == 1 else unknown(f'{len(se)} set_exception')
    else:
        ac = find_class(tree, 'NDNApp')
        f = find_func(ac, '_wait_for_data') if ac else None
        if not f:
            return g
        vc = calls_in(f, 'validator')
        if len(vc) == 1:
            tr = enclosing_try(f, vc[0])
            g['dataCaught'] = sort_exc([c for h in (tr.handlers if tr else []) for c in handler_classes(h)])
            g['dataCaughtAs'] = 'unknown'
            ifs = [s for s in ast.walk(f) if isinstance(s, ast.If) and any(x is vc[0] for x in ast.walk(s.test))]
            if len(ifs) == 1 and isinstance(ifs[0].test, ast.Await) and ifs[0].test.value is vc[0] \
                    and any(isinstance(x, ast.Return) for b in ifs[0].body for x in ast.walk(b)) and len(ifs[0].orelse) == 1 \
                    and isinstance(ifs[0].orelse[0], ast.Raise) \
                    and all(any(r is x for b in ifs[0].body for x in ast.walk(b)) for r in ast.walk(f) if isinstance(r, ast.Return)):
                # every `return` of the coroutine sits behind the validator's true answer
                g['dataDelivers'] = ('truthy', [])
                g['dataFailure'] = strip_mod(ast.unparse(ifs[0].orelse[0]))
        nv = [s for s in f.body if isinstance(s, ast.If) and canon(s.test) == 'validator is None']
        g['dataNoValidator'] = strip_mod(canon_block(nv[0].body)) if len(nv) == 1 else unknown('no `validator is None` default')
    return g


# --------------------------------------------------------------------------------------------- handler table
def fib_shape(cls, attach, detach, dispatch):
    g = {}
    f = find_func(cls, attach)
    g['attach'] = unknown(attach + ' not found')
    if f:
        sd = calls_in(f, 'setdefault')
        rs = [n for n in ast.walk(f) if isinstance(n, ast.Raise)]
        if len(sd) == 1 and len(rs) == 1 and rs[0].exc is not None:
            exc = rs[0].exc.func if isinstance(rs[0].exc, ast.Call) else rs[0].exc
            setcb = [n for n in f.body if isinstance(n, ast.Assign) and ast.unparse(n.targets[0]) == 'node.callback']
            g['attach'] = ('setdefault(PrefixTreeNode()); if ' + path_cond(f, rs[0]) + ': raise ' + ast.unparse(exc)
                           + ('; node.callback = arg' if len(setcb) == 1 and isinstance(setcb[0].value, ast.Name) else '; ?'))
            if not (isinstance(sd[0].args[1] if len(sd[0].args) > 1 else None, ast.Call) and callee(sd[0].args[1]) == 'PrefixTreeNode'):
                g['attach'] = unknown(ast.unparse(sd[0]))
    f = find_func(cls, detach)
    g['detach'] = unknown(detach + ' not found')
    if f:
        dels = [n for n in ast.walk(f) if isinstance(n, ast.Delete)]
        if len(dels) == 1:
            tr = enclosing_try(f, dels[0])
            tg = dels[0].targets[0] if len(dels[0].targets) == 1 else None
            plain = isinstance(tg, ast.Subscript) and not isinstance(tg.slice, (ast.Slice, ast.Tuple))
            g['detach'] = 'del' if tr is None and not guards_of(f, dels[0]) and plain else unknown(ast.unparse(dels[0]))
    f = find_func(cls, dispatch)
    g['noRoute'] = g['noCallback'] = unknown(dispatch + ' not found')
    if f:
        lp = calls_in(f, 'longest_prefix')
        step = None
        for n in ast.walk(f):
            if isinstance(n, ast.Assign) and lp and n.value is lp[0] and isinstance(n.targets[0], ast.Name):
                step = n.targets[0].id
        cb = [c for c in ast.walk(f) if isinstance(c, ast.Call) and callee(c) == 'callback']
        if step and cb:
            # condition under which the callback is NOT reached because of the route lookup / the callback slot
            early = [s for s in f.body if isinstance(s, ast.If) and any(isinstance(x, ast.Return) for x in s.body) and not s.orelse
                     and s.lineno < cb[0].lineno]
            conds = [canon(s.test, {step: 'STEP'}) for s in early]
            pc = path_cond(f, cb[0], {step: 'STEP'}) if not find_func(f, 'submit_interest') else 'always'
            route = [c for c in conds if 'STEP' in c] + ([canon(ast.parse('not (' + pc + ')', mode='eval').body)] if 'STEP' in pc else [])
            g['noRoute'] = route[0] if len(route) == 1 else unknown(' | '.join(route) or 'no route test')
            nocb = [c for c in conds if 'callback' in c]
            g['noCallback'] = nocb[0] if len(nocb) == 1 else ('none' if not nocb else unknown(' | '.join(nocb)))
    return g


def reply_shape(tree, app_cls):
    g = {'defaultLifetime': 0, 'lifetimeDflt': 'unknown', 'lateCmp': 'unknown', 'lateReturns': unknown('?'),
         'successReturns': unknown('?'), 'send': unknown('?'), 'sendRequiresRunning': False}
    oi = find_func(app_cls, '_on_interest')
    rp = find_func(oi, 'reply') if oi else None
    if not rp:
        return g
    outer = copy.deepcopy(oi)
    outer.body = [s for s in outer.body if not isinstance(s, (ast.FunctionDef, ast.AsyncFunctionDef))]
    shape, dv = dflt_shape(outer, tree)
    # the deadline the closure captures is fixed before the nested functions: nothing inside them rebinds it
    inner = [n for fn in ast.walk(oi) if isinstance(fn, (ast.FunctionDef, ast.AsyncFunctionDef)) and fn is not oi
             for n in ast.walk(fn) if (isinstance(n, (ast.Assign, ast.AugAssign)) and mentions(n.targets[0] if isinstance(n, ast.Assign) else n.target, 'deadline'))
             or (isinstance(n, ast.Nonlocal) and 'deadline' in n.names)]
    if inner:
        shape = 'unknown'
    g['lifetimeDflt'] = shape
    g['defaultLifetime'] = dv if dv is not None else 0
    late = [s for s in rp.body if isinstance(s, ast.If) and isinstance(s.test, ast.Compare) and mentions(s.test, 'deadline')]
    if len(late) == 1 and len(late[0].test.ops) == 1:
        t = late[0].test
        l, r, op = t.left, t.comparators[0], CMP_MAP.get(type(t.ops[0]))
        now = single_assign(rp, l.id) if isinstance(l, ast.Name) else None
        if op and isinstance(l, ast.Name) and l.id == 'deadline':
            l, r, op = r, l, CMP_FLIP[op]
            now = single_assign(rp, l.id) if isinstance(l, ast.Name) else None
        if op and isinstance(r, ast.Name) and r.id == 'deadline' and now is not None and calls_in(now, 'timestamp') \
                and isinstance(now, ast.Call):
            g['lateCmp'] = op
        rets = [x for x in late[0].body if isinstance(x, ast.Return)]
        g['lateReturns'] = ast.unparse(rets[0].value) if len(rets) == 1 and rets[0].value is not None else 'None'
        if any(isinstance(x, ast.Call) and callee(x).startswith('_put_raw') for s in late[0].body for x in ast.walk(s)):
            g['lateReturns'] = unknown('sends when late')
    last = rp.body[-1]
    g['successReturns'] = ast.unparse(last.value) if isinstance(last, ast.Return) and last.value is not None else 'None'
    snd = [s for s in rp.body if isinstance(s, ast.If) and mentions(s.test, 'pit_token')]
    g['send'] = canon_block(snd, {}) if len(snd) == 1 else unknown(f'{len(snd)} token tests')
    ok = True
    for nm in ('_put_raw_packet', '_put_raw_packet_with_pit_token'):
        f = find_func(app_cls, nm)
        first = [s for s in (f.body if f else []) if not _is_doc(s)]
        ok = ok and bool(first) and isinstance(first[0], ast.If) and canon(first[0].test) == 'not self.face.running' \
            and any(isinstance(x, ast.Raise) for x in first[0].body)
    g['sendRequiresRunning'] = ok
    return g


# --------------------------------------------------------------------------------------------- validation gate
def sigreq_of(test, func):
    """classify the condition under which the digest check / the validator is required"""
    t = test
    if isinstance(t, ast.Name):
        v = single_assign(func, t.id)
        if v is None:
            return 'unknown'
        t = v
    c = canon(t)
    return {'app_param is not None or sig.signature_info is not None': 'paramsOrSig',
            'sig.signature_info is not None': 'sigOnly', 'app_param is not None': 'paramsOnly'}.get(c, 'unknown')


def gate_shape(tree, app_cls, fe):
    g = {'order': [], 'digestWhen': 'unknown', 'digestFail': unknown('?'), 'validateWhen': 'unknown', 'noValidator': unknown('?'),
         'noValidatorAs': None, 'plain': 'unknown', 'delivers': ('unknown', ''), 'validatorArgs': unknown('?')}
    oi = find_func(app_cls, '_on_interest')
    if not oi:
        return g
    sub = find_func(oi, 'submit_interest')
    marks = []
    lp = calls_in(oi, 'longest_prefix')
    if lp:
        marks.append((lp[0].lineno, lp[0].col_offset, 'route'))
    for s in ast.walk(oi):
        if isinstance(s, ast.If) and 'callback is None' in canon(s.test) and any(isinstance(x, ast.Return) for x in s.body):
            marks.append((s.lineno, s.col_offset, 'callback'))
    ck = calls_in(oi, 'params_sha256_checker')
    for c in ck:
        marks.append((c.lineno, c.col_offset, 'digest'))
    vcalls = [c for c in ast.walk(oi) if isinstance(c, ast.Call) and callee(c) == 'validator']
    for c in vcalls:
        marks.append((c.lineno, c.col_offset, 'validate'))
    cbs = [c for c in ast.walk(oi) if isinstance(c, ast.Call) and callee(c) == 'callback']
    if cbs:
        marks.append((min(c.lineno for c in cbs), 0, 'handle'))
    # where submit_interest is started counts for the steps inside it
    start = [c for c in ast.walk(oi) if isinstance(c, ast.Call) and callee(c) == 'submit_interest']
    if sub is not None and len(start) == 1:
        marks = [((start[0].lineno, 1000 + ln, nm) if sub.lineno <= ln <= sub.end_lineno else (ln, co, nm)) for ln, co, nm in marks]
    elif sub is not None:
        marks.append((0, 0, 'unknown'))
    g['order'] = [m[2] for m in sorted(marks)]
    if len(ck) == 1:
        gs = guards_of(oi, ck[0])
        own = [s for s in ast.walk(oi) if isinstance(s, ast.If) and any(x is ck[0] for x in ast.walk(s.test))]
        if len(own) == 1 and canon(own[0].test).startswith('not await') and any(isinstance(x, ast.Return) for x in own[0].body) \
                and not any(isinstance(x, ast.Call) and callee(x) in ('callback', 'create_task') for s in own[0].body for x in ast.walk(s)):
            g['digestFail'] = 'if ' + strip_mod(canon(own[0].test)) + ': return'
        gs = guards_of(oi, own[0]) if own else gs
        g['digestWhen'] = sigreq_of(gs[0][0].test, oi) if len(gs) == 1 and gs[0][1] else ('always' if not gs else 'unknown')
    if sub is not None and len(vcalls) == 1:
        g['validatorArgs'] = ', '.join(ast.unparse(a) for a in vcalls[0].args)
        gs = guards_of(sub, vcalls[0])
        outer = gs[0] if gs else None
        if outer and outer[1]:
            g['validateWhen'] = sigreq_of(outer[0].test, oi)
            # plain Interests: what `valid` is in the else branch
            pl = [s for s in outer[0].orelse if isinstance(s, ast.Assign) and ast.unparse(s.targets[0]) == 'valid']
            if len(pl) == 1 and len(outer[0].orelse) == 1:
                g['plain'] = vr_of(pl[0].value) or ('pass' if _is_const(pl[0].value, True) else 'unknown')
        if len(gs) == 2 and gs[1][1] and canon(gs[1][0].test) == 'node.validator is not None':
            nv = [s for s in gs[1][0].orelse if isinstance(s, ast.Assign) and ast.unparse(s.targets[0]) == 'valid']
            if len(nv) == 1 and len(gs[1][0].orelse) == 1 and vr_of(nv[0].value):
                g['noValidator'] = 'valid = ' + strip_mod(ast.unparse(nv[0].value))
                g['noValidatorAs'] = vr_of(nv[0].value)
        elif len(gs) == 1:
            ch = single_assign(sub, 'validator')
            g['noValidator'] = 'validator = ' + ast.unparse(ch) if ch is not None else unknown('validator not assigned once')
        if fe == 'v2':
            g['delivers'] = deliver_shape(sub, 'callback')
        else:
            drop = [s for s in sub.body if isinstance(s, ast.If) and canon(s.test) == 'not valid'
                    and any(isinstance(x, ast.Return) for x in s.body) and not s.orelse
                    and not any(isinstance(x, ast.Call) and callee(x) == 'callback' for b in s.body for x in ast.walk(b))]
            after = all(c.lineno > drop[0].lineno for c in cbs) if len(drop) == 1 else False
            g['delivers'] = ('truthy', []) if after else ('unknown', '')
    return g


def bytes_cmp(func):
    """how a checker compares the computed digest with the one in the packet: (shape, guard text)"""
    if func is None:
        return 'unknown', unknown('not found')
    rets = [n for n in ast.walk(func) if isinstance(n, ast.Assign) and ast.unparse(n.targets[0]) == 'ret' and not isinstance(n.value, ast.Constant)]
    shape = 'unknown'
    if len(rets) == 1:
        v = rets[0].value
        if isinstance(v, ast.Compare) and len(v.ops) == 1 and isinstance(v.ops[0], ast.Eq):
            sides = sorted([ast.unparse(v.left), ast.unparse(v.comparators[0])])
            if sides == ['sha256_algo.digest()', 'sig_value']:
                shape = 'fullEq'
        elif isinstance(v, ast.Call) and callee(v) == 'all' and calls_in(v, 'zip'):
            shape = 'zipAll'
    gs = guards_of(func, rets[0]) if len(rets) == 1 else []
    inner = [(i, b) for i, b in gs if mentions(i.test, 'sig_value') or mentions(i.test, 'covered_part')]
    guard = unknown('no emptiness guard')
    if len(inner) == 1:
        i, inb = inner[0]
        other = i.orelse if inb else i.body
        guard = ('if ' + canon(i.test if not inb else ast.UnaryOp(op=ast.Not(), operand=i.test)) + ': ' + canon_block(other))
    return shape, guard


def valid_result(tree):
    c = find_class(tree, 'ValidResult')
    out = []
    for s in (c.body if c else []):
        if isinstance(s, ast.Assign) and len(s.targets) == 1 and isinstance(s.targets[0], ast.Name):
            try:
                v = ast.literal_eval(s.value)
            except ValueError:
                v = None
            out.append((s.targets[0].id, v if type(v) is int else None))
    return out


# --------------------------------------------------------------------------------------------- Lean text
def _struct(name, typ, fields):
    out = [f'def {name} : {typ} where']
    for k, v in fields:
        out.append(f'  {k} := {v}')
    out.append('')
    return out


def _node_fields(g):
    return [(k, lean_str(strip_mod(g[k]))) for k in ('satisfyPasses', 'satisfyHands', 'satisfyElse', 'satisfyKeep', 'satisfyDone',
                                                   'nackKeep', 'nackFails', 'nackList', 'timeoutKeep', 'timeoutReturn', 'cancel')]


def _exc_list(xs):
    return '[' + ', '.join('.' + x for x in xs) + ']'


def _src(repo):
    s = os.path.join(repo, 'src', 'ndn')
    return {'v2': os.path.join(s, 'appv2.py'), 'v1': os.path.join(s, 'app.py'), 'nt': os.path.join(s, 'name_tree.py'),
            'disp': os.path.join(s, 'app_support', 'dispatcher.py'), 'types': os.path.join(s, 'types.py'),
            'dv': os.path.join(s, 'security', 'validator', 'digest_validator.py')}


HEAD = ('/- GENERATED by harness/props/pit_extract.py from {files} (ast only; nothing is executed). Do not edit. -/')


def generate_c03(repo):
    P = _src(repo)
    t2, t1, nt = parse(P['v2']), parse(P['v1']), parse(P['nt'])
    out = ['import NdnModel.SrcShape', HEAD.format(files='src/ndn/appv2.py, src/ndn/app.py, src/ndn/name_tree.py'),
           'namespace Ndn.Gen.C03', 'open Ndn Ndn.Src', '']
    out += _struct('nodeV2', 'NodeShape', _node_fields(node_shape(find_class(t2, 'InterestTreeNode'), find_class(t2, 'PendingIntEntry'))))
    out += _struct('nodeV1', 'NodeShape', _node_fields(node_shape(find_class(nt, 'InterestTreeNode'))))
    for tag, tree, fe in (('v2', t2, 'v2'), ('v1', t1, 'v1')):
        app = find_class(tree, 'NDNApp')
        p = pit_shape(tree, app, fe)
        d = data_validation(tree, fe)
        wh = '[' + ', '.join(f'(.{c}, {lean_bool(r)}, {lean_str(t)})' for c, r, t in p['waitHandlers']) + ']'
        out += _struct(tag, 'PitShape', [
            ('defaultLifetime', str(p['defaultLifetime'])), ('lifetimeDflt', '.' + p['lifetimeDflt']), ('budget', p['budget']),
            ('msPerSecond', str(p['msPerSecond'])), ('waitHandlers', wh), ('noResponse', lean_bool(p['noResponse'])),
            ('express', lean_str(p['express'])), ('removePending', lean_str(p['removePending'])), ('onData', lean_str(p['onData'])),
            ('onNack', lean_str(p['onNack'])), ('cleanUp', lean_str(p['cleanUp'])),
            ('dataCaught', _exc_list(d['dataCaught'])), ('dataCaughtAs', '.' + d['dataCaughtAs']),
            ('dataNoValidator', lean_str(d['dataNoValidator'])), ('dataDelivers', lean_deliver(d['dataDelivers'])),
            ('dataFailure', lean_str(d['dataFailure']))])
    out += ['end Ndn.Gen.C03', '']
    return '\n'.join(out)


def generate_c04(repo):
    P = _src(repo)
    t2, t1, td, nt = parse(P['v2']), parse(P['v1']), parse(P['disp']), parse(P['nt'])
    out = ['import NdnModel.SrcShape',
           HEAD.format(files='src/ndn/appv2.py, src/ndn/app.py, src/ndn/app_support/dispatcher.py, src/ndn/name_tree.py'),
           'namespace Ndn.Gen.C04', 'open Ndn Ndn.Src', '']
    for tag, cls, names in (('v2', find_class(t2, 'NDNApp'), ('attach_handler', 'detach_handler', '_on_interest')),
                            ('v1', find_class(t1, 'NDNApp'), ('set_interest_filter', 'unset_interest_filter', '_on_interest')),
                            ('disp', find_class(td, 'Dispatcher'), ('register', 'unregister', 'dispatch'))):
        g = fib_shape(cls, *names)
        out += _struct(tag, 'FibShape', [(k, lean_str(g[k])) for k in ('attach', 'detach', 'noRoute', 'noCallback')])
    r = reply_shape(t2, find_class(t2, 'NDNApp'))
    out += _struct('reply', 'ReplyShape', [
        ('defaultLifetime', str(r['defaultLifetime'])), ('lifetimeDflt', '.' + r['lifetimeDflt']), ('lateCmp', '.' + r['lateCmp']),
        ('lateReturns', lean_str(r['lateReturns'])), ('successReturns', lean_str(r['successReturns'])),
        ('send', lean_str(r['send'])), ('sendRequiresRunning', lean_bool(r['sendRequiresRunning']))])
    # legacy `unregister` coroutine: the `del` and the classes its `try` ignores
    un = find_func(find_class(t1, 'NDNApp'), 'unregister')
    ign = unknown('unregister not found')
    if un:
        dels = [n for n in ast.walk(un) if isinstance(n, ast.Delete)]
        if len(dels) == 1:
            tr = enclosing_try(un, dels[0])
            cl = sort_exc([c for h in (tr.handlers if tr else []) for c in handler_classes(h)])
            quiet = tr is not None and all(all(isinstance(s, ast.Pass) or _is_logging(s) for s in h.body) for h in tr.handlers)
            ign = 'del ignoring ' + ','.join(cl) if quiet else ('del' if tr is None else unknown('handler does something'))
    out.append(f'def unregisterV1 : String := {lean_str(ign)}')
    pk = find_func(find_class(nt, 'NameTrie'), '_path_from_key')
    txt = unknown('_path_from_key not found')
    if pk:
        rets = [n for n in ast.walk(pk) if isinstance(n, ast.Return)]
        if len(rets) == 1 and isinstance(rets[0].value, ast.ListComp) and len(rets[0].value.generators) == 1:
            lc = rets[0].value
            txt = canon(lc.elt, {lc.generators[0].target.id: 'X'}) if isinstance(lc.generators[0].target, ast.Name) else unknown(ast.unparse(lc))
            if isinstance(lc.elt, ast.IfExp):
                e = lc.elt
                txt = (canon(e.body, {lc.generators[0].target.id: 'X'}) + ' if ' + canon(e.test, {lc.generators[0].target.id: 'X'})
                       + ' else ' + canon(e.orelse, {lc.generators[0].target.id: 'X'}))
    out.append(f'def pathFromKey : String := {lean_str(txt)}')
    out += ['', 'end Ndn.Gen.C04', '']
    return '\n'.join(out)


def generate_c05(repo):
    P = _src(repo)
    t2, t1, tt, dv = parse(P['v2']), parse(P['v1']), parse(P['types']), parse(P['dv'])
    out = ['import NdnModel.SrcShape',
           HEAD.format(files='src/ndn/appv2.py, src/ndn/app.py, src/ndn/types.py, src/ndn/security/validator/digest_validator.py'),
           'namespace Ndn.Gen.C05', 'open Ndn Ndn.Src', '']
    for tag, tree in (('v2', t2), ('v1', t1)):
        g = gate_shape(tree, find_class(tree, 'NDNApp'), tag)
        out += _struct(tag, 'GateShape', [
            ('order', '[' + ', '.join(lean_str(x) for x in g['order']) + ']'), ('digestWhen', '.' + g['digestWhen']),
            ('digestFail', lean_str(g['digestFail'])), ('validateWhen', '.' + g['validateWhen']),
            ('noValidator', lean_str(g['noValidator'])),
            ('noValidatorAs', f"some .{g['noValidatorAs']}" if g['noValidatorAs'] else 'none'),
            ('plain', '.' + g['plain']), ('delivers', lean_deliver(g['delivers'])), ('validatorArgs', lean_str(g['validatorArgs']))])
    vr = valid_result(tt)
    out.append('/-- `class ValidResult(Enum)`: every member with its value -/')
    out.append('def validResult : List (VR × Int) := [' + ', '.join(f"(.{VR_MAP.get(n, 'unknown')}, {v if v is not None else 0})" for n, v in vr) + ']')
    out.append('def validResultNames : List String := [' + ', '.join(lean_str(n) for n, _ in vr) + ']')
    # ValidationFailure(..., result=ValidResult.FAIL)
    vf = find_func(find_class(tt, 'ValidationFailure'), '__init__') if find_class(tt, 'ValidationFailure') else None
    fd = 'unknown'
    if vf and vf.args.defaults and vf.args.args and vf.args.args[-1].arg == 'result':
        fd = vr_of(vf.args.defaults[-1]) or 'unknown'
    out.append(f'def failureDefault : VR := .{fd}')
    for nm, fn in (('params', 'params_sha256_checker'), ('digest', 'sha256_digest_checker')):
        shape, guard = bytes_cmp(find_func(dv, fn))
        out.append(f'def {nm}Cmp : BytesCmp := .{shape}')
        out.append(f'def {nm}Empty : String := {lean_str(guard)}')
    f = find_func(dv, 'params_sha256_checker')
    flds = sorted(ast.unparse(n) for n in ast.walk(f) if isinstance(n, ast.Attribute) and isinstance(n.value, ast.Name) and n.value.id == 'sig') if f else []
    out.append('def paramsFields : List String := [' + ', '.join(lean_str(x) for x in flds) + ']')
    f = find_func(dv, 'sha256_digest_checker')
    flds = sorted(set(ast.unparse(n) for n in ast.walk(f) if isinstance(n, ast.Attribute) and isinstance(n.value, ast.Name) and n.value.id == 'sig')) if f else []
    out.append('def digestFields : List String := [' + ', '.join(lean_str(x) for x in flds) + ']')
    # which signature types the legacy default validator looks at, and what it says about the others
    typ = unknown('?')
    if f:
        conds = [n for n in ast.walk(f) if isinstance(n, ast.If) and mentions(n.test, 'signature_type')]
        if len(conds) == 1:
            c = conds[0]
            rest = c.orelse if c.orelse else [s for s in f.body if s.lineno > c.end_lineno]
            is_true = lambda b: len(b) == 1 and isinstance(b[0], ast.Return) and _is_const(b[0].value, True)
            if is_true(rest) and not is_true(c.body):
                pos, other = canon(c.test), rest
            elif is_true(c.body):
                pos, other = canon(ast.UnaryOp(op=ast.Not(), operand=c.test)), c.body
            else:
                pos, other = 'unknown: ' + canon(c.test), rest
            typ = 'checks when ' + pos + '; otherwise: ' + canon_block(other)
    out.append(f'def digestScope : String := {lean_str(typ)}')
    # the validators the legacy application installs by default
    init = find_func(find_class(t1, 'NDNApp'), '__init__')
    dfl = sorted(ast.unparse(s) for s in ast.walk(init) if isinstance(s, ast.Assign) and ast.unparse(s.targets[0]) in ('self.data_validator', 'self.int_validator')) if init else []
    out.append('def legacyDefaults : List String := [' + ', '.join(lean_str(x) for x in dfl) + ']')
    out += ['', 'end Ndn.Gen.C05', '']
    return '\n'.join(out)
