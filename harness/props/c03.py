"""C03 - every expressed Interest completes exactly once with the right outcome
(src/ndn/appv2.py, src/ndn/app.py, src/ndn/name_tree.py).

A case is an event history on the virtual-time loop, for one front-end:

  {'fe': 'v1'|'v2', 'datas': [{'name': [c,..], 'content': k}, ..],
   'events': [[t, 'x', {'name': [c,..], 'cbp': bool, 'dig': None|k|-1, 'life': ms|None, 'verdict': str, 'lat': ms}],
              [t, 'd', k], [t, 'n', [c,..], dig, reason], [t, 'c', i], [t, 's'], [t, 't'], ...],
   'tie': None | {...}}           (see gen_tie(): a packet in the loop turn of a timer / of a caller's cancellation)

Optional (hardening) fields.  Interest spec: 'ap': None|'e'|'p' (ApplicationParameters absent / present-empty /
b'param'), 'sg': bool (signed, DigestSha256), 'mbf': bool (MustBeFresh), 'nrp': bool (legacy need_raw_packet),
'nr': bool (no_response: honoured by v2, ignored by the legacy front-end), 'defer': ms (the awaitable returned by
express is awaited that much later), 'php': k (caller-supplied digest placeholder inserted at position k of the name),
life 0.  Data: 'fp': FreshnessPeriod.  A name component >= 900 stands for the ParametersSha256DigestComponent of an
Interest with that (ap, sg) on the rest of the name.
Second hardening round.  Interest spec: 'nf' = how the caller spells the name (NAME_FORMS: URI string - also with
upper-case hex digests -, list of bytes / bytearray / memoryview / str components, tuple, encoded name in a bytes /
bytearray / memoryview buffer), 'scr': the caller overwrites its mutable name buffers as soon as express has returned,
'ip': the Interest parameters are handed over as ONE InterestParam object (`interest_param=`) that the caller changes
as soon as express has returned and uses again for its next Interest.  Case: 'rx' = buffer class in which the face
hands packets to the application ('ba' bytearray, 'mv' read-only / 'rwmv' writable memoryview; absent = bytes).
Event [t, 'xr', {'why': .., spec}] = an express the application must refuse (face down / no validator / parameters
without signer / a name that is no name): it raises, nothing is pending, nothing is written (a clock tick to the model).
Events: [t, 'd', k, 'lp'] = the Data arrives wrapped in an LpPacket; [t, 'b', [packet, ..]] = several packets
(['d', k] / ['n', name, dig, reason]) in ONE loop turn.

The model (NdnModel/Pit.lean) covers all of it.  Third hardening round.  Case: 'via' = 'stream' | 'unix': the packets of the history are not handed to face.callback
but written into the byte stream of a real TcpFace / UnixFace whose own run() loop frames them (apphelp.TransportRig);
the packets of a 'b' event are ONE chunk of that stream; 'seg' = the chunk is cut into segments of that many bytes
(0 = not cut), 'gap' = the reader loop runs between two segments.  For every case: the packet handed to the caller
(name, content, raw packet) is kept as bytes when the Interest finishes and compared with what the caller holds when
the history is over.

Events that share a loop turn with each other or with a timer may
run in any order: the model driver answers with the outcome vectors of all linearisations (`lins`), and the
implementation must end in one of them; when there is only one, everything observed must be equal.

Interests are numbered in order of their 'x' events.  `dig`: None = no implicit digest, k = SHA-256 of
Data k, -1 = a digest no Data has.  Times are ms after the start, strictly increasing; before every event
the clock is advanced to its time and every due timer runs to quiescence.
"""
import asyncio
import hashlib

from apphelp import AppRig, TransportRig
from props import pit_extract

PROP = 'C03'
TITLE = 'Every expressed Interest completes exactly once with the right outcome'
LEAN_TARGETS = ['NdnProofs.Props.C03']
THEOREMS = ['Ndn.C03.' + t for t in (
    'refines_spec', 'no_internal_error', 'complete_at_most_once', 'nothing_remains', 'nothing_remains_held',
    'linked_entries_are_waiting',
    'pit_empty_at_quiescence', 'one_data_all_matching_no_others', 'nack_exactly_the_named', 'cancel_only_its_target',
    'tick_fires_due_timers', 'reach_fires_earlier_timers', 'complete_exactly_once_after_shutdown', 'await_le_deadline',
    'complete_exactly_once_after_deadline', 'outcome_correct', 'outcome_correct_no_tie', 'frame',
    'no_response_off_the_books', 'no_response_ignored_v1', 'expiry_cases',
    'tie_allowed_iff', 'tie_turn_orders', 'tie_plain_allowed', 'tie_reachable_exact', 'tie_refines_spec',
    'tie_no_internal_error', 'tie_complete_at_most_once', 'tie_nothing_remains', 'tie_pit_empty_at_quiescence',
    'tie_outcome_correct', 'tie_frame', 'tie_plain_no_tie',
    # the model computes with / is pinned to the tables generated from the source text (lean/NdnGen/C03.lean)
    'default_lifetime', 'gen_lifetimes', 'gen_wait_budget', 'gen_wait_handlers', 'gen_no_response', 'gen_express',
    'gen_remove_pending', 'gen_on_data', 'gen_on_nack', 'gen_clean_up', 'gen_satisfy', 'gen_satisfy_done_guard',
    'gen_nack_interest', 'gen_timeout_cancel', 'gen_data_verdict', 'gen_data_failure', 'gen_table_ok', 'outcome_table')]
PARTIAL = {}
TRUSTED = [
    'C03: lean/NdnGen/C03.lean is regenerated from the source text of appv2.py / app.py / name_tree.py by every run '
    '(harness/props/pit_extract.py, ast only): default lifetimes and how they replace a missing lifetime, the waiting '
    'budget of _wait_for_data (v2: until the deadline, `lifetime <= 0` -> 100 ms; legacy: whole lifetime), no_response, '
    'the delivering verdicts / caught classes of the Data validator call are VALUES THE MODEL COMPUTES WITH; the guard '
    'shapes of InterestTreeNode.satisfy / nack_interest / timeout / cancel (incl. the "future already done" tests), '
    '_remove_pending, _on_data, _on_nack, _clean_up, express_raw_interest and the except clauses around wait_for are '
    'normalised text PINNED by the theorems gen_*. Trusted: the extractor recognises the shape it names (an '
    'unrecognised shape is emitted as unknown and fails the pin; the driver then answers bad-table), and the '
    'normalisation (not pushed into comparisons, commutative operands sorted, len(x)==0 = not x, loop variable E, '
    'logging calls dropped) preserves meaning',
    'C03: asyncio semantics are modelled, not verified: Future set_result/set_exception/cancel, wait_for '
    '(cancels the inner future on timeout and on outer cancellation, Python 3.12 timeouts.timeout; wait_for(fut, 0) on an '
    'unresolved future times out at once), a coroutine body runs at its first await, FIFO ready queue; '
    'pygtrie map semantics (setdefault / prefixes / __delitem__ / get)',
    'C03: time is a virtual clock; `tick t` fires all due timers Interest by Interest (timers of different Interests '
    'commute; all timers of one instant fire together). Events that share a loop turn with a timer or with each other '
    '(`Turn`) are nondeterministic in the model: every order of the events, the timers of the instant after any number '
    'of them (`lins`); the theorems hold for every linearisation and the implementation must end in one of the outcome '
    'vectors the model allows (membership; PIT sizes and validator calls in between are compared only when all '
    'linearisations agree). An await scheduled for the very instant of a caller cancellation precedes it (there must be '
    'a task to cancel)',
    'C03: the instant of the first await of what express returned is part of the history (`defer`; 0 = awaited at '
    'once); before it a caller cannot cancel (the harness has no task to cancel). The unit of the model clock is the '
    'millisecond (v2 grace = 100)',
    'C03: names are lists of generic components, packets enter the model after parse_data/parse_interest/LpPacket '
    'decoding (codec = C01/C07/C10); SHA-256 digests are compared by identity of the Data packet',
]
RULE = ('event histories of 2..5 concurrently pending Interests over a 3-level name tree (same / nested / sibling '
        'names, CanBePrefix, implicit digest right or wrong), Data and Nack packets, caller cancellation, shutdown, '
        'clock ticks, scripted validators (verdict - all ValidResult members, raising, and for v2 values that are no '
        'ValidResult member: False / None / 0 / True / a string -, latency straddling the deadline), both front-ends; '
        'separate stream of same-loop-turn ties: every combination of (deadline | caller cancellation) x (Data | longer '
        'Data | Nack) x every order the loop can produce (reception task on the still pending future; reception task '
        'between the cancellation of the future and the clean-up of the waiting coroutine; one after the other) x '
        'front-end, then random ones; whatever escapes a reception task or reaches the loop\'s exception handler is an '
        'internal error; '
        'hardening streams: Interests with '
        'ApplicationParameters / a signature (name ends in the parameters digest or carries it at a caller-chosen place; '
        'Data with the right / another digest / none), MustBeFresh x FreshnessPeriod, legacy need_raw_packet, Data inside '
        'LpPackets, Nack reasons 0..2^64-1, bursts of Data / Nack in one loop turn, lifetime 0, no_response (both '
        'front-ends), awaits 20..300 ms late (inside and outside the lifetime / the 100 ms grace); histories whose packets arrive '
        'through the real stream transport (TcpFace / UnixFace run() framing an in-memory byte stream: several packets '
        'in one chunk, chunks cut into 1 / 7 / 40 / 1460-byte segments, packets arriving while a validator decides); the '
        'name / content / raw packet handed to the caller are compared again when the history is over. Every case is put to '
        'the model. non-trivial = at least two Interests '
        'and at least one Interest finished by something other than its own timeout; distinct = distinct histories')

def extract(repo):
    """lean/NdnGen/C03.lean from the source text; the gate table of C05 is refreshed with it (same extractor, and
    NdnProofs.Props.C05 shares the PIT model)"""
    _refresh('C05', pit_extract.generate_c05(repo))
    return pit_extract.generate_c03(repo)


def _refresh(prop, text):
    import os
    import lib
    with lib.Lock(os.path.join(lib.LEAN, '.build.lock')):
        lib.write_if_changed(os.path.join(lib.LEAN, 'NdnGen', prop + '.lean'), text)


NAMES = [[1], [1, 2], [1, 3], [1, 2, 4], [1, 2, 5], [1, 3, 4], [6]]
LIVES = [23, 53, 103, 203, 503]
LATS = [0, 0, 0, 0, 0, 14, 44, 104, 304]
V2_VERDICTS = ['PASS'] * 8 + ['ALLOW_BYPASS', 'FAIL', 'TIMEOUT', 'SILENCE', 'RAISE_TIMEOUT', 'RAISE_OTHER',
                              'B_FALSE', 'B_NONE', 'B_ZERO', 'B_TRUE', 'B_STR']
# B_*: a v2 validator that hands back something that is not a ValidResult member (a validator written in the legacy
# bool style, one that falls off its end, one that returns the *name* of a verdict): not PASS / ALLOW_BYPASS, hence a
# validation failure carrying that very value
B_VALUES = {'B_FALSE': False, 'B_NONE': None, 'B_ZERO': 0, 'B_TRUE': True, 'B_STR': 'PASS'}
V1_VERDICTS = ['PASS'] * 7 + ['DEFAULT', 'FAIL', 'FAIL', 'NONE', 'ZERO', 'ONE', 'RAISE_TIMEOUT', 'RAISE_OTHER']
# DEFAULT: no validator is supplied, the application-wide data_validator (sha256_digest_checker) decides; every
# Data of the harness carries a valid DigestSha256 signature, so it accepts (its calls are not logged)
V1_TRUTH = {'PASS': True, 'FAIL': False, 'NONE': None, 'ZERO': 0, 'ONE': 1, 'DEFAULT': True}
T0 = 1000.0
NACK_REASONS = [0, 50, 100, 150]
NACK_ODD = [0, 1, 255, 256, 65535, 65536, 2 ** 32 - 1, 2 ** 32, 2 ** 32 + 50, 2 ** 64 - 1]
PD_BASE = 900
AP_KINDS = [None, 'e', 'p']


def pd_code(ap, sg):
    """name-component code of the ParametersSha256DigestComponent of an Interest with these parameters"""
    # a signed Interest without ApplicationParameters carries an empty ApplicationParameters element on the wire
    return PD_BASE + 2 * AP_KINDS.index(ap or 'e') + (1 if sg else 0)


def pd_split(code):
    k = (code - PD_BASE) % 10
    return AP_KINDS[k // 2], bool(k % 2)


def pd_after(code):
    """how many of the components behind a digest code belong to the Interest it was computed for (a caller-supplied
    placeholder in the middle of the name: code + 10 * that number; 0 = the digest ends the Interest name)"""
    return (code - PD_BASE) // 10


def has_pd(spec):
    return bool(spec.get('ap') or spec.get('sg'))


def eff_name(spec):
    """the name of the Interest as it is on the wire (NDN packet format: an Interest with ApplicationParameters
    carries a ParametersSha256DigestComponent; appended unless the caller supplied a placeholder)"""
    if not has_pd(spec):
        return list(spec['name'])
    c = pd_code(spec.get('ap'), spec.get('sg'))
    if spec.get('php') is not None:
        k = spec['php']
        # the digest of a signed Interest covers the other name components (code + 10 * number of components behind
        # it); that of an unsigned one covers the parameters only: the same bytes wherever it stands
        return list(spec['name'][:k]) + [c + (10 * len(spec['name'][k:]) if spec.get('sg') else 0)] + \
            list(spec['name'][k:])
    return list(spec['name']) + [c]


def verdict_name(types, r):
    """the verdict a ValidationFailure carries: the name of the ValidResult member, or which non-member value it is"""
    if isinstance(r, types.ValidResult):
        return r.name
    for k, v in B_VALUES.items():
        if type(v) is type(r) and v == r:
            return k
    return 'B_?' + repr(r)[:20]


class ScriptedError(Exception):
    """raised by scripted validators; not an internal error of the library"""


# ------------------------------------------------------------------------------------- cases
def _is_prefix(a, b):
    return len(a) <= len(b) and b[:len(a)] == a


def spell(rng, s, p_forms, fe):
    """second hardening round: how the caller spells the name / hands over the Interest parameters"""
    if rng.random() < p_forms:
        s['nf'] = rng.choice(NAME_FORMS)
    if rng.random() < p_forms * 0.6:
        s['ip'] = True
    return s


def gen_history(rng, fe, n_events=None, p_ap=0.10, p_burst=0.03, p_odd=0.02, p_defer=0.0, p_forms=0.0, p_refuse=0.0):
    """p_ap: share of Interests with ApplicationParameters / a signature; p_burst: share of packet events that are
    a burst in one loop turn; p_odd: share of Interests with lifetime 0 / no_response; p_forms: share of Interests
    whose name is spelled in one of NAME_FORMS / whose parameters are one shared InterestParam object (and of cases in
    which the face hands over packets in another buffer class); p_refuse: share of events that are an express the
    application must refuse.  (The last two default to 0 and then draw nothing from rng: C05 shares this generator.)"""
    datas = []
    focus = rng.choice(NAMES[1:6])
    for k in range(rng.randint(2, 4)):
        r = rng.random()
        if r < 0.5:
            nm = focus
        elif r < 0.8:
            nm = rng.choice([n for n in NAMES if _is_prefix(focus, n) or _is_prefix(n, focus)])
        else:
            nm = rng.choice(NAMES)
        d = {'name': nm, 'content': k}
        if rng.random() < 0.3:
            d['fp'] = rng.choice([0, 0, 1000])          # FreshnessPeriod (absent otherwise)
        datas.append(d)
    n_int = rng.randint(2, 5)
    specs = []

    def new_spec():
        r = rng.random()
        if specs and r < 0.55:
            nm = rng.choice(specs)['name']
        elif r < 0.85:
            nm = rng.choice([n for n in NAMES if any(_is_prefix(n, d['name']) for d in datas)] or NAMES)
        else:
            nm = rng.choice(NAMES)
        r = rng.random()
        if r < 0.22:
            cands = [k for k, d in enumerate(datas) if _is_prefix(nm, d['name'])]
            dig = rng.choice(cands) if cands and rng.random() < 0.85 else rng.randrange(len(datas))
        elif r < 0.30:
            dig = -1
        else:
            dig = None
        s = {'name': nm, 'cbp': rng.random() < 0.45, 'dig': dig,
             'life': None if rng.random() < 0.04 else rng.choice(LIVES),
             'verdict': rng.choice(V2_VERDICTS if fe == 'v2' else V1_VERDICTS), 'lat': rng.choice(LATS)}
        if rng.random() < 0.25:
            s['mbf'] = True
        if fe == 'v1' and rng.random() < 0.2:
            s['nrp'] = True
        if rng.random() < p_ap:
            # a parameterised and/or signed Interest: its name ends in the parameters digest
            if fe == 'v2':
                s['ap'], s['sg'] = rng.choice([('e', True), ('p', True), ('p', True), (None, True)])
            else:
                s['ap'], s['sg'] = rng.choice([('e', True), ('p', True), ('p', False), ('e', False), (None, True)])
            s['dig'] = None
            if rng.random() < 0.2:
                # the caller supplies the digest placeholder itself (fixed in /repo: final name carries the digest)
                s['php'] = rng.randrange(len(nm) + 1)
            # the Data that answers it, and sometimes the answer to the same name with other parameters
            full = eff_name(s)
            if not any(d['name'] == full for d in datas):
                datas.append({'name': full, 'content': len(datas)})
            if rng.random() < 0.4:
                other = nm + [pd_code(*rng.choice([('e', True), ('p', True), ('p', False), ('e', False)]))]
                if not any(d['name'] == other for d in datas):
                    datas.append({'name': other, 'content': len(datas)})
        if p_defer and rng.random() < p_defer:
            s['defer'] = rng.choice([20, 60, 150, 300])     # ms between calling express and awaiting what it returned
        r = rng.random()
        if r < p_odd * 0.6:
            s['life'] = 0
        elif r < p_odd:
            s['nr'] = True                                  # honoured by v2, ignored by the legacy front-end
        if p_forms:
            spell(rng, s, p_forms, fe)
        specs.append(s)
        return s

    def a_nack():
        if rng.random() < 0.75:
            s = rng.choice(specs)
            nm, dig = eff_name(s), s['dig']
            if rng.random() < 0.2:
                dig = None if has_pd(s) else rng.choice([None, -1] + list(range(len(datas))))
            if has_pd(s) and rng.random() < 0.2:
                nm = s['name']                    # the same name without the parameters digest: names nobody
        else:
            nm, dig = rng.choice(NAMES), rng.choice([None, None, -1, 0])
        reason = rng.choice(NACK_REASONS) if rng.random() < 0.8 else rng.choice(NACK_ODD)
        if rng.random() < 0.08:
            return ['n', nm, dig, 0, 'bare']
        return ['n', nm, dig, reason]

    def a_data():
        ev = ['d', rng.randrange(len(datas))]
        if rng.random() < 0.15:
            ev.append('lp')
        return ev

    evs = []
    t = 0
    expressed = 0
    n_ev = n_events if n_events is not None else rng.randint(n_int + 2, 12)
    horizon = 0

    def life_of(s):
        return s['life'] if s['life'] is not None else (4000 if fe == 'v2' else 100)
    while len(evs) < n_ev:
        t += rng.choice([10, 10, 20, 30, 50, 100, 200])
        r = rng.random()
        if p_refuse and expressed and rng.random() < p_refuse:
            base = {'name': rng.choice(specs)['name'] if rng.random() < 0.7 else rng.choice(NAMES),
                    'cbp': rng.random() < 0.5, 'dig': None, 'life': rng.choice(LIVES), 'verdict': 'PASS', 'lat': 0}
            if p_forms:
                spell(rng, base, p_forms, fe)
            evs.append([t, 'xr', {'why': rng.choice(REFUSALS[fe]), 'spec': base}])
        elif expressed < n_int and (r < 0.35 or expressed < 2):
            s = new_spec()
            evs.append([t, 'x', s])
            expressed += 1
            horizon = max(horizon, t + s.get('defer', 0) + life_of(s))
        elif r < 0.76 and rng.random() < p_burst:
            # several packets in one loop turn: mostly several Data for one name, sometimes a Nack among them
            pk = [a_data() for _ in range(rng.randint(2, 3))]
            if rng.random() < 0.5:
                same = [k for k, d in enumerate(datas) if d['name'] == datas[pk[0][1]]['name']]
                pk[1] = ['d', rng.choice(same)]
            if rng.random() < 0.3:
                pk[rng.randrange(len(pk))] = a_nack()
            evs.append([t, 'b', pk])
        elif r < 0.62:
            # mostly a Data that matches something pending
            evs.append([t] + a_data())
        elif r < 0.76:
            evs.append([t] + a_nack())
        elif r < 0.88:
            i = rng.randrange(expressed)
            evs.append([t, 'c', i])
            if rng.random() < 0.6:            # cancel, then a late packet for the same name
                t += rng.choice([10, 20])
                s = specs[i]
                if rng.random() < 0.5:
                    evs.append([t, 'n', eff_name(s), s['dig'], 150])
                else:
                    ks = [k for k, d in enumerate(datas) if _is_prefix(eff_name(s), d['name'])]
                    evs.append([t, 'd', rng.choice(ks) if ks else 0])
        elif r < 0.92:
            evs.append([t, 's'])
        else:
            evs.append([t, 't'])
    t_end = max(t, horizon) + 400
    evs.append([t_end - t_end % 10 + 10, 't'])
    case = {'fe': fe, 'datas': datas, 'events': evs, 'tie': None,
            'bad_sig': fe == 'v1' and rng.random() < 0.15}
    if p_forms and rng.random() < p_forms:
        case['rx'] = rng.choice(RX_FORMS)
    return case


def gen_crowd(rng, fe, p_forms=0.2):
    """one crowded node: 3..6 Interests pending at once on ONE name - CanBePrefix and exact, without digest, with the
    digest of one of two Data of that name, of a longer Data, of no Data - plus Interests on the parent and on a longer
    name; then Data for exactly the name / longer / much longer / the parent, Nacks naming the name with and without a
    digest, cancellations, bursts, a rare shutdown.  Both front-ends alike."""
    N = rng.choice([[1, 2], [1, 3], [6, 2]])
    child, deep, par = N + [4], N + [4, 7], N[:1]
    datas = [{'name': N, 'content': 0}, {'name': N, 'content': 1}, {'name': child, 'content': 2},
             {'name': deep, 'content': 3}, {'name': par, 'content': 4}]
    verdicts = V2_VERDICTS if fe == 'v2' else V1_VERDICTS
    specs, evs, t = [], [], 0

    def add(nm, p_cbp, digs):
        nonlocal t
        t += 10
        s = {'name': nm, 'cbp': rng.random() < p_cbp, 'dig': rng.choice(digs),
             'life': rng.choice([53, 203, 203, 503, 503, 1003, None]),
             'verdict': 'PASS' if rng.random() < 0.75 else rng.choice(verdicts), 'lat': rng.choice([0, 0, 0, 0, 14, 104])}
        if fe == 'v1' and rng.random() < 0.15:
            s['nrp'] = True
        spell(rng, s, p_forms, fe)
        specs.append(s)
        evs.append([t, 'x', s])
    order = ['N'] * rng.randint(3, 6) + ['P'] * rng.choice([0, 0, 1, 2]) + ['C'] * rng.choice([0, 0, 1, 2])
    rng.shuffle(order)
    for o in order:
        if o == 'N':
            add(N, 0.5, [None, None, None, None, 0, 0, 1, 2, 3, -1])
        elif o == 'P':
            add(par, 0.8, [None, None, None, 4, 0, -1])
        else:
            add(child, 0.5, [None, None, 2, 3, -1])

    def pkt():
        r = rng.random()
        if r < 0.7:
            q = ['d', rng.choice([0, 0, 1, 1, 2, 2, 3, 4])]
            if rng.random() < 0.12:
                q.append('lp')
            return q
        s = rng.choice(specs)
        dig = s['dig'] if rng.random() < 0.6 else rng.choice([None, None, 0, 1, -1])
        reason = rng.choice(NACK_REASONS) if rng.random() < 0.85 else rng.choice(NACK_ODD)
        return ['n', s['name'], dig, reason]
    for _ in range(rng.randint(3, 8)):
        t += rng.choice([10, 10, 20, 30, 50, 100])
        r = rng.random()
        if r < 0.62:
            evs.append([t] + pkt())
        elif r < 0.74:
            evs.append([t, 'b', [pkt() for _ in range(rng.randint(2, 3))]])
        elif r < 0.9:
            evs.append([t, 'c', rng.randrange(len(specs))])
        elif r < 0.96:
            evs.append([t, 't'])
        else:
            evs.append([t, 's'])
    evs.append([t + 4600 - t % 10, 't'])
    case = {'fe': fe, 'datas': datas, 'events': evs, 'tie': None, 'bad_sig': False}
    if rng.random() < p_forms:
        case['rx'] = rng.choice(RX_FORMS)
    return case


import os
REUSE_FULL = True      # implicit digests / timeouts / cancellations on reused buffers too (the aliasing defects are fixed in /repo)


def gen_reuse(rng, fe):
    """a caller that builds its names in buffers it reuses: 2..4 Interests whose names are given in mutable buffers
    (bytearray components / views of them / an encoded name in a bytearray) that are overwritten as soon as express has
    returned; every one of them is then answered - by its Data or by a Nack - well inside its lifetime.
    (Kept out of this stream, both reported as findings of the unchanged library, candidate_fixes/C03-caller-buffers-
    aliased: an Interest with an implicit digest given in a reused buffer - the pending entry keeps a view of the
    caller's digest bytes and can no longer be satisfied -, and a reused buffer whose Interest ends by timeout or
    cancellation - the clean-up looks the node up under the overwritten name and leaves an empty node behind.)"""
    base = rng.choice([[1], [1, 2], [6]])
    n = rng.randint(2, 4)
    names = [base + [2 + i] for i in range(n)] if rng.random() < 0.7 else [base] * n
    datas = [{'name': nm + ([4] if rng.random() < 0.3 else []), 'content': i} for i, nm in enumerate(names)]
    evs, t = [], 0
    for i, nm in enumerate(names):
        t += 10
        evs.append([t, 'x', {'name': nm, 'cbp': len(datas[i]['name']) > len(nm) or rng.random() < 0.3,
                             'dig': i if REUSE_FULL and rng.random() < 0.3 else None,
                             'life': 103 if REUSE_FULL and rng.random() < 0.3 else 503, 'verdict': 'PASS', 'lat': 0,
                             'nf': rng.choice(MUTABLE_FORMS), 'scr': True}])
        if rng.random() < 0.3:
            evs[-1][2]['ip'] = True
    order = list(range(n))
    rng.shuffle(order)
    for i in order:
        t += rng.choice([10, 20, 50])
        s = evs[i][2]
        if rng.random() < 0.8:
            evs.append([t, 'd', i])
        else:
            evs.append([t, 'n', s['name'], s['dig'], rng.choice(NACK_REASONS)])
    evs.append([t + 1000 - t % 10, 't'])
    return {'fe': fe, 'datas': datas, 'events': evs, 'tie': None, 'bad_sig': False}


TIE_ORDERS = {'timer': ['packet-first', 'packet-last'],
              'cancel': ['packet-first', 'packet-last', 'packet-then', 'then-packet']}


def gen_tie(rng, fe, kind=None, pkt=None, order=None):
    """two or three Interests on one name; at the deadline of the first (or at the instant the caller cancels it)
    a packet for that name (the Data, a longer Data, a Nack) is processed in the same loop turn, in each of the orders
    the loop can produce (see Run.do_tie)"""
    nm = rng.choice(NAMES[1:4])
    datas = [{'name': nm, 'content': 0}, {'name': nm + [4], 'content': 1}]
    n = rng.randint(2, 3)
    evs = []
    t = 0
    for i in range(n):
        t += 10
        evs.append([t, 'x', {'name': nm, 'cbp': rng.random() < 0.5, 'dig': None,
                             'life': 103 if i == 0 else rng.choice([103 - 10 * i, 203, 503]),
                             'verdict': 'PASS', 'lat': rng.choice([0, 0, 14])}])
    kind = kind or rng.choice(['timer', 'cancel'])
    pkt = {None: rng.choice([['d', 0], ['d', 1], ['n', nm, None, 150]]), 'd': ['d', 0], 'D': ['d', 1],
           'n': ['n', nm, None, 150]}[pkt]
    tie = {'kind': kind, 'order': order or rng.choice(TIE_ORDERS[kind]), 'packet': pkt,
           'at': 113 if kind == 'timer' else 60}
    evs.append([1200, 't'])
    return {'fe': fe, 'datas': datas, 'events': evs, 'tie': tie}


def cases(rng, tier):
    n = 1200 if tier == 'quick' else 20000
    for k in range(n):
        yield gen_history(rng, 'v2' if k % 2 == 0 else 'v1')
    # ties: every combination of (timer | caller cancellation) x (Data | longer Data | Nack) x order x front-end,
    # then random ones
    for rep in range(2 if tier == 'quick' else 10):
        for fe in ('v2', 'v1'):
            for kind in ('timer', 'cancel'):
                for pkt in ('d', 'D', 'n'):
                    for order in TIE_ORDERS[kind]:
                        yield gen_tie(rng, fe, kind, pkt, order)
    for k in range(200 if tier == 'quick' else 3000):
        yield gen_tie(rng, 'v2' if k % 2 == 0 else 'v1')
    # hardening streams: parameterised / signed Interests; bursts in one loop turn; lifetime 0 and no_response
    for k in range(300 if tier == 'quick' else 4000):
        yield gen_history(rng, 'v2' if k % 2 == 0 else 'v1', p_ap=0.6, p_burst=0.05, p_odd=0.02)
    for k in range(300 if tier == 'quick' else 4000):
        yield gen_history(rng, 'v2' if k % 2 == 0 else 'v1', p_ap=0.1, p_burst=0.7, p_odd=0.25)
    for k in range(200 if tier == 'quick' else 3000):
        yield gen_history(rng, 'v2' if k % 2 == 0 else 'v1', p_ap=0.05, p_burst=0.03, p_odd=0.0, p_defer=0.5)
    # second hardening round: spellings of the name / shared InterestParam / buffer class of received packets /
    # refused expresses; a crowded node on either front-end; reused name buffers
    for k in range(400 if tier == 'quick' else 6000):
        yield gen_history(rng, 'v2' if k % 2 == 0 else 'v1', p_ap=0.15, p_burst=0.1, p_odd=0.05, p_defer=0.1,
                          p_forms=0.5, p_refuse=0.12)
    for k in range(600 if tier == 'quick' else 10000):
        yield gen_crowd(rng, 'v1' if k % 2 == 0 else 'v2')
    for k in range(150 if tier == 'quick' else 2000):
        yield gen_reuse(rng, 'v1' if k % 2 == 0 else 'v2')
    # third hardening round: the packets of a history reach the application through the REAL stream transport
    # (TcpFace / UnixFace, the library's StreamFace.run reading the byte stream): several packets in one chunk,
    # chunks cut into segments (with and without the reader running in between), packets arriving while validators
    # are still deciding; what the application handed to the caller is looked at again when the history is over
    for k in range(300 if tier == 'quick' else 5000):
        c = gen_history(rng, 'v2' if k % 2 == 0 else 'v1', p_ap=0.1, p_burst=0.5, p_odd=0.1,
                        p_defer=0.1 if k % 3 == 0 else 0.0)
        c.pop('rx', None)
        c['via'] = 'unix' if k % 4 >= 2 else 'stream'
        c['seg'] = [0, 0, 0, 1, 7, 40, 1460][rng.randrange(7)]
        c['gap'] = bool(c['seg']) and rng.random() < 0.5
        yield c
    if tier == 'thorough':
        # all histories of <= 5 events over a two-Interest alphabet (same name), both front-ends
        import itertools
        base = {'name': [1, 2], 'cbp': False, 'dig': None, 'life': 53, 'verdict': 'PASS', 'lat': 0}
        alpha = [['x', dict(base)], ['x', dict(base, lat=104)], ['d', 0], ['n', [1, 2], None, 150], ['c', 0], ['c', 1],
                 ['s'], ['t']]
        for fe in ('v1', 'v2'):
            for ln in range(1, 6):
                for combo in itertools.product(range(len(alpha)), repeat=ln):
                    if sum(1 for a in combo if alpha[a][0] == 'x') > 2 or alpha[combo[0]][0] != 'x':
                        continue
                    evs = [[20 * (j + 1)] + list(alpha[a]) for j, a in enumerate(combo)]
                    evs.append([700, 't'])
                    yield {'fe': fe, 'datas': [{'name': [1, 2], 'content': 0}], 'events': evs, 'tie': None}


def _n_int(evs):
    return sum(1 for e in evs if e[1] == 'x')


def _drop_interest(evs, j):
    """remove the j-th Interest (its 'x' event and cancels naming it), renumbering the others"""
    out, seen = [], 0
    for e in evs:
        if e[1] == 'x':
            if seen != j:
                out.append(e)
            seen += 1
        elif e[1] == 'c':
            if e[2] == j:
                continue
            out.append([e[0], 'c', e[2] - 1 if e[2] > j else e[2]])
        else:
            out.append(e)
    return out


def shrink(case):
    evs = case['events']

    def mk(e2, **kw):
        c = dict(case)
        c['events'] = e2
        c.update(kw)
        return c
    if case.get('bad_sig'):
        yield mk(evs, bad_sig=False)
    if case.get('rx'):
        yield {k: v for k, v in mk(evs).items() if k != 'rx'}
    if case.get('tie') is None:
        for j in range(_n_int(evs)):
            yield mk(_drop_interest(evs, j))
    for i in range(len(evs) - 1):            # keep the final tick
        if evs[i][1] != 'x':
            yield mk(evs[:i] + evs[i + 1:])
    for i, e in enumerate(evs):
        if e[1] == 'b':
            for j in range(len(e[2])):
                rest = e[2][:j] + e[2][j + 1:]
                yield mk(evs[:i] + [[e[0]] + rest[0] if len(rest) == 1 else [e[0], 'b', rest]] + evs[i + 1:])
        if e[1] == 'd' and len(e) > 3:
            yield mk(evs[:i] + [e[:3]] + evs[i + 1:])
        if e[1] == 'x':
            s = e[2]
            for key in ('mbf', 'nrp', 'nr', 'defer', 'nf', 'scr', 'ip'):
                if s.get(key):
                    yield mk(evs[:i] + [[e[0], 'x', {k: v for k, v in s.items() if k != key}]] + evs[i + 1:])
            for key, simple in (('lat', 0), ('verdict', 'PASS'), ('dig', None), ('cbp', False)):
                if s[key] != simple:
                    yield mk(evs[:i] + [[e[0], 'x', dict(s, **{key: simple})]] + evs[i + 1:])
            if s['life'] is None or s['life'] > 103:
                yield mk(evs[:i] + [[e[0], 'x', dict(s, life=103)]] + evs[i + 1:])
    if len(case['datas']) > 1:
        used = {e[2] for e in evs if e[1] == 'd'} | {e[2]['dig'] for e in evs if e[1] == 'x'} | \
               {e[3] for e in evs if e[1] == 'n'}
        for e in evs:
            if e[1] == 'b':
                used |= {q[1] if q[0] == 'd' else q[2] for q in e[2]}
        if case.get('tie'):
            used |= {case['tie']['packet'][1]} if case['tie']['packet'][0] == 'd' else set()
        last = len(case['datas']) - 1
        if last not in used:
            yield mk(evs, datas=case['datas'][:-1])


# -------------------------------------------------------------------------------- implementation
def _lib():
    from ndn import encoding as enc, types
    from ndn.encoding import ndnlp_v2 as ndnlp
    from ndn.security import DigestSha256Signer
    return enc, types, ndnlp, DigestSha256Signer


AP_BYTES = {None: None, 'e': b'', 'p': b'param'}


def pd_digest(enc, base, code):
    """ParametersSha256DigestComponent value, computed here from the NDN packet format (not by the library):
    SHA-256 over ApplicationParameters [, InterestSignatureInfo, InterestSignatureValue]; the DigestSha256 signature
    value is SHA-256 over the other name components, ApplicationParameters and InterestSignatureInfo"""
    ap, sg = pd_split(code)
    params = b'\x24\x05param' if ap == 'p' else b'\x24\x00'
    if not sg:
        return hashlib.sha256(params).digest()
    siginfo = b'\x2c\x03\x1b\x01\x00'
    h = hashlib.sha256()
    for c in base:
        h.update(bytes(c))
    h.update(params + siginfo)
    return hashlib.sha256(params + siginfo + b'\x2e\x20' + h.digest()).digest()


def mk_name(enc, comps, digest=None):
    nm = []
    for i, c in enumerate(comps):
        if c < PD_BASE:
            nm.append(enc.Component.from_str('c%d' % c))
        else:
            # the digest of the Interest whose name is what precedes the code (+ pd_after(c) components behind it)
            base = [enc.Component.from_str('c%d' % x)
                    for x in list(comps[:i]) + list(comps[i + 1:i + 1 + pd_after(c)]) if x < PD_BASE]
            nm.append(enc.Component.from_bytes(pd_digest(enc, base, c), enc.Component.TYPE_PARAMETERS_SHA256))
    if digest is not None:
        nm.append(enc.Component.from_bytes(digest, enc.Component.TYPE_IMPLICIT_SHA256))
    return nm


def mk_interest_wire(enc, Signer, comps, digest=None):
    """an Interest with this name as a forwarder would return it inside a Nack"""
    par = enc.InterestParam(nonce=7, lifetime=1000)
    pds = [c for c in comps if c >= PD_BASE]
    if not pds:
        return bytes(enc.make_interest(mk_name(enc, comps, digest), par))
    ap, sg = pd_split(pds[0])
    ph = enc.Component.from_bytes(bytes(32), enc.Component.TYPE_PARAMETERS_SHA256)
    nm = [ph if c >= PD_BASE else enc.Component.from_str('c%d' % c) for c in comps]
    if digest is not None:
        nm.append(enc.Component.from_bytes(digest, enc.Component.TYPE_IMPLICIT_SHA256))
    w = bytes(enc.make_interest(nm, par, AP_BYTES[ap] if ap else None, signer=Signer() if sg else None))
    # the digest component is the one mk_name gives this code (they differ only for names no real Interest has:
    # components behind the digest that the digest does not cover)
    i = next(j for j, c in enumerate(comps) if c >= PD_BASE)
    got = bytes(enc.parse_interest(w)[0][i])
    want = bytes(mk_name(enc, comps)[i])
    return w.replace(got, want, 1) if got != want else w


def lp_wrap(ndnlp, wire):
    pkt = ndnlp.LpPacket()
    pkt.lp_packet = ndnlp.LpPacketValue()
    pkt.lp_packet.pit_token = b'\x01\x02\x03\x04'
    pkt.lp_packet.fragment = wire
    return bytes(pkt.encode())


def mk_nack(enc, ndnlp, interest_wire, reason):
    pkt = ndnlp.LpPacket()
    pkt.lp_packet = ndnlp.LpPacketValue()
    pkt.lp_packet.nack = ndnlp.NetworkNack()
    pkt.lp_packet.nack.nack_reason = reason
    pkt.lp_packet.fragment = interest_wire
    return bytes(pkt.encode())


NAME_FORMS = ['uri', 'uri-uc', 'bytes', 'ba', 'mv', 'rwmv', 'tuple', 'mixed', 'wire', 'wire-ba', 'wire-mv', 'wire-rwmv']
MUTABLE_FORMS = ['ba', 'rwmv', 'wire-ba', 'wire-rwmv']
REFUSALS = {'v2': ['down', 'noval', 'nosigner', 'badname', 'badcomp'], 'v1': ['down', 'badname', 'badcomp']}
RX_FORMS = ['ba', 'mv', 'rwmv']


def name_form(enc, nm, how):
    """the caller-side object for the name `nm` (list of encoded components); returns (object, mutable buffers)"""
    import re
    comps = [bytes(c) for c in nm]
    if how is None:
        return nm, []
    if how in ('uri', 'uri-uc'):
        u = enc.Name.to_str(comps)
        if how == 'uri-uc':
            u = re.sub(r'(sha256digest=|params-sha256=)([0-9a-f]+)', lambda m: m.group(1) + m.group(2).upper(), u)
        return u, []
    if how == 'bytes':
        return comps, []
    if how == 'ba':
        bas = [bytearray(c) for c in comps]
        return bas, bas
    if how == 'mv':
        return [memoryview(c) for c in comps], []
    if how == 'rwmv':
        bas = [bytearray(c) for c in comps]
        return [memoryview(b) for b in bas], bas
    if how == 'tuple':
        return tuple(comps), []
    if how == 'mixed':
        # generic components as text (a str element of a list is the component's text, not its URI form)
        return [bytes(enc.Component.get_value(c)).decode() if i % 2 == 0 and enc.Component.get_type(c) == 8 else c
                for i, c in enumerate(comps)], []
    wire = bytes(enc.Name.to_bytes(comps))
    if how == 'wire':
        return wire, []
    if how == 'wire-mv':
        return memoryview(wire), []
    ba = bytearray(wire)
    if how == 'wire-ba':
        return ba, [ba]
    if how == 'wire-rwmv':
        return memoryview(ba), [ba]
    raise ValueError(how)


class Run:
    """one history on a fresh application; shared with C05"""

    def __init__(self, case):
        self.case = case
        self.fe = case['fe']

    def digest_of(self, dig):
        if dig is None:
            return None
        if dig == -1 or dig >= len(self.wires):
            return hashlib.sha256(b'no such packet %d' % dig).digest()
        return hashlib.sha256(self.wires[dig]).digest()

    def now(self):
        return int(round((self.rig.loop.time() - T0) * 1000))

    def data_id(self, content):
        try:
            b = bytes(content)
            return int(b[1:]) if b[:1] == b'D' else -1
        except Exception:       # noqa
            return -1

    def validator(self, i, spec):
        enc, types, _, _ = _lib()
        run = self
        lat, verdict = spec['lat'], spec['verdict']
        if verdict == 'DEFAULT':
            return None

        async def body(sig):
            d = run.sig2data.get(bytes(sig.signature_value_buf) if sig.signature_value_buf is not None else b'', -1)
            run.vcalls.append([i, d, run.now()])
            if lat:
                await asyncio.sleep(lat / 1000.0)
            if verdict == 'RAISE_TIMEOUT':
                raise TimeoutError()
            if verdict == 'RAISE_OTHER':
                raise ScriptedError()
        if self.fe == 'v2':
            async def v2(name, sig, ctx):
                await body(sig)
                return B_VALUES[verdict] if verdict in B_VALUES else types.ValidResult[verdict]
            return v2

        async def v1(name, sig):
            await body(sig)
            return V1_TRUTH[verdict]
        return v1

    def express_args(self, spec, i):
        """(name object, mutable buffers of the caller, keyword arguments) of the express call for `spec`"""
        enc, _, _, Signer = _lib()
        comps = list(spec['name'])
        nm = mk_name(enc, comps)
        if spec.get('php') is not None:
            nm.insert(spec['php'], enc.Component.from_bytes(bytes(32), enc.Component.TYPE_PARAMETERS_SHA256))
        if spec['dig'] is not None:
            nm.append(enc.Component.from_bytes(self.digest_of(spec['dig']), enc.Component.TYPE_IMPLICIT_SHA256))
        nm, scribble = name_form(enc, nm, spec.get('nf'))
        kw = {'lifetime': spec['life'], 'can_be_prefix': spec['cbp'], 'nonce': 1000 + i}
        if spec.get('mbf'):
            kw['must_be_fresh'] = True
        if spec.get('ip'):
            # the caller keeps ONE InterestParam object for all its Interests and passes it as `interest_param=`
            ip = self.shared_ip = self.shared_ip or enc.InterestParam()
            ip.lifetime, ip.can_be_prefix, ip.nonce = spec['life'], spec['cbp'], 1000 + i
            ip.must_be_fresh = bool(spec.get('mbf'))
            kw = {'interest_param': ip}
        ap = AP_BYTES[spec.get('ap')]
        if self.fe == 'v2':
            if ap is not None:
                kw['app_param'] = ap
            if spec.get('sg'):
                kw['signer'] = Signer()
        else:
            if ap is not None:
                kw['app_param'] = ap
                if not spec.get('sg'):
                    kw['signer'] = None        # an unsigned parameterised Interest
            elif spec.get('sg'):
                kw['signer'] = Signer()
            if spec.get('nrp'):
                kw['need_raw_packet'] = True
        return nm, scribble, kw

    def after_express(self, spec, scribble):
        """what the caller does as soon as express has returned: reuse its buffers / its InterestParam object"""
        if spec.get('scr'):
            for b in scribble:
                b[:] = b'\xff' * len(b)
        if spec.get('ip') and self.shared_ip is not None:
            ip = self.shared_ip
            ip.can_be_prefix, ip.must_be_fresh, ip.lifetime, ip.nonce = not spec['cbp'], not spec.get('mbf'), 7, 1

    def express(self, spec):
        i = len(self.tasks)
        nm, scribble, kw = self.express_args(spec, i)
        app, val = self.rig.app, self.validator(i, spec)
        self.specs.append(spec)
        if spec.get('nr') and self.fe == 'v1':
            kw['no_response'] = True                        # not a parameter of the legacy front-end: ignored
        if spec.get('nr') and self.fe == 'v2':
            # v2 no_response: the Interest is sent, nothing is returned and nothing is pending
            try:
                r = self.rig.loop.call_now(lambda: app.express(nm, val, no_response=True, **kw))
                self.noresp[i] = ['noresp', self.now()] if r is None else ['internal', 'Returned' + type(r).__name__, self.now()]
                if asyncio.iscoroutine(r):
                    r.close()
            except Exception as e:       # noqa
                self.noresp[i] = ['internal', type(e).__name__, self.now()]
            self.tasks.append(None)
            self.after_express(spec, scribble)
            return

        if spec.get('defer'):
            # the Interest is sent now; what express returned is awaited later (see await_deferred)
            try:
                if self.fe == 'v2':
                    co = self.rig.loop.call_now(lambda: app.express(nm, val, **kw))
                else:
                    co = self.rig.loop.call_now(lambda: app.express_interest(nm, validator=val, **kw))
            except Exception as e:       # noqa  (express itself failed: the Interest ends with that internal error)
                async def co(e=e):
                    raise e
                co = co()
            self.tasks.append(None)
            self.deferred.append([self.now() + spec['defer'], i, co])
            self.after_express(spec, scribble)
            return

        async def go():
            if self.fe == 'v2':
                co = app.express(nm, val, **kw)
            else:
                co = app.express_interest(nm, validator=val, **kw)
            self.after_express(spec, scribble)
            return await co
        task = self.rig.loop.create_task(go())
        self.tasks.append(task)
        task.add_done_callback(lambda _t, i=i: self.mark_done(i, _t))
        self.rig.loop.settle()

    def refuse(self, ev):
        """an express the application must refuse: whatever it does, it is recorded"""
        _, types, _, Signer = _lib()
        why, spec = ev['why'], ev['spec']
        app, loop, face = self.rig.app, self.rig.loop, self.rig.face
        nm, scribble, kw = self.express_args(spec, 900 + len(self.refused))

        async def val(*a):
            return types.ValidResult.PASS if self.fe == 'v2' else True
        if why == 'noval':
            val = None
        elif why == 'nosigner':
            kw['app_param'] = b'param'
            kw.pop('signer', None)
        elif why == 'badname':
            nm = 42
        elif why == 'badcomp':
            nm = list(nm) + [3.5] if isinstance(nm, (list, tuple)) else [nm, 3.5]
        if why == 'down':
            face.running = False
        try:
            if self.fe == 'v2':
                r = loop.call_now(lambda: app.express(nm, val, **kw))
            else:
                r = loop.call_now(lambda: app.express_interest(nm, validator=val, **kw))
            res = 'accepted'
            if asyncio.iscoroutine(r):
                r.close()
        except Exception as e:       # noqa
            res = type(e).__name__
        finally:
            face.running = True
        self.refused.append([why, res])

    def await_deferred(self, upto):
        """start awaiting every deferred Interest whose time has come (at or before `upto` ms)"""
        while self.deferred and min(d[0] for d in self.deferred) <= upto:
            d = min(self.deferred, key=lambda x: (x[0], x[1]))
            self.deferred.remove(d)
            when, i, co = d
            self.rig.loop.advance(T0 + when / 1000.0)

            async def go(co=co):
                return await co
            task = self.rig.loop.create_task(go())
            self.tasks[i] = task
            task.add_done_callback(lambda _t, i=i: self.mark_done(i, _t))
            self.rig.loop.settle()

    def returned_bytes(self, t):
        """what the caller holds once its Interest has finished with a Data packet (or a validation failure carrying
        one), as plain bytes: [name, content(, raw packet)]; None when it holds no packet"""
        enc, types, _, _ = _lib()
        try:
            if t.cancelled():
                return None
            e = t.exception()
            if e is None:
                r = t.result()
                out = [bytes(enc.Name.to_bytes(r[0])), bytes(r[1] if self.fe == 'v2' else r[2])]
                if self.fe == 'v1' and len(r) == 4:
                    out.append(bytes(r[3]))
                return out
            if isinstance(e, types.ValidationFailure):
                return [bytes(enc.Name.to_bytes(e.name)), bytes(e.content) if e.content is not None else b'']
        except Exception as x:      # noqa
            return ['unreadable', type(x).__name__]
        return None

    def mark_done(self, i, t):
        self.done_at[i] = self.now()
        self.held[i] = self.returned_bytes(t)         # looked at again when the history is over (outcome)

    def feed_stream(self, blob):
        """the peer's bytes reach the real stream face: in one chunk, or cut into segments of case['seg'] bytes (with
        case['gap'] the reader loop runs between two segments)"""
        seg, r = self.case.get('seg') or 0, self.rig.face.reader
        if seg <= 0:
            r.feed_data(bytes(blob))
            return
        for p in range(0, len(blob), seg):
            r.feed_data(bytes(blob[p:p + seg]))
            if self.case.get('gap'):
                self.rig.loop.settle()

    def packet(self, p):
        """wire of a scripted packet: ['d', k] or ['n', name, dig, reason]"""
        enc, _, ndnlp, _ = _lib()
        if p[0] == 'd':
            if p[1] >= len(self.wires):
                return None
            return lp_wrap(ndnlp, self.wires[p[1]]) if len(p) > 2 and p[2] == 'lp' else self.wires[p[1]]
        _, _, _, Signer = _lib()
        # ['n', name, dig, 0, 'bare']: the Nack header carries no NackReason element (NDNLPv2: reason None = 0)
        return mk_nack(enc, ndnlp, mk_interest_wire(enc, Signer, p[1], self.digest_of(p[2])),
                       None if len(p) > 4 and p[4] == 'bare' else p[3])

    def pit(self):
        app = self.rig.app
        return app._pit if self.fe == 'v2' else app._int_tree

    def observe(self):
        vals = list(self.pit().values())
        return [len(vals), sum(len(n.pending_list) for n in vals), len(self.internal_errors())]

    def internal_errors(self):
        return [e for e in self.rig.loop.errors if e[0] != 'ScriptedError']

    def outcome(self, i):
        _, types, _, _ = _lib()
        t = self.tasks[i]
        if t is None:
            return self.noresp.get(i, ['pending'])
        if not t.done():
            return ['pending']
        at = self.done_at.get(i)
        if t.cancelled():
            return ['cancelled', at]
        e = t.exception()
        if e is None:
            r = t.result()
            d = self.data_id(r[1] if self.fe == 'v2' else r[2])
            # the packet the caller was given is still that packet now that the history is over (later packets have
            # arrived since), and it is the Data it claims to be: name and content of one and the same Data
            if self.held.get(i) != self.returned_bytes(t):
                return ['internal', 'ReturnedPacketChangedAfterCompletion', at]
            if 0 <= d < len(self.wires) and self.held[i][0] != self.wire_names[d]:
                return ['internal', 'ReturnedNameIsNotTheDataName', at]
            if self.fe == 'v1' and bool(self.specs[i].get('nrp')) != (len(r) == 4):
                return ['internal', 'ResultShape%d' % len(r), at]
            if self.fe == 'v1' and len(r) == 4 and not (0 <= d < len(self.wires) and bytes(r[3]) == self.wires[d]):
                return ['internal', 'RawPacketIsNotTheData', at]
            return ['data', d, at]
        if isinstance(e, types.InterestNack):
            return ['nack', e.reason, at]
        if isinstance(e, types.InterestTimeout):
            return ['timeout', at]
        if isinstance(e, types.InterestCanceled):
            return ['cancelled', at]
        if isinstance(e, types.ValidationFailure):
            if self.held.get(i) != self.returned_bytes(t):
                return ['internal', 'ReturnedPacketChangedAfterCompletion', at]
            return ['valfail', self.data_id(e.content), verdict_name(types, e.result), at]
        if isinstance(e, (ScriptedError, TimeoutError)):
            return ['verr', at]
        return ['internal', type(e).__name__, at]

    def receive(self, wire):
        """hand one packet to the application as the stream / UDP faces do (one task per packet, not awaited by
        anybody); the task is kept so that whatever escapes it is seen"""
        if self.case.get('via'):
            # through the real transport: the library's own StreamFace.run cuts the byte stream into packets and
            # starts the reception tasks itself (what escapes them reaches the loop's exception handler)
            self.feed_stream(wire)
            return None
        rx = self.case.get('rx')
        buf = wire if rx is None else bytearray(wire) if rx == 'ba' else memoryview(wire) if rx == 'mv' else \
            memoryview(bytearray(wire))
        t = self.rig.loop.create_task(self.rig.face.callback(self.rig._typ(wire), buf))
        self.rx_tasks.append(t)
        return t

    def do_tie(self, tie):
        """make the packet and the timer (or the caller's cancellation) share one loop turn.
        timer: 'packet-first' = the reception task runs on the still pending future, then the timer handle;
               'packet-last'  = the timer handle has cancelled the future, the reception task runs before the waiting
                                coroutine has cleaned up.
        cancel: 'packet-first' = the reception task is scheduled, the caller cancels before it runs (the future is
                                cancelled, the entry still listed when the packet is handled);
                'packet-last'  = the caller cancels, the reception task is scheduled behind the coroutine's wake-up;
                'packet-then' / 'then-packet' = one after the other, each run to quiescence, same instant."""
        loop = self.rig.loop
        wire = self.packet(tie['packet'])
        when = T0 + tie['at'] / 1000.0

        def inject():
            self.receive(wire)

        def other():
            if tie['kind'] == 'cancel' and self.tasks and self.tasks[0] is not None:
                self.tasks[0].cancel()
        if tie['kind'] == 'timer':
            # run everything strictly before the deadline, then put clock on the deadline without spinning the loop
            loop.advance(when - 0.0005)
            if tie['order'] == 'packet-first':
                inject()                       # loop turn: packet task step, then the due timer handle
            else:
                loop.call_soon(inject)         # as a reader callback: the packet task runs between the timer handle
                #                                (future cancelled) and the resumption of the waiting coroutine
            loop._vt = max(loop._vt, when + 1e-9)
        else:
            loop.advance(when)
            if tie['order'] == 'packet-first':
                inject()
                other()
            elif tie['order'] == 'packet-then':
                inject()
                loop.settle()
                other()
            elif tie['order'] == 'then-packet':
                other()
                loop.settle()
                inject()
            else:
                other()
                inject()
        loop.settle()

    def run(self):
        enc, types, ndnlp, Signer = _lib()
        case = self.case
        with (TransportRig(self.fe, via=case['via'], t0=T0) if case.get('via') else AppRig(self.fe, t0=T0)) as rig:
            self.rig = rig
            self.held = {}
            self.wires = [bytes(enc.make_data(mk_name(enc, d['name']), enc.MetaInfo(freshness_period=d.get('fp')),
                                              b'D%d' % d['content'], signer=Signer())) for d in case['datas']]
            if case.get('bad_sig'):
                # every Data carries a corrupted DigestSha256 signature (matters to the legacy default validator only)
                self.wires = [w[:-1] + bytes([w[-1] ^ 0xff]) for w in self.wires]
            self.sig2data = {}
            self.wire_names = []
            for k, w in enumerate(self.wires):
                dn, _, _, sig = enc.parse_data(w)
                self.wire_names.append(bytes(enc.Name.to_bytes(dn)))
                self.sig2data[bytes(sig.signature_value_buf)] = case['datas'][k]['content']
            self.tasks, self.specs, self.done_at, self.vcalls, steps = [], [], {}, [], []
            self.noresp = {}
            self.deferred = []
            self.rx_tasks = []
            self.shared_ip = None
            self.refused = []
            tie = case.get('tie')
            tie_done = False
            for ev in case['events']:
                if tie and not tie_done and ev[0] > tie['at']:
                    self.do_tie(tie)
                    tie_done = True
                self.await_deferred(ev[0])
                rig.loop.advance(T0 + ev[0] / 1000.0)
                k = ev[1]
                if k == 'x':
                    self.express(ev[2])
                elif k == 'xr':
                    self.refuse(ev[2])
                elif k == 'd':
                    if ev[2] < len(self.wires):
                        self.receive(self.packet(ev[1:]))
                        rig.loop.settle()
                elif k == 'n':
                    self.receive(self.packet(ev[1:]))
                    rig.loop.settle()
                elif k == 'b':
                    # as a stream face does when one read holds several packets: one task per packet, one loop turn
                    ws = [w for w in (self.packet(q) for q in ev[2]) if w is not None]
                    if case.get('via'):
                        if ws:
                            self.feed_stream(b''.join(ws))      # ONE chunk of the byte stream holds all of them
                    else:
                        for w in ws:
                            self.receive(w)
                    rig.loop.settle()
                elif k == 'c':
                    if ev[2] < len(self.tasks) and self.tasks[ev[2]] is not None:
                        self.tasks[ev[2]].cancel()
                        rig.loop.settle()
                elif k == 's':
                    rig.loop.call_now(rig.app._clean_up)
                steps.append(self.observe())
            # what escaped a reception task (nobody awaits those: the loop would only log it)
            receive_raised = [type(t.exception()).__name__ for t in self.rx_tasks
                              if t.done() and not t.cancelled() and t.exception() is not None]
            receive_raised += ['NeverFinished' for t in self.rx_tasks if not t.done()]
            res = {'steps': steps, 'ints': [self.outcome(i) for i in range(len(self.tasks))],
                   'sent': len(rig.face.sent),
                   'vcalls': sorted(self.vcalls), 'loop_errors': [list(e) for e in self.internal_errors()],
                   'receive_raised': receive_raised}
            if self.refused:
                res['refused'] = self.refused
            self.finish(res)
            return res

    def finish(self, res):
        pass


def run_impl(case):
    return Run(case).run()


# ------------------------------------------------------------------------------------- model
def _nm(comps):
    return '.'.join(str(c) for c in comps) if comps else '~'


def _dg(dig):
    return '~' if dig is None else str(0 if dig == -1 else dig + 1)


def model_verdict(fe, v):
    if fe == 'v1':
        return {'NONE': 'FAIL', 'ZERO': 'FAIL', 'ONE': 'PASS', 'DEFAULT': 'PASS'}.get(v, v)
    return 'OTHER' if v in B_VALUES else v


def eff_verdict(case, spec):
    """'DEFAULT' (legacy, no validator supplied): what sha256_digest_checker says about the Data of this case"""
    if spec['verdict'] == 'DEFAULT':
        return 'FAIL' if case.get('bad_sig') else 'PASS'
    return spec['verdict']


def lat_of(spec):
    return 0 if spec['verdict'] == 'DEFAULT' else spec['lat']


def life_of(fe, spec):
    # the property's reading of a missing lifetime (oracle side; the MODEL takes the defaults from the generated table:
    # the history line carries `~` for a missing lifetime, see model_events)
    return spec['life'] if spec['life'] is not None else (4000 if fe == 'v2' else 100)


def _pkt_tok(case, q):
    """model token of a scripted packet ['d', k, ...] / ['n', name, dig, reason, ...]; None = nothing arrives"""
    if q[0] == 'd':
        if q[1] >= len(case['datas']):
            return None
        d = case['datas'][q[1]]
        return f"d:{_nm(d['name'])}:{q[1] + 1}:{d['content']}"
    return f"n:{_nm(q[1])}:{_dg(q[2])}:{q[3]}"


def model_events(case):
    """the history as a list of turns `<t>@<ev>+<ev>..`: the events that share the loop turn of instant t.
    A burst is one turn; the packet (and the caller's cancellation) of a tie case is a turn at the tie's instant -
    which is the deadline of the first Interest when the tie is with the timer."""
    fe = case['fe']
    toks = []
    tie = case.get('tie')
    tie_done = False
    for ev in case['events']:
        t, k = ev[0], ev[1]
        if tie and not tie_done and t > tie['at']:
            evs = (['c:0'] if tie['kind'] == 'cancel' else []) + [_pkt_tok(case, tie['packet'])]
            toks.append(f"{tie['at']}@" + '+'.join(e for e in evs if e))
            tie_done = True
        if k == 'x':
            s = ev[2]
            toks.append(f"{t}@x:{_nm(eff_name(s))}:{_dg(s['dig'])}:{1 if s['cbp'] else 0}:{'~' if s['life'] is None else s['life']}:"
                        f"{model_verdict(fe, eff_verdict(case, s))}:{lat_of(s)}:{s.get('defer') or 0}:"
                        f"{1 if s.get('nr') else 0}")
        elif k in ('d', 'n'):
            toks.append(f"{t}@{_pkt_tok(case, ev[1:]) or 't'}")
        elif k == 'b':
            toks.append(f"{t}@" + ('+'.join(x for x in (_pkt_tok(case, q) for q in ev[2]) if x) or 't'))
        elif k == 'c':
            toks.append(f'{t}@c:{ev[2]}')
        elif k == 's':
            toks.append(f'{t}@s')
        else:
            toks.append(f'{t}@t')
    return toks


def oracle_only(case):
    """cases the model does not express: none.  (Ties, bursts, lifetime 0, no_response and late awaits are inside the
    model: NdnModel/Pit.lean `Turn` / `lins`, `expiry`, `silent`, `held`.)"""
    return False


def loose(case):
    """cases in which only the vector of final outcomes is compared with the model (as a member of the set the model
    allows): the tie stream, whose runner arranges the order inside the loop turn by hand (PIT sizes and validator
    calls in between depend on that order)"""
    return bool(case.get('tie'))


def model_line(case, impl):
    if oracle_only(case):
        return None
    toks = model_events(case)
    return f"C03 {case['fe']} {';'.join(toks) if toks else '.'}"


def parse_state(s):
    if s == 'W' or s.startswith('V') or s.startswith('H'):
        return ['pending']
    body, at = s.split('@')
    at = int(at)
    c = body[0]
    if c == 'D':
        return ['data', int(body[1:]), at]
    if c == 'N':
        return ['nack', int(body[1:]), at]
    if c == 'T':
        return ['timeout', at]
    if c == 'C':
        return ['cancelled', at]
    if c == 'F':
        d, v = body[1:].split('.')
        return ['valfail', int(d), v, at]
    if c == 'E':
        return ['verr', at]
    if c == 'R':
        return ['noresp', at]
    raise ValueError(s)


def _parse_ints(txt):
    return [] if txt == '.' else [parse_state(x.split('=')[1]) for x in txt.split()]


def model_obs(answer, case, impl):
    """the model's answer: PIT sizes per turn, final outcomes and validator calls of the plain reading (timers first,
    events as listed), and the final outcome vectors of the other linearisations.  When there are others (a packet or
    a cancellation shares its instant with a timer or with another event and the order matters) - and in the tie
    stream - the implementation must end in one of the allowed vectors; otherwise everything must be equal."""
    assert answer.startswith('ok '), answer
    steps, ints, vcalls, alts = [p.strip() for p in answer[3:].split('|')]
    specs = [e[2] for e in case['events'] if e[1] == 'x']
    dflt = {i for i, sp in enumerate(specs) if sp['verdict'] == 'DEFAULT'}      # calls of the default validator are not logged
    vc = [] if vcalls == '.' else sorted([int(x) for x in s.split('.')] for s in vcalls.split())
    def own(vec):
        # `OTHER` = the value the validator of that Interest returned (not a ValidResult member)
        return [o[:2] + [specs[i]['verdict']] + o[3:] if o[0] == 'valfail' and o[2] == 'OTHER' and i < len(specs)
                else o for i, o in enumerate(vec)]
    plain = own(_parse_ints(ints))
    allowed = [plain] + ([] if alts == '.' else [own(_parse_ints(a.strip())) for a in alts.split(';')])
    if len(allowed) > 1 or loose(case):
        got = impl['ints']
        return {'steps': impl['steps'], 'ints': got if got in allowed else plain, 'vcalls': impl['vcalls']}
    steps = [] if steps == '.' else [[int(x) for x in s.split('/')] for s in steps.split()]
    if case.get('tie'):
        steps = steps[:-2] + steps[-1:]          # unreachable (loose), kept for symmetry with model_events
    return {'steps': steps, 'ints': plain, 'vcalls': [c for c in vc if c[0] not in dflt]}


def impl_obs(impl):
    return {'steps': impl['steps'], 'ints': impl['ints'], 'vcalls': impl['vcalls']}


# ------------------------------------------------------------------------------------- oracle
def spec_matches(spec, data, k):
    """the property statement: same name, or a longer name when CanBePrefix is set, and the packet hash when the
    Interest carries an implicit digest"""
    nm, dn = eff_name(spec), data['name']
    if not (nm == dn or (spec['cbp'] and len(dn) > len(nm) and dn[:len(nm)] == nm)):
        return False
    return spec['dig'] is None or spec['dig'] == k


V2_ACCEPT = ('PASS', 'ALLOW_BYPASS')
V2_LATE_AWAIT_GRACE = 100      # ms: appv2._wait_for_data, documented in its comment ("should not be considered as an error")


def accepting(fe, verdict):
    return verdict in V2_ACCEPT if fe == 'v2' else bool(V1_TRUTH.get(verdict, False))


def spec_allowed(case, i, strict, enforce=None):
    """allowed final outcomes of Interest i, computed from the history by the property statement alone: a small
    nondeterministic automaton per Interest (waiting -> validating -> finished) that looks only at this Interest's
    own parameters and at the events.  Returns a list of outcome patterns (None = any value).
    `strict` (C05) fixes what the validator's verdict and latency lead to; without it (C03, whose statement does
    not speak about validators) everything a validator may cause is allowed once a matching Data arrived in time.
    A shutdown while the validator runs may cancel the Interest or leave it to the Data's outcome."""
    fe = case['fe']
    evs = case['events']
    pos = [j for j, e in enumerate(evs) if e[1] == 'x'][i]
    spec = dict(evs[pos][2])
    spec['lat'] = lat_of(spec)
    spec['verdict'] = eff_verdict(case, spec)
    dl = evs[pos][0] + life_of(fe, spec)
    if spec.get('nr') and fe == 'v2':
        # no_response: nothing is awaited, so nothing finishes; the Interest is off the books at once
        # (the legacy front-end has no such switch: an ordinary Interest)
        return [['noresp', evs[pos][0]]]
    if (fe == 'v2' and spec['life'] == 0) or spec.get('defer'):
        # a late await (the legacy front-end starts its clock at the first await, the current one gives a grace
        # period: DESIGN section 7, C03, spec decisions) is judged only for 'finishes exactly once, with an outcome
        # the history can justify, no internal error' - except that a matching Data with an accepting, immediate
        # validator that is the first thing to happen to the Interest, within its lifetime, IS its outcome
        out = [['timeout', None]]
        first = True
        # The current front-end keeps the deadline it computed when the Interest was expressed: an await that starts
        # before the deadline waits until the deadline, one that starts later gets the documented 100 ms grace.  So a
        # packet that arrives after that instant finds the Interest finished (timeout) - it cannot be its outcome.
        # (The legacy front-end starts its clock at the first await: spec decision, judged leniently.)
        last = None
        if fe == 'v2' and spec.get('defer'):
            aw = evs[pos][0] + spec['defer']
            last = dl if aw < dl else aw + V2_LATE_AWAIT_GRACE
        for e in evs[pos + 1:]:
            if last is not None and e[0] > last and e[1] in ('d', 'n', 'b'):
                continue
            if e[1] == 'd' and e[2] < len(case['datas']) and spec_matches(spec, case['datas'][e[2]], e[2]):
                d = case['datas'][e[2]]['content']
                if first and spec.get('defer') and e[0] < dl and accepting(fe, spec['verdict']) and not spec['lat']:
                    return [['data', d, None]]
                out += [r[:-1] + [None] for r in _verdict_outcomes(fe, spec, d, None, strict) if r is not None]
                first = False
            elif e[1] == 'n' and e[2] == eff_name(spec) and e[3] == spec['dig']:
                out.append(['nack', e[4], None])
                first = False
            elif (e[1] == 'c' and e[2] == i) or e[1] == 's':
                out.append(['cancelled', None])
                first = False
            elif e[1] == 'b':
                first = False
        return out

    def timers(cfg, t):
        """cfg -> list of cfgs after every timer due at or before t"""
        if cfg[0] == 'W':
            return [('F', ['timeout', dl])] if dl <= t else [cfg]
        if cfg[0] == 'V':
            _, d, fin, enforce = cfg
            res = _verdict_outcomes(fe, spec, d, fin, strict)
            out = []
            for r in res:
                if r is None or (enforce and fin >= dl):        # nothing but the deadline ends it
                    out.append(('F', ['timeout', dl]) if dl <= t else cfg)
                else:
                    out.append(('F', r) if fin <= t else cfg)
            return out
        return [cfg]

    cfgs = [('W',)]
    for e in evs[pos + 1:]:
        t = e[0]
        nxt = []
        for c0 in cfgs:
            for c in timers(c0, t):
                if c[0] == 'W':
                    if e[1] == 'd' and e[2] < len(case['datas']) and spec_matches(spec, case['datas'][e[2]], e[2]):
                        d = case['datas'][e[2]]['content']
                        for enf in (enforce if enforce is not None else ((True,) if strict else (True, False))):
                            nxt.extend(timers(('V', d, t + lat_of(spec), enf), t))
                    elif e[1] == 'n' and e[2] == eff_name(spec) and e[3] == spec['dig']:
                        nxt.append(('F', ['nack', e[4], t]))
                    elif (e[1] == 'c' and e[2] == i) or e[1] == 's':
                        nxt.append(('F', ['cancelled', t]))
                    else:
                        nxt.append(c)
                elif c[0] == 'V':
                    if e[1] == 'c' and e[2] == i:
                        nxt.append(('F', ['cancelled', t]))
                    elif e[1] == 's':
                        nxt.extend([('F', ['cancelled', t]), c])
                    else:
                        nxt.append(c)
                else:
                    nxt.append(c)
        cfgs = []
        for c in nxt:
            if c not in cfgs:
                cfgs.append(c)
    return [c[1] if c[0] == 'F' else ['pending'] for c in cfgs]


def _verdict_outcomes(fe, spec, d, fin, strict):
    """what the validator's answer at `fin` makes of the Interest; None = nothing (only deadline / cancel end it)"""
    v = spec['verdict']
    if not strict:
        if accepting(fe, v):
            # the statement: a matching Data that arrived in time IS the outcome; an accepting validator is no
            # reason for anything else (only its latency is: the caller decides whether the deadline is enforced)
            return [['data', d, fin]]
        return [['data', d, fin], ['valfail', d, None, fin], ['verr', fin], None]
    if v == 'RAISE_OTHER':
        return [None] if fe == 'v2' else [['verr', fin]]
    if v == 'RAISE_TIMEOUT':
        return [['valfail', d, 'TIMEOUT', fin]] if fe == 'v2' else [['verr', fin]]
    if accepting(fe, v):
        return [['data', d, fin]]
    return [['valfail', d, v if fe == 'v2' else 'FAIL', fin]]


def burst_orders(case, cap=48):
    """the histories in which every burst is delivered packet by packet, in every order (a Data, Nack or timer in the
    same loop turn as another event on the same Interest may resolve either way)"""
    import itertools
    variants = [[]]
    for e in case['events']:
        if e[1] != 'b':
            variants = [v + [e] for v in variants]
            continue
        perms = list(itertools.permutations(e[2]))
        if len(variants) * len(perms) > cap:
            perms = perms[:1] + perms[-1:]
        variants = [v + [[e[0]] + list(q) for q in perm] for v in variants for perm in perms]
    return [dict(case, events=v) for v in variants]


def allowed_outcomes(case, i, strict, enforce=None):
    if not any(e[1] == 'b' for e in case['events']):
        return spec_allowed(case, i, strict, enforce)
    out = []
    for v in burst_orders(case):
        for pat in spec_allowed(v, i, strict, enforce):
            if pat not in out:
                out.append(pat)
    return out


def _fits(out, pat):
    return len(out) == len(pat) and all(p is None or p == o for o, p in zip(out, pat))


def oracle_common(case, impl, strict, enforce=None):
    fe = case['fe']
    if impl.get('receive_raised'):
        return f"internal error escaped a callback: a reception task ended with {impl['receive_raised'][0]}"
    if impl['loop_errors']:
        return f"internal error escaped a callback: {impl['loop_errors'][0][0]}"
    for i, out in enumerate(impl['ints']):
        if out[0] == 'internal':
            return f'Interest {i} finished with an internal error: {out[1]}'
        if out[0] == 'pending':
            return f'Interest {i} never finished'
    tie = case.get('tie')
    if tie is None:
        for i, out in enumerate(impl['ints']):
            allowed = allowed_outcomes(case, i, strict, enforce)
            if not any(_fits(out, p) for p in allowed):
                return f'Interest {i} finished with {out} but the history allows only {allowed}'
        # nothing about a finished Interest remains pending
        xs = 0
        for k, ev in enumerate(case['events']):
            if ev[1] == 'x':
                xs += 1
            nodes, entries, _ = impl['steps'][k]
            unfinished = sum(1 for i in range(xs) if impl['ints'][i][-1] is None or impl['ints'][i][-1] > ev[0])
            if entries > unfinished:
                return (f'after event {k} the PIT holds {entries} entries but only {unfinished} Interests are '
                        f'unfinished')
            if nodes > entries:
                return f'after event {k} the PIT holds {nodes} nodes for {entries} entries'
    else:
        why = oracle_tie(case, impl)
        if why:
            return why
    if impl.get('sent', len(impl['ints'])) != len(impl['ints']):
        return f"{impl['sent']} packets were written to the face for {len(impl['ints'])} expressed Interests"
    if impl['steps'] and impl['steps'][-1][1] != 0:
        return f"{impl['steps'][-1][1]} PIT entries remain after every Interest has finished"
    if impl['steps'] and impl['steps'][-1][0] != 0:
        return f"{impl['steps'][-1][0]} PIT nodes remain after every Interest has finished"
    return None


def oracle_tie(case, impl):
    """timer (or caller cancellation) and packet in one loop turn: either order is allowed, for every Interest"""
    tie = case['tie']
    base = dict(case, tie=None)
    at = tie['at']
    p = tie['packet']
    pk = [at, 'd', p[1]] if p[0] == 'd' else [at, 'n', p[1], p[2], p[3]]
    other = [[at, 'c', 0]] if tie['kind'] == 'cancel' else []
    evs = case['events']
    cut = next(j for j, e in enumerate(evs) if e[0] > at)
    # packet strictly before the timers of that instant / strictly after them
    variants = []
    for order in (0, 1):
        if tie['kind'] == 'cancel':
            mid = [pk] + other if order == 0 else other + [pk]
            variants.append(dict(base, events=evs[:cut] + mid + evs[cut:]))
        else:
            pk2 = [at - 1] + pk[1:] if order == 0 else pk
            variants.append(dict(base, events=evs[:cut] + [pk2] + evs[cut:]))
    for i, out in enumerate(impl['ints']):
        allowed = []
        for v in variants:
            for pat in spec_allowed(v, i, False):
                q = list(pat)
                if q[-1] == at - 1:
                    q[-1] = at
                allowed.append(q)
        if not any(_fits(out, q) for q in allowed):
            return f'tie: Interest {i} finished with {out}; allowed in either order: {allowed}'
    return None


def oracle(case, impl):
    return oracle_common(case, impl, strict=False)


def nontrivial(case, impl):
    if len(impl['ints']) < 2:
        return False
    return any(o[0] not in ('timeout', 'pending') for o in impl['ints'])


def tags(case, impl):
    t = ['fe:' + case['fe'], 'tie' if case.get('tie') else 'history']
    for o in impl['ints']:
        t.append('out:' + o[0])
    for e in case['events']:
        t.append('ev:' + e[1])
    specs = [e[2] for e in case['events'] if e[1] == 'x']
    names = [tuple(s['name']) for s in specs]
    if len(set(names)) < len(names):
        t.append('same-name-pair')
    if any(a != b and _is_prefix(list(a), list(b)) for a in names for b in names):
        t.append('nested-names')
    for e in case['events']:
        if e[1] == 'b':
            t.append('burst:' + ''.join(sorted(q[0] for q in e[2])))
        if e[1] == 'd' and len(e) > 3:
            t.append('data-in-lp')
        for q in ([e[1:]] if e[1] == 'n' else [q for q in e[2] if q[0] == 'n'] if e[1] == 'b' else []):
            if q[3] not in NACK_REASONS:
                t.append('nack-reason-odd')
    if case.get('rx'):
        t.append('rx:' + case['rx'])
    for w, r in impl.get('refused', []):
        t.append('refused:%s:%s' % (w, r))
    groups = {}
    for s in specs:
        groups.setdefault(tuple(eff_name(s)), []).append(s)
    big = max((len(g) for g in groups.values()), default=0)
    t.append('same-name-max:%s' % (big if big < 3 else '3+'))
    if any(len({(bool(x['cbp']), x['dig'] is not None) for x in g}) >= 3 for g in groups.values()):
        t.append('mixed-node')
    for s in specs:
        if s.get('nf'):
            t.append('nf:' + s['nf'])
        for key in ('ip', 'scr'):
            if s.get(key):
                t.append(key)
    for s in specs:
        if has_pd(s):
            t.append('params:%s%s' % (s.get('ap') or '-', 'S' if s.get('sg') else ''))
        for key in ('mbf', 'nrp', 'nr', 'defer'):
            if s.get(key):
                t.append(key)
        if s['life'] == 0:
            t.append('life0')
        if s['dig'] is not None and s['cbp']:
            t.append('implicit-digest+cbp')
        if s['dig'] is not None:
            t.append('implicit-digest')
        if s['lat'] and s['lat'] > life_of(case['fe'], s):
            t.append('validator-slower-than-lifetime')
    t.append('n-int:%d' % len(specs))
    return t


def finding_key(case, impl, why):
    fe = case['fe']
    if 'internal error escaped' in why:
        cls = why.rsplit(' ', 1)[-1].replace('ShortKeyError', 'KeyError')
        return f'{fe}-callback-raises-{cls}'.lower()
    if 'finished with an internal error' in why:
        return f'{fe}-interest-finishes-with-{why.rsplit(" ", 1)[-1]}'.lower()
    if 'never finished' in why:
        return f'{fe}-interest-never-finishes'
    if 'remain after every Interest' in why or 'the PIT holds' in why:
        return f'{fe}-pit-entry-remains'
    if why.startswith('tie:'):
        return f'{fe}-tie-wrong-outcome'
    if 'finished with' in why:
        import re
        m = re.search(r"finished with \['(\w+)'.*allows only \[\['(\w+)'", why)
        return f'{fe}-outcome-{m.group(1)}-expected-{m.group(2)}' if m else f'{fe}-wrong-outcome'
    return f'{fe}-other'


LEVEL_TEXT = ('Lean 4 theorems over a hand-written model of the pending-Interest bookkeeping of both front-ends '
              '(trie name -> node object, node heap with pending lists, node captured at express time, satisfy / '
              'nack_interest / timeout on the captured node / _remove_pending / _clean_up, validator scripts with latency, '
              'virtual clock; lifetime 0, v2 no_response, the first await of what express returned as an event of its own '
              'with the 100 ms grace of v2 and the restarted lifetime of the legacy front-end - both read off the source text on every run, lean/NdnGen/C03.lean): an invariant relating trie, '
              'nodes and per-Interest states holds after every event history; '
              'the model refines an abstract table in which every Interest reacts to every event on its own '
              '(refines_spec); from that: a completion record never changes, no callback raises, a finished Interest '
              'has no entry left, one Data is taken by exactly the matching waiting Interests, Nack/cancel/timer act on '
              'exactly their targets, every state is justified by the history (outcome_correct, without any hypothesis '
              'on the history), the state of an Interest '
              'is a function of its own request and the events (frame). Events sharing a loop turn (packet versus timer, '
              'bursts, cancellation versus packet) are nondeterminism: the linearisations of a history of turns are plain '
              'histories, so every theorem holds for each of them (tie_*), and the set of states the driver explores is '
              'proved to be exactly the set of their final states (tie_reachable_exact). The model is tied to the code on '
              'every run by differential execution of the compiled model against the real NDNApp (v2 and legacy) on a '
              'virtual-time asyncio loop - every generated case; equality when the model allows one outcome vector, '
              'membership when a tie allows several - plus the property oracle (a per-Interest automaton written from the '
              'statement) evaluated on the implementation.')
LEVEL_NOTE = ('Proof is about the model; model=code is sampled (differential testing) and, for the constants / class lists / '
              'guard shapes listed under TRUSTED, read off the source text on every run (lean/NdnGen/C03.lean, pinned by the '
              'gen_* theorems), not proved. The model is the code '
              'with candidate fixes C03-1 (pit cleanup on cancellation / identity check before del) and C03-2 (Nack names '
              'the implicit digest) applied; on the unchanged tree the oracle reports the violations. In a tie the real '
              'loop resolves the order by its ready queue; the model allows every order, so there the comparison is '
              'membership of the outcome vector, not equality. In the legacy front-end an Interest may still be validating '
              'after its deadline (finding F15, property C05): complete_exactly_once_after_deadline states completion for '
              'the current front-end and "not waiting" for both.')
TECHNIQUE = 'Lean 4 proof (invariant over all event histories, refinement to a per-Interest specification automaton) + model/implementation correspondence check on a virtual-time asyncio loop'
DESIGN_REF = 'DESIGN.md section 7, C03'
