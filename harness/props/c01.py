"""C01 — Interest and Data packets survive an encode/decode round trip."""
import pktcommon as PK
import tlvschema as T
import strict_tlv as S

PROP = 'C01'
TITLE = 'Interest and Data packets survive an encode/decode round trip'
LEAN_TARGETS = ['NdnProofs.Props.C01', 'NdnGen.C01', 'NdnProofs.Props.TlvVarGen', 'NdnGen.TlvVar']
THEOREMS = [
    'Ndn.C01.make_data_wire', 'Ndn.C01.make_data_unsigned_wire', 'Ndn.C01.make_interest_wire',
    'Ndn.C01.sig_value_elem_rejects', 'Ndn.C01.made_data_is_one_element', 'Ndn.C01.parse_make_data_partial',
    'Ndn.C01.make_interest_is_core', 'Ndn.C01.make_interest_params_wire', 'Ndn.C01.make_interest_plain_wire',
    'Ndn.C01.parse_make_interest', 'Ndn.C01.parse_make_interest_params', 'Ndn.C01.parse_make_interest_plain',
    'Ndn.Packet.interest_items', 'Ndn.Packet.parse_interest_value',
    # a caller-supplied ParametersSha256Digest placeholder at any position; an unsigned Data with its OffsetMarker fields
    'Ndn.C01.make_interest_is_core_params', 'Ndn.C01.make_interest_is_core_at', 'Ndn.C01.make_interest_wire_at', 'Ndn.C01.make_interest_params_wire_at',
    'Ndn.C01.parse_make_interest_placeholder', 'Ndn.C01.parse_make_interest_params_placeholder',
    'Ndn.Packet.parseInterest_signed_at', 'Ndn.Packet.parseInterest_params_at',
    'Ndn.C01.parse_data_value', 'Ndn.C01.parse_make_data_unsigned',
    'Ndn.Gen.C01.schemas_match',
    # tlv_var.py (shrink_length after a short signature, the TL writers) TRANSLATED from its source text on every run
    # (harness/py2lean.py -> lean/NdnGen/TlvVar.lean) = the model functions the packet encoder is written with
    'Ndn.TlvVarGen.all_translated', 'Ndn.TlvVarGen.shrink_length_eq', 'Ndn.TlvVarGen.write_tl_num_eq',
    'Ndn.TlvVarGen.write_tl_num_neg', 'Ndn.TlvVarGen.get_tl_num_size_eq', 'Ndn.TlvVarGen.parse_tl_num_eq',
]
PARTIAL = {
    'Ndn.C01.parse_make_data_partial':
        'the theorem of this name is the marker-free statement (Data Value fields through the generic round trip, C08). '
        'The statements on the full field lists are: signed Data - Ndn.C02.parsed_cover_is_signed_portion_data; unsigned '
        'Data with its five OffsetMarker pseudo-fields - parse_make_data_unsigned (same name / MetaInfo / Content, markers '
        '0, no SignatureValue, empty signature pointers); Interests without a digest component in the given name - '
        'parse_make_interest (signed), parse_make_interest_params (unsigned with ApplicationParameters), '
        'parse_make_interest_plain; Interests whose name carries a caller-supplied ParametersSha256Digest placeholder '
        '02 20 <32 bytes> at ANY position - parse_make_interest_placeholder / parse_make_interest_params_placeholder '
        '(final name = parsed name = the given name with the placeholder value replaced by H of the bytes from '
        'ApplicationParameters to the end of the Interest, which is also the digest-covered range the parser reports; '
        'parameters, ApplicationParameters, SignatureInfo, signature value unchanged). What still rests on the '
        'correspondence only: a Type-2 component in the given name that is NOT a 34-byte 02 20 <32 bytes> element (a '
        'malformed placeholder: make_interest writes the digest over the 32 bytes behind its first two)',
}
TRUSTED = [
    'C01: the signer is abstract (it reserves `reserved` bytes and writes `sig`); the bytes it wrote are recorded from the real signer by a proxy and handed to the model, so no cryptography is modelled',
    'C01 (tlv_var.py): shrink_length, write_tl_num, get_tl_num_size, parse_tl_num are translated from the source text by '
    'harness/py2lean.py and proved equal to the model functions for all inputs; trusted there: the translator and '
    'lean/NdnModel/PySem.lean (the reading of CPython ints, struct, indexing, slicing, memoryview writes as list updates)',
    'C01: SHA-256 of the model (NdnModel/Sha256.lean) is validated against hashlib through the ParametersSha256Digest of every generated Interest; it is opaque in the theorems',
]
RULE = ('Data and Interest packets built by make_data / make_interest from random names (0..6 components of 13 types, with a '
        'caller-supplied digest component in some), all presence combinations of MetaInfo / InterestParam fields, payload '
        'sizes concentrated around every size at which an enclosing Length changes form (253, 65536) plus up to 70000, and '
        'signers none / DigestSha256 / HMAC / ECDSA P-256,384,521 (variable DER length) / RSA-2048 / Ed25519 / Null / a synthetic '
        'signer sweeping (reserved, real) sizes. Hardening stream (45% of the cases): the name handed over as URI string / '
        'list of URI-component strings / encoded Name TLV (bytes, memoryview) / mixed list or tuple; one long component and '
        'total name sizes at 253 / 65536 (3-byte component Types too); ForwardingHint with up to 40 names or names moving '
        'the Length of Links across 253; MetaInfo / InterestParam / SignatureInfo integers at every width; a FinalBlockId '
        'moving the Length of MetaInfo across 253; present-but-empty MetaInfo, Content and ApplicationParameters; long '
        'KeyLocator names for the keyed signers; a signer writing KeyDigest / SignatureNonce / Time / SeqNum; RSA-4096 in the '
        'thorough tier. The oracle also judges the InterestParam / MetaInfo objects parse_interest / parse_data return. '
        'Re-entrant signers (12% of the signed cases): the signer builds 1..2 other packets with the library (make_data / '
        'make_interest with another signer of another signature length or with the very same signer object, a certificate) '
        'after it wrote its SignatureInfo, in the length pass, before / after it computed the signature - two encodings '
        'interleaved; the outer packet is compared with the model, both are judged by the oracle. '
        'non-trivial = packet was built and has a payload or a signature; distinct = '
        'distinct generator inputs')
LEVEL_TEXT = ('Lean 4 theorems about the model of make_data / make_interest: for every name, field combination, payload and '
              'every signer behaviour (any reserved size, any signature not longer than it) the result is exactly one TLV '
              'element tlv(T, fields ++ tlv(SigValueType, sig)) - i.e. all declared lengths exact and shortest, the reserved '
              'but unused bytes removed - proved through shrink_spec for all sizes (the 253 / 65536 crossings are cases of the '
              'proof). Decode-after-encode equality of the Data fields follows from the generic round trip of C08. For '
              'Interests (signed; unsigned with ApplicationParameters; plain) parse_interest of the made wire is proved to '
              'return the final name (given name + digest component), every parameter value, ApplicationParameters, '
              'SignatureInfo and the signature value, through a marker-aware run of the scan loop over the '
              'InterestPacketValue field list (leading markers = 0, _sig_cover_start = _digest_cover_start = offset of '
              'ApplicationParameters, _sig_cover_end unset). The model is tied to ndn_format_0_3.py by differential '
              'execution on generated packets, including wire bytes, signed bytes, final name, and everything parse_* returns.')
LEVEL_NOTE = ('Model = code is sampled. Signers are abstract (their output is recorded). Interests whose name already '
              'carries a caller-supplied 34-byte digest placeholder (any position) and an unsigned Data with its marker '
              'pseudo-fields are theorems too (parse_make_interest_placeholder, parse_make_interest_params_placeholder, '
              'parse_make_data_unsigned); a Type-2 name component that is not a 34-byte placeholder is covered by '
              'correspondence + oracle only.')
TECHNIQUE = 'Lean 4 proof (shrink_length correctness for all sizes + generic codec round trip) + model/implementation correspondence'
DESIGN_REF = 'DESIGN.md section 7, C01'


def cases(rng, tier):
    n = 700 if tier == 'quick' else 8000
    for _ in range(n):
        c = PK.gen_data_case(rng, tier) if rng.random() < 0.5 else PK.gen_interest_case(rng, tier)
        if c['signer'][0] != 'none' and rng.random() < 0.12:
            # the signer builds other packets (make_data / make_interest with another or with the same signer, a
            # certificate) while this one is half done: two encodings interleaved
            c['reenter'] = PK.rand_reenter(rng, tier, c)
        yield c


def shrink(case):
    if case['pkt'] == 'data':
        if case['content']:
            yield dict(case, content=case['content'] // 2)
            yield dict(case, content=case['content'] - 1)
        if case['meta'] is not None:
            yield dict(case, meta=None)
    else:
        if case['app']:
            yield dict(case, app=case['app'] // 2)
            yield dict(case, app=case['app'] - 1)
        p = case['param']
        if p['forwarding_hint']:
            yield dict(case, param=dict(p, forwarding_hint=[]))
        for k in ('nonce', 'lifetime', 'hop_limit'):
            if p[k] is not None:
                yield dict(case, param=dict(p, **{k: None}))
    if case.get('reenter'):
        yield {a: b for a, b in case.items() if a != 'reenter'}
        if len(case['reenter']) > 1:
            for i in range(len(case['reenter'])):
                yield dict(case, reenter=case['reenter'][:i] + case['reenter'][i + 1:])
        for i, sp in enumerate(case['reenter']):
            if 'case' in sp:
                for c2 in shrink(sp['case']):
                    yield dict(case, reenter=case['reenter'][:i] + [dict(sp, case=c2)] + case['reenter'][i + 1:])
    for k in ('name_form', 'fh_form', 'key_name', 'payload_form', 'key_form', 'obj_form', 'pre', 'parse_form'):
        if case.get(k) is not None:
            yield {a: b for a, b in case.items() if a != k}
    if case['signer'][0] == 'custom':
        yield dict(case, signer=['synth', case['signer'][1], case['signer'][2]])
    if case['name']:
        yield dict(case, name=case['name'][:-1])
        yield dict(case, name=case['name'][1:])


def _strict(case, wire):
    """independent structural check: one well-formed element, every length exact and shortest"""
    from ndn.encoding import ndn_format_0_3 as f
    cls, outer = (f.DataPacketValue, 6) if case['pkt'] == 'data' else (f.InterestPacketValue, 5)
    fs = T.class_schema(cls)
    try:
        vals = S.strict_packet(fs, wire, outer, False, True)
        body = b''.join(T.ref_encode(s, v) for s, v in zip(fs, vals))
        canon = T.tl(outer) + T.tl(len(body)) + body
        return 'ok' if canon == wire else 'not-minimal-or-out-of-order'
    except S.Reject as r:
        return 'rej:' + str(r)


def run_impl(case):
    made = PK.make_packet(case)
    out = {'made': made}
    # the packets the signer built while it was at work on this one: judged like any other packet
    nested = []
    for r in made.get('nested') or []:
        m2 = r.get('made')
        if m2 is not None and m2['made'][0] == 'ok':
            c2 = case['reenter'][r['i']]['case']
            w2 = bytes.fromhex(m2['made'][1])
            p2 = PK.parse_packet(c2['pkt'], w2)
            nested.append({'i': r['i'], 'made': m2['made'], 'strict': _strict(c2, w2),
                           'parsed': {k: p2.get(k) for k in ('res', 'err', 'name', 'content', 'values', 'api', 'SV')}})
        elif m2 is not None:
            nested.append({'i': r['i'], 'made': m2['made']})
    if 'nested' in made:
        made['nested'] = [{'i': r['i'], 'at': r['at'], 'res': (r['made']['made'] if 'made' in r else r['cert'])[0]} for r in made['nested']]
        out['nested'] = nested
    if made['made'][0] == 'ok':
        wire = bytes.fromhex(made['made'][1])
        out['parsed'] = PK.parse_packet(case['pkt'], wire, case.get('parse_form'))
        out['strict'] = _strict(case, wire)
        first = made.get('first')
        if case.get('pre') == 'same' and first is not None and first[0] == 'ok':
            # the earlier, identical call (same argument objects): its packet is judged as well
            w1 = bytes.fromhex(first[1])
            p1 = PK.parse_packet(case['pkt'], w1)
            out['first'] = {'parsed': {k: p1.get(k) for k in ('res', 'err', 'name', 'content', 'values', 'api', 'SV')},
                            'strict': _strict(case, w1), 'wire': None if w1 == wire else first[1]}
    return out


def model_line(case, impl):
    return PK.model_make_line(case, impl['made'])


def model_obs(answer, case, impl):
    made, parsed = PK.parse_model_answer(answer)
    o = {'made': made['made']}
    if made['made'][0] == 'ok':
        o['covered'] = made['covered'] if case['signer'][0] != 'none' else None
        o['final_name'] = made['final_name'] if case['pkt'] == 'interest' else None
        if parsed is not None and parsed.get('res') == 'ok':
            parsed.pop('PC', None)
        o['parsed'] = parsed
    return o


def impl_obs(impl):
    m = impl['made']
    o = {'made': m['made']}
    if m['made'][0] == 'ok':
        o['covered'] = m.get('covered')
        o['final_name'] = m['final_name']
        o['parsed'] = PK.impl_parse_obs(impl['parsed'])
    return o


def _expect_error(case):
    """inputs make_* is documented to reject"""
    s = case['signer']
    if s[0] == 'synth' and s[1] >= 253 and s[2] != s[1]:
        return 'ValueError'
    return None


def _tl(w, o):
    def num(o):
        b = w[o]
        if b < 253:
            return b, o + 1
        n = {253: 2, 254: 4, 255: 8}[b]
        return int.from_bytes(w[o + 1:o + 1 + n], 'big'), o + 1 + n
    t, o = num(o)
    ln, o = num(o)
    return t, ln, o


def _params_digest(wire):
    """hex SHA-256 of ApplicationParameters .. end of the Interest value, read from the wire alone (None: no such element)"""
    import hashlib
    try:
        _, ln, o = _tl(wire, 0)
        end = o + ln
        while o < end:
            start = o
            t, l2, o = _tl(wire, o)
            if t == 0x24:
                return hashlib.sha256(wire[start:end]).hexdigest()
            o += l2
    except (IndexError, KeyError):
        pass
    return None


def oracle(case, impl):
    m = impl['made']
    exp_err = _expect_error(case)
    if m['made'][0] == 'err':
        if exp_err and m['made'][1] == exp_err:
            return None
        return f"building a legal packet raised {m['made'][1]}" + \
            (f" (after an earlier call '{case['pre']}' with the same argument objects)" if case.get('pre') else '')
    r = _judge(case, m['made'][1], impl['parsed'], impl['strict'])
    if r is not None and case.get('reenter'):
        return r + ' (the signer built other packets while this one was being made: ' + _reenter_text(case) + ')'
    if r is None and case.get('reenter'):
        r = _judge_nested(case, impl)
        if r is not None:
            return r
    if r is None and case.get('pre') == 'same':
        f1 = m.get('first')
        if f1 is None or f1[0] != 'ok':
            return f"the same call made once before (same argument objects) raised {None if f1 is None else f1[1]}"
        o1 = impl['first']
        r = _judge(case, o1['wire'] or m['made'][1], o1['parsed'], o1['strict'])
        if r:
            return 'first of two identical calls: ' + r
    elif r is not None and case.get('pre'):
        return r + f" (after an earlier call '{case['pre']}' with the same argument objects)"
    return r


def _reenter_text(case):
    return ', '.join('%s at %s' % ('a certificate' if 'cert' in s else s['case']['pkt'] + (' with the same signer object' if s.get('same') else ''),
                                   s['at']) for s in case['reenter'])


def _judge_nested(case, impl):
    """the packets built from inside the signer are packets built from a name, parameters / MetaInfo, payload and signer too"""
    for n in impl.get('nested') or []:
        spec = case['reenter'][n['i']]
        c2 = spec['case']
        what = f"{c2['pkt']} built from inside the signer of another packet (at {spec['at']}" + \
            (', with the same signer object' if spec.get('same') else '') + '): '
        if n['made'][0] == 'err':
            if _expect_error(c2) == n['made'][1]:
                continue
            return what + f"building a legal packet raised {n['made'][1]}"
        r = _judge(c2, n['made'][1], n['parsed'], n['strict'])
        if r is not None:
            return what + r
    return None


def _judge(case, wire_hex, p, strict):
    """the statement, for one packet built from the inputs of `case`"""
    if strict != 'ok':
        return f"the wire is not exactly one well-formed, exactly-sized, minimal TLV element: {strict}"
    if p['res'] != 'ok':
        return f"the library cannot parse its own packet: {p['err']}"
    name = list(case['name'])
    signed = case['signer'][0] != 'none'
    if case['pkt'] == 'data':
        if p['name'] != name:
            return 'parsed name differs from the name given'
        exp_content = None if case['content'] is None else PK.payload(case, case['content']).hex()
        if p['content'] != exp_content:
            return 'parsed Content differs from the payload given'
        vals = p['values']
        m0 = case['meta']
        exp_meta = '_' if m0 is None else T.value_text(('m', [
            None if m0['content_type'] is None else ('u', m0['content_type']),
            None if m0['freshness_period'] is None else ('u', m0['freshness_period']),
            None if m0['final_block_id'] is None else ('y', bytes.fromhex(m0['final_block_id']))]))
        # field 6 of DataPacketValue is meta_info
        got_meta = _field(vals, 6)
        if got_meta != exp_meta:
            return f'parsed MetaInfo {got_meta} differs from the one given {exp_meta}'
        if signed and p['SV'] is None:
            return 'signed packet parsed without a SignatureValue'
        # what parse_data itself hands back (a MetaInfo object)
        if m0 is not None and p.get('api') is not None:
            for k in ('content_type', 'freshness_period', 'final_block_id'):
                if p['api'][k] != m0[k]:
                    return f'MetaInfo returned by parse_data: {k} differs from the one given'
    else:
        need = case['app'] is not None or signed
        has_digest = [c for c in name if c.startswith('02')]
        got = p['name']
        if need:
            if has_digest:
                if len(got) != len(name) or any(a != b for a, b in zip(got, name) if not b.startswith('02')):
                    return 'parsed name differs from the name given (digest supplied in place)'
            else:
                if not got or got[:-1] != name or not got[-1].startswith('0220') or len(got[-1]) != 68:
                    return 'parsed name is not the given name plus one ParametersSha256Digest component'
        elif got != name:
            return 'parsed name differs from the name given'
        if need:
            # "the parameters-digest component": by the packet format it is the SHA-256 of the bytes from the
            # ApplicationParameters element to the end of the Interest, as they are on the wire
            dg = [c for c in got if c.startswith('0220') and len(c) == 68]
            want = _params_digest(bytes.fromhex(wire_hex))
            if want is not None and (len(dg) != 1 or dg[0][4:] != want):
                return ('the ParametersSha256Digest component of the parsed name is not the SHA-256 of the wire bytes '
                        'from ApplicationParameters to the end of the Interest')
        exp_app = None if case['app'] is None else PK.payload(case, case['app']).hex()
        if signed and exp_app is None:
            exp_app = ''
        if p['content'] != exp_app:
            return 'parsed ApplicationParameters differ from the ones given'
        pr = case['param']
        fh = pr['forwarding_hint']
        links = '_' if not fh else T.value_text(('m', [('l', [('n', [bytes.fromhex(c) for c in n]) for n in fh])]))
        exp = [('b' if pr['can_be_prefix'] else '_'), ('b' if pr['must_be_fresh'] else '_'), links,
               '_' if pr['nonce'] is None else 'u%d' % pr['nonce'], '_' if pr['lifetime'] is None else 'u%d' % pr['lifetime'],
               '_' if pr['hop_limit'] is None else 'u%d' % pr['hop_limit']]
        got_mid = [_field(p['values'], i) for i in range(8, 14)]
        if got_mid != exp:
            return f'parsed Interest parameters {got_mid} differ from the ones given {exp}'
        # what parse_interest itself hands back (an InterestParam object)
        a = p.get('api')
        if a is not None:
            for k in ('nonce', 'lifetime', 'hop_limit'):
                if a[k] != pr[k]:
                    return f'InterestParam returned by parse_interest: {k} differs from the one given'
            for k in ('can_be_prefix', 'must_be_fresh'):
                if bool(a[k]) != bool(pr[k]):
                    return f'InterestParam returned by parse_interest: {k} differs from the one given'
            if a['forwarding_hint'] != fh:
                return 'InterestParam returned by parse_interest: forwarding_hint differs from the one given'
    return None


def _field(values_text, idx):
    """idx-th top-level field of a `(a,b,m(...),...)` values text"""
    s = values_text[1:-1]
    out, depth, cur = [], 0, ''
    for ch in s:
        if ch == '(':
            depth += 1
        elif ch == ')':
            depth -= 1
        if ch == ',' and depth == 0:
            out.append(cur)
            cur = ''
        else:
            cur += ch
    out.append(cur)
    return out[idx]


def nontrivial(case, impl):
    return impl['made']['made'][0] == 'ok' and (case['signer'][0] != 'none' or (case.get('content') or case.get('app') or 0) > 0)


def tags(case, impl):
    t = ['pkt:' + case['pkt'], 'signer:' + case['signer'][0], 'made:' + impl['made']['made'][0],
         'nameform:' + (case.get('name_form') or 'comps')]
    if case.get('key_name') is not None:
        t.append('keyname:given')
    for k in ('payload_form', 'key_form', 'obj_form', 'pre', 'parse_form'):
        if case.get(k) is not None:
            t.append(f'{k}:{case[k]}')
    for s in case.get('reenter') or []:
        t.append('reenter:%s:%s' % (s['at'], 'cert' if 'cert' in s else s['case']['pkt'] + (',same-signer' if s.get('same') else '')))
    for r in impl['made'].get('nested') or []:
        t.append('nested-built:' + r['res'])
    if impl['made']['made'][0] == 'ok':
        n = len(impl['made']['made'][1]) // 2
        t.append('size:' + ('<253' if n < 253 else '253..259' if n < 260 else '<65536' if n < 65536 else '>=65536'))
        if impl['made'].get('sig') is not None and impl['made'].get('reserved') is not None:
            t.append('shrink:%s' % ('0' if len(impl['made']['sig']) // 2 == impl['made']['reserved'] else '>0'))
    return t


def finding_key(case, impl, why):
    import re
    w = re.sub(r'[0-9]+', 'N', why)
    return (case['pkt'] + ':' + re.sub(r'[^a-zA-Z]+', '-', w).strip('-').lower())[:80]


# ------------------------------------------------------------------ generated table (lean/NdnGen/C01.lean)
def extract(repo):
    from props.c08 import _lean_schema
    from ndn.encoding import ndn_format_0_3 as f
    import py2lean
    py2lean.write_generated(repo)      # lean/NdnGen/TlvVar.lean: tlv_var.py translated from the tree under test
    out = ['import NdnModel.PacketEnc',
           '/- GENERATED on every run by harness/props/c01.py from the live `_encoded_fields` of DataPacketValue and',
           '   InterestPacketValue.  Do not edit. -/',
           'namespace Ndn.Gen.C01', 'open Ndn.Codec', '']
    for nm, cls in (('dataLive', f.DataPacketValue), ('interestLive', f.InterestPacketValue)):
        fs = T.class_schema(cls)
        out.append(f"def {nm} : List Schema := [{', '.join(_lean_schema(s) for s in fs)}]")
    out.append('')
    out.append('/-- the field lists the packet model is written against are the ones the source declares now')
    out.append('    (order, Type numbers, fixed lengths, ignore_critical flags, marker positions) -/')
    out.append('theorem schemas_match : dataLive = Ndn.Packet.dataFs ∧ interestLive = Ndn.Packet.interestFs :=')
    out.append('  ⟨rfl, rfl⟩')
    out.append('')
    out.append('end Ndn.Gen.C01')
    return '\n'.join(out) + '\n'
