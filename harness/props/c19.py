"""C19 — segmented fetch (src/ndn/app_support/segment_fetcher.py over the legacy front-end src/ndn/app.py).

The real `segment_fetcher` async generator runs on the real legacy `NDNApp` with an in-memory face on the
virtual-time loop.  A simulated producer looks at every Interest the application writes to the face and, following a
per-Interest script, answers with Data (FinalBlockId markers as the case says), answers with Data that the validator
rejects, sends a network Nack, or stays silent (then the clock is advanced past the Interest lifetime).  In the busy stream
the application does other things meanwhile (case['others']: Interests of other components, a second fetch, incoming
Interests); what the fetch yields and when it fails is judged exactly as when it is alone.  In the validating stream the
user's validator is a script too (case['val']): per call it takes its time, accepts, rejects, RAISES - the classes the
library itself uses for control flow among them - or uses the library itself (fetches a certificate under its own time
limit); a Data that reached the consumer in time and whose validation failed is a validation failure, never a timeout."""
import os
import re
from apphelp import AppRig, TransportRig

PROP = 'C19'
TITLE = 'Segmented fetch yields every segment once, in order, tolerating bounded loss'
LEAN_TARGETS = ['NdnProofs.Props.C19']
THEOREMS = [
    'Ndn.C19.fetch_yields_all_once_in_order', 'Ndn.C19.fetch_unsegmented', 'Ndn.C19.fetch_no_final_marker',
    'Ndn.C19.fetch_timeout_iff', 'Ndn.C19.fetch_propagates', 'Ndn.C19.yielded_prefix_in_order',
    'Ndn.C19.requests_bounded', 'Ndn.C19.fetch_terminates',
    # names-level half: segment numbers as name components (composition with the name model, C09)
    'Ndn.C19.segment_component_roundtrip', 'Ndn.C19.segComp_is_rep', 'Ndn.C19.final_block_id_names_segment_iff',
    'Ndn.C19.fetchB_refines', 'Ndn.C19.fetchB_refines_unsegmented', 'Ndn.C19.fetch_yields_all_once_in_order_names',
    # timed half: the generator over the pending-Interest table (C03 model), answers that take time - every delay pattern
    'Ndn.C19.timed_interest_outcome', 'Ndn.C19.timed_data_is_genuine', 'Ndn.C19.timed_yields_in_order',
    'Ndn.C19.timed_unsegmented', 'Ndn.C19.timed_yields_all_once_in_order', 'Ndn.C19.timed_timeout_iff',
    'Ndn.C19.timed_propagates', 'Ndn.C19.timed_requests_bounded', 'Ndn.C19.timed_terminates',
    'Ndn.C19.timed_refines_untimed', 'Ndn.C19.timed_tolerable_yields_all', 'Ndn.C19.timed_table_clean_at_end',
]
PARTIAL = {}
TRUSTED = [
    'C19: one Interest outstanding at a time (the generator is sequential); time is discrete (ms), answers reach the consumer '
    'in the order of their arrival times (first sent first among equals), and when an arrival and a deadline fall on the same '
    'instant the timer runs first (the order in which the harness\'s virtual-time loop runs them; C03 proves its theorems for '
    'both orders of such ties); asyncio wait_for / async-generator semantics are exercised only by the correspondence '
    '(virtual-time loop)',
    'C19: packets enter the model after decoding (the Interest/Data codec is C01/C07), as names = lists of encoded '
    'components: the names-level model builds every Interest name itself (last component of the last Data name replaced by '
    'Component.from_segment(n)), reads get_type / to_number of the last component and compares FinalBlockId with it as bytes; '
    'it is proved equal, Interest by Interest, to the number-level model for objects of fewer than 2^64 - 2 segments whose '
    'producer names segment i `base ++ [from_segment(i)]` and marks the final block with a segment component',
    'C19: the timed model runs the generator over the C03 model of the legacy pending-Interest table (Ndn.Pit, front-end v1: '
    'express / Data / Nack / tick events; its correspondence with app.py is property C03\'s check); the untimed models '
    'abstract express_interest to four outcomes per Interest and are proved equal to the timed one when every answer '
    'arrives within the lifetime of its own Interest (timed_refines_untimed)',
    'C19: the validator\'s verdict is a function of the Data packet (the harness checks the DigestSha256 signature; an invalid '
    'Data is one whose signature value was damaged): the table is run with verdict `pass` and the model\'s retry raises '
    'ValidationFailure for a Data whose identifier says so - the legacy validator runs in the express task after the entry '
    'has left the table (C03), so the table state does not depend on the verdict',
]
RULE = ('objects: unsegmented (Data named exactly the prefix / with a version / with a generic component) or 0..12 segments '
        'with FinalBlockId on every segment / only the last / none / naming an earlier segment / naming other numbers / '
        'random; discovery answered by every segment number (and by none); retry_times 0..4; per-Interest scripts built per '
        'request relative to the limit (0, 1, limit-1, limit, limit+1 losses, then an answer / Nack / invalid Data) plus '
        'random scripts; every Interest name the simulated producer sees is compared byte for byte with the name the '
        'names-level model builds; a targeted stream: 255..520 segments (2-byte segment numbers, FinalBlockId on 254..257), '
        'every Nack reason (which must propagate too), the prefix given as str / list / wire, and - oracle only - segments with '
        'empty or absent Content and FinalBlockId components of another type; a delayed stream: every scripted answer travels '
        'for a scripted number of ms (0, 1, a fraction of the lifetime, lifetime-1, exactly the lifetime, lifetime+1, up to 3 '
        'lifetimes; lifetimes 0/50/125/250/1000/4000 ms) - a late Data of attempt n-1 landing during attempt n, a late discovery '
        'Data landing on a segment Interest, late Nacks / invalid Data, every attempt answered just too late, answers arriving '
        'after the end (they must be dropped quietly) - and the Interests seen by the simulated producer WITH THEIR SEND TIMES '
        'are compared with the timed model; cases whose answers all arrive within the lifetime are put to the untimed models '
        'as well (all three must agree); a busy stream (oracle only): the fetch is not alone on its NDNApp - other components express '
        'Interests under the name of the fetcher\'s Interest in progress / of the one it sends next / the prefix / the versioned '
        'name / longer and unrelated names, with or after a given Interest of the fetcher or before the fetch began, lifetimes '
        'from 1 ms to 4 lifetimes of the fetcher, CanBePrefix / MustBeFresh either way, answered (in time, late, by an invalid '
        'Data, by a Data with a longer name that satisfies only them), Nacked, left to time out or given up (task cancelled) at '
        'any time; a second segment_fetcher with another timeout / limit and its own loss script runs beside it (judged by the '
        'same oracle; of the same or of another object); Interests arrive for '
        'prefixes the application serves (the fetched prefix among them) and its handler replies or not; every packet that '
        'reaches the application counts for the fate of the fetcher\'s Interest it matches, whoever asked for it; a validating '
        'stream (oracle only): the user\'s validator - given to segment_fetcher or installed as the application\'s data_validator - '
        'follows a script per call: accepts, rejects, takes 0 .. 3 lifetimes (alone or on top of the answer\'s travel time), raises '
        '(builtin / asyncio TimeoutError and a subclass, CancelledError, InterestNack, InterestCanceled, ValidationFailure, '
        'NetworkError, DecodeError, KeyError, IndexError, ValueError, TypeError, AttributeError, AssertionError, OSError, '
        'ConnectionResetError, InvalidStateError, StopIteration, StopAsyncIteration, RuntimeError, an exception class of the '
        'user\'s), gives up on something with asyncio.wait_for, awaits a task of its own that was cancelled, or fetches a '
        'certificate with express_interest on the same application while the segment\'s Interest is being completed (answered, '
        'answered slowly, Nacked, or abandoned at the validator\'s own time limit) - at the discovery Interest / a middle / the '
        'last segment, once or at every call, also after losses and with other traffic on the application: whatever the '
        'validator raised (or ValidationFailure) must come out of the fetch at that Interest, which is not requested again, and '
        'a slow validator is no timeout; non-trivial = at least two Interests were sent and something was yielded or a retry happened; '
        'distinct = distinct (object, discovery, limit, script)'
        ' Transport stream: fetches whose packets arrive through the real stream transport (TcpFace / UnixFace run() '
        'framing an in-memory byte stream, packets of one instant in one chunk, chunks cut into segments; oracle only). '
        'In every case the yielded items are kept as the objects they are and read again when the fetch is over.')

PREFIX = '/obj'
PREFIX2 = '/obj2'        # what a second fetch on the same application fetches (unless it is the same object)
UNSEG_ID = 999
EMPTY_ID = -2           # a yielded content that is empty or None


def extract(repo):
    from ndn.encoding import Component
    return ('/- GENERATED on every run by harness/props/c19.py from src/ndn/encoding/name/Component.py (the live constants).\n'
            '   Do not edit. -/\n'
            'namespace Ndn.Gen.C19\n\n'
            '/-- `Component.TYPE_SEGMENT` -/\n'
            f'def typeSegment : Nat := {int(Component.TYPE_SEGMENT)}\n\n'
            "/-- `Component.ALTERNATE_URI_STR['seg']` -/\n"
            f"def segShorthandType : Nat := {int(Component.ALTERNATE_URI_STR['seg'])}\n\n"
            'end Ndn.Gen.C19\n')


def _name_hex(name):
    """a name as the driver writes it: `,`-separated hex components (`-` = empty component, `.` = empty name)"""
    return ','.join((bytes(c).hex() or '-') for c in name) or '.'


# ------------------------------------------------------------------------------------- cases
def _fbis(rng, n):
    if n == 0:
        return []
    r = rng.random()
    if r < 0.35:
        return [n - 1] * n
    if r < 0.55:
        return [None] * (n - 1) + [n - 1]
    if r < 0.63:
        return [None] * n
    if r < 0.75:
        j = rng.randrange(n)
        return [j] * n
    if r < 0.85:
        return [rng.choice([None, n - 1, n, n + 3, 0, i + 1]) for i in range(n)]
    return [rng.choice([None, None, i, n - 1, rng.randrange(n + 2)]) for i in range(n)]


def _script(rng, nreq, a):
    mode = rng.random()
    if mode < 0.12:
        return ''.join(rng.choice('ddddtttnv') for _ in range(rng.randint(0, 3 * nreq)))
    bad = rng.randrange(nreq) if mode > 0.62 else -1         # the request that goes wrong, if any
    s = ''
    for k in range(nreq):
        if k == bad:
            r = rng.random()
            if r < 0.5:
                s += 't' * rng.choice([a, a, a + 1]) + 'd'
            elif r < 0.75:
                s += 't' * rng.randint(0, a - 1) + 'n'
            else:
                s += 't' * rng.randint(0, a - 1) + 'v'
            continue
        r = rng.random()
        j = 0 if r < 0.5 else rng.choice([1, a - 1, a - 1, rng.randint(0, a - 1)])
        s += 't' * min(j, a - 1) + 'd'
    while s.endswith('d'):
        s = s[:-1]          # an exhausted script answers
    return s


NACK_REASONS = [0, 50, 100, 150, 151]


def _targeted(rng, tier):
    """dimensions the random stream does not reach: objects of 256+ segments (segment numbers needing 2 bytes, FinalBlockId
    on 254..257), every Nack reason (the reason must propagate too), the prefix given as str / list / wire, and - checked by
    the oracle only - segments whose Content is empty or absent (they are yielded all the same) and FinalBlockId components
    that carry the right number under another type (they do not designate a segment)"""
    base = {'disc': 0, 'retry': 3, 'script': '', 'timeout_ms': 4000, 'fresh': True}
    big = [256, 257, 300] if tier == 'quick' else [255, 256, 257, 258, 300, 520]
    for n in big:
        yield dict(base, obj={'kind': 'seg', 'fbi': [None] * (n - 1) + [n - 1]})
        yield dict(base, obj={'kind': 'seg', 'fbi': [n - 1] * n}, disc=rng.choice([1, 255, n - 1]), script='tdttd' + 'd' * 250 + 'ttdtd')
    yield dict(base, obj={'kind': 'seg', 'fbi': [255] * 300}, disc=256)
    yield dict(base, obj={'kind': 'seg', 'fbi': [256] * 300}, disc=255)
    yield dict(base, obj={'kind': 'seg', 'fbi': [None] * 254 + [256, 256, 256, None]}, disc=257)
    yield dict(base, obj={'kind': 'seg', 'fbi': [None] * 258}, retry=2, script='d' * 256 + 'tt')
    yield dict(base, obj={'kind': 'seg', 'fbi': [None] * 258}, retry=2, script='d' * 257 + 'tn')
    for reason in NACK_REASONS:
        for k in (0, 1, 3):
            yield dict(base, obj={'kind': 'seg', 'fbi': [3] * 4}, script='d' * k + 'tn', nack=reason, disc=rng.choice([0, 2]))
        yield dict(base, obj={'kind': 'unseg', 'name': 'version'}, script='n', nack=reason)
    for form in ('str', 'wire', 'list'):
        yield dict(base, obj={'kind': 'seg', 'fbi': [None, None, 2]}, name_form=form, disc=1, script='td')
        yield dict(base, obj={'kind': 'unseg', 'name': 'exact'}, name_form=form)
    for n in (1, 2, 3, 5):
        for kind in ('empty', 'absent'):
            for where in sorted({0, n // 2, n - 1}):
                for disc in sorted({0, where, n - 1}):
                    yield dict(base, obj={'kind': 'seg', 'fbi': [n - 1] * n, 'content': {str(where): kind}}, disc=disc)
                    yield dict(base, obj={'kind': 'seg', 'fbi': [None] * n, 'content': {str(where): kind}}, disc=disc, script='td')
            yield dict(base, obj={'kind': 'seg', 'fbi': [n - 1] * n, 'content': {str(i): kind for i in range(n)}})
    for kind in ('empty', 'absent'):
        yield dict(base, obj={'kind': 'unseg', 'name': 'generic', 'content': {'0': kind}})
    for n in (2, 4):
        for typ in (52, 54, 58, 8):
            for where in range(n - 1):
                yield dict(base, obj={'kind': 'seg', 'fbi': [where] * n, 'fbi_type': {str(i): typ for i in range(n)}}, disc=rng.randrange(n))
            yield dict(base, obj={'kind': 'seg', 'fbi': [None] * (n - 1) + [n - 1], 'fbi_type': {str(n - 2): typ}, })


def _oracle_only(case):
    o = case['obj']
    return bool(o.get('content') or o.get('fbi_type') or case.get('others') or case.get('start') or case.get('val')
                or case.get('via'))


def _delay(rng, T, o):
    """how long an answer travels: mostly well below the lifetime, often around it (just below / exactly / just above),
    sometimes a multiple of it"""
    if o == 't':
        return 0
    r = rng.random()
    if r < 0.4:
        return rng.choice([0, 0, 1, T // 4, T // 2])
    if r < 0.55:
        return max(0, T - 1)
    if r < 0.7:
        return T
    if r < 0.8:
        return T + 1
    if r < 0.9:
        return T + rng.choice([T // 4, T // 2, T - 1])
    return rng.choice([2 * T, 2 * T + 1, 3 * T, 3 * T - 1, 2 * T + T // 2])


def _delayed_targeted(rng, tier):
    """answers that take time: the late Data of attempt n-1 landing during attempt n (it satisfies the retry: same name),
    delays below / at / above the lifetime, a late discovery Data satisfying a segment Interest, late Nacks and late invalid
    Data, answers that arrive when the fetch is over"""
    base = {'disc': 0, 'retry': 3, 'timeout_ms': 1000, 'fresh': True}
    seg3 = {'kind': 'seg', 'fbi': [None, None, 2]}
    for T in (1000, 125, 50, 4000):
        b = dict(base, timeout_ms=T)
        for d in (0, 1, T // 2, T - 1, T, T + 1, T + T // 2, 2 * T - 1, 2 * T, 2 * T + 1, 3 * T):
            # one late answer for the discovery Interest / for segment 1, then silence for the retry
            yield dict(b, obj=seg3, script='dt', delays=[d, 0])
            yield dict(b, obj=seg3, script='ddt', delays=[0, d, 0])
            yield dict(b, obj=seg3, script='ddtt', delays=[0, d, 0, 0], retry=2)
            yield dict(b, obj=seg3, script='ddd', delays=[0, d, d])
            yield dict(b, obj={'kind': 'unseg', 'name': 'version'}, script='dt', delays=[d, 0])
            yield dict(b, obj=seg3, script='dnt', delays=[0, d, 0], nack=rng.choice(NACK_REASONS))
            yield dict(b, obj=seg3, script='dvt', delays=[0, d, 0])
            yield dict(b, obj=seg3, script='dttd', delays=[0, 0, 0, d], retry=2)
            yield dict(b, obj=seg3, script='d', delays=[d], retry=1)
            yield dict(b, obj=seg3, script='d', delays=[d], retry=0)
            # the late discovery Data (segment 2) arrives while segment 2 is being fetched
            yield dict(b, obj=seg3, disc=2, script='dd', delays=[T + d, 0])
            yield dict(b, obj=seg3, disc=1, script='dtdt', delays=[T + d, 0, 0, 0])
            # attempt 1 answered late, attempt 2 answered as well: the second copy is dropped (or satisfies nothing)
            yield dict(b, obj=seg3, script='ddd', delays=[0, T + d, d])
            yield dict(b, obj={'kind': 'seg', 'fbi': [0]}, script='d', delays=[d])
    # every attempt of one request answered just too late
    for k in (1, 2, 3):
        yield dict(base, obj=seg3, retry=k, script='d' + 'd' * k, delays=[0] + [1000] * k)
        yield dict(base, obj=seg3, retry=k, script='d' + 'd' * k, delays=[0] + [999] * k)
        yield dict(base, obj=seg3, retry=k, script='d' + 'd' * k + 'd', delays=[0] + [1001] * k + [0])
    yield dict(base, timeout_ms=0, obj=seg3, script='d', delays=[0])
    yield dict(base, timeout_ms=0, obj=seg3, script='', retry=1)


def _delayed_one(rng):
    retry = rng.choice([0, 1, 2, 3, 3, 4])
    a = max(1, retry)
    T = rng.choice([1000, 1000, 125, 50, 4000, 250])
    if rng.random() < 0.1:
        obj = {'kind': 'unseg', 'name': rng.choice(['exact', 'version', 'generic'])}
        nreq, disc = 1, 0
    else:
        nseg = rng.choice([1, 1, 2, 2, 3, 3, 4, 5, 6])
        obj = {'kind': 'seg', 'fbi': _fbis(rng, nseg)}
        r = rng.random()
        disc = 0 if r < 0.3 else nseg - 1 if r < 0.45 else rng.randrange(nseg) if r < 0.95 else nseg
        nreq = nseg + 2
    if rng.random() < 0.5:
        script = _script(rng, nreq, a)
        script += 'd' * rng.randint(0, 3)
    else:
        script = ''.join(rng.choice('ddddddtnv' if rng.random() < 0.2 else 'dddddt') for _ in range(rng.randint(1, 2 * nreq + 2)))
    case = {'obj': obj, 'disc': disc, 'retry': retry, 'script': script, 'timeout_ms': T, 'fresh': rng.random() < 0.5,
            'delays': [_delay(rng, T, o) for o in script]}
    if rng.random() < 0.3:
        case['nack'] = rng.choice(NACK_REASONS)
    return case


def _delayed(rng, tier):
    n = 1500 if tier == 'quick' else 40000
    for _ in range(n):
        yield _delayed_one(rng)


# -- other traffic on the same application while the fetch is running (checked by the oracle only) --------------------
# case['others'] = list of
#   {'kind': 'int', 'at': j, 'lag': ms, 'name': rel, 'lt': ms, 'cbp': bool, 'mbf': bool, 'ans': d|t|n|v|x, 'dly': ms, 'cancel': None|ms}
#       another component of the application expresses an Interest `lag` ms after the producer saw the fetcher's j-th
#       Interest (j = -1: `lag` ms after time 0, the fetch itself starting at case['start'] ms); its name is relative to that
#       Interest (OTHER_NAMES); the producer answers it after `dly` ms with the Data that matches it / an invalid Data / a
#       Nack / not at all / (x, for a CanBePrefix Interest with a segment's name) with a Data one component longer than
#       the name asked for, which satisfies it but no segment Interest; `cancel`: the component gives up (cancels its task) that many ms after expressing it
#   {'kind': 'fetch', 'at': j, 'lag': ms, 'timeout_ms': T2 != T, 'retry': r, 'script': .., 'delays': [..], ['same': True]}
#       a second segment_fetcher on the same application (at most one; it is judged by the same oracle), see _same()
#   {'kind': 'in', 'at': j, 'lag': ms, 'name': rel, 'cbp': bool, 'reply': bool}
#       an Interest arrives from the network for a prefix the application serves (/obj and /local); the handler
#       answers with put_data or not
OTHER_NAMES = ['cur', 'next', 'prefix', 'base', 'deeper', 'sibling', 'unrelated']


def _other_int(rng, T, at, name=None):
    name = name or rng.choice(['cur', 'cur', 'cur', 'next', 'next', 'prefix', 'prefix', 'base', 'deeper', 'sibling', 'unrelated'])
    lt = max(1, rng.choice([1, T // 20, T // 10, T // 4, T // 2, T - 1, T, T, T + 1, 2 * T, 4 * T]))
    ans = rng.choice('dddddttttnv')
    o = {'kind': 'int', 'at': at, 'lag': rng.choice([0, 0, 0, 1, T // 10, T // 4, T // 2, max(0, T - 1), T, T + 1]),
         'name': name, 'lt': lt, 'cbp': rng.random() < (0.6 if name in ('prefix', 'base') else 0.15), 'mbf': rng.random() < 0.5,
         'ans': ans, 'dly': _delay(rng, lt, ans), 'cancel': None}
    if rng.random() < 0.25:
        o['cancel'] = rng.choice([0, 1, lt // 2, max(0, lt - 1), T // 4])
    if name in ('cur', 'next') and at > 0 and rng.random() < 0.2:
        o.update(cbp=True, ans='x')
    return o


def _second_fetch(rng, T, at, nreq):
    T2 = rng.choice([x for x in (T // 4, T // 2, T - 1, T + 1, 2 * T, 3 * T) if x > 0 and x != T])
    script = ''.join(rng.choice('ddddddtv' if rng.random() < 0.15 else 'dddddt') for _ in range(rng.randint(0, nreq + 2)))
    return dict({'kind': 'fetch', 'at': at, 'lag': rng.choice([0, 0, 1, T // 10, T // 2, T]), 'timeout_ms': T2,
                 'retry': rng.choice([0, 1, 2, 3]), 'script': script, 'delays': [_delay(rng, T2, o) for o in script]}, **_same(rng))


def _same(rng=None):
    """A second fetch on the same application fetches the SAME object (half of the cases) or an object of the same shape
    under another prefix.  Two fetches of one object used to step on each other's names (the fetcher wrote the next
    segment number into the name list express_interest returned, which the legacy NDNApp hands to every Interest the
    same Data satisfied): repaired in /repo (fix: segment_fetcher builds a new name list for every Interest), the
    reverse patch is mutants/C19/shared-name-list.diff."""
    import os
    if os.environ.get('VERIF_C19_SAME_OBJECT') == '0':
        return {}
    return {'same': True} if (rng is None or rng.random() < 0.5) else {}


def _busy_targeted(rng, tier):
    """the grid: which name (that of the fetcher's Interest in progress / of the one it sends next / the prefix) x during the
    discovery or a segment Interest x expressed with / after the fetcher's x lifetime shorter / equal / longer x what
    becomes of it (times out, answered, given up), the fetcher's own answers taking half a lifetime; other Interests and a
    second fetcher that were there before the fetch began; a second fetcher beside it; Interests coming in"""
    seg3 = {'kind': 'seg', 'fbi': [None, None, 2]}
    for T in ((1000,) if tier == 'quick' else (1000, 125, 4000)):
        d = T // 2
        base = {'obj': seg3, 'disc': 0, 'timeout_ms': T, 'fresh': True, 'script': 'ddd', 'delays': [d, d, d]}
        for name in ('cur', 'next', 'prefix'):
            for at in (0, 1):
                for lag in (0, T // 10):
                    for lt in (T // 20, T, 3 * T):
                        for ans, dly, cancel in (('t', 0, None), ('d', d, None), ('t', 0, T // 5)):
                            yield dict(base, retry=rng.choice([1, 3]),
                                       others=[{'kind': 'int', 'at': at, 'lag': lag, 'name': name, 'lt': lt, 'cbp': name == 'prefix',
                                                'mbf': rng.random() < 0.5, 'ans': ans, 'dly': dly, 'cancel': cancel}])
        # under the name of a segment a longer Data exists: it answers a CanBePrefix Interest, never the fetcher's
        for name in ('cur', 'next'):
            for lag, dly in ((0, T // 4), (T // 10, T // 10), (0, T // 2 + 1)):
                for lt in (T // 2, 2 * T):
                    yield dict(base, retry=rng.choice([1, 3]),
                               others=[{'kind': 'int', 'at': 1, 'lag': lag, 'name': name, 'lt': lt, 'cbp': True, 'mbf': False, 'ans': 'x',
                                        'dly': dly, 'cancel': None}])
        # what was there before the fetch began, still waiting when the fetcher asks for the same name
        for name, cbp in (('prefix', True), ('prefix', False), ('seg:0', False), ('seg:1', False), ('base', True)):
            for lt in (T // 2, 4 * T):
                for ans in 'td':
                    yield dict(base, retry=2, start=T // 10, script='dtdd', delays=[d, 0, d, d],
                               others=[{'kind': 'int', 'at': -1, 'lag': 0, 'name': name, 'lt': lt, 'cbp': cbp, 'mbf': False,
                                        'ans': ans, 'dly': T, 'cancel': None}])
        # a second fetcher of the same object: impatient or patient, starting with / a little after / well after the first,
        # all its Interests answered or some lost
        for T2 in (T // 4, 2 * T):
            for at, lag in ((-1, 0), (0, 0), (0, T // 10), (1, T // 4)):
                for script2, dl2 in (('', []), ('dtd', [T // 8, 0, T // 8]), ('ddd', [T2 + 1, T2 - 1, 0])):
                    yield dict(base, retry=rng.choice([1, 2, 3]), start=rng.choice([0, T // 10]),
                               others=[dict({'kind': 'fetch', 'at': at, 'lag': lag, 'timeout_ms': T2, 'retry': rng.choice([1, 3]),
                                             'script': script2, 'delays': dl2}, **_same())])
        # Interests coming in for what the application serves, while it fetches
        for name in ('cur', 'next', 'prefix', 'unrelated'):
            for at in (0, 1):
                for reply in (True, False):
                    yield dict(base, retry=1, others=[{'kind': 'in', 'at': at, 'lag': T // 10, 'name': name, 'cbp': name == 'prefix',
                                                       'reply': reply}])


def _busy(rng, tier):
    n = 380 if tier == 'quick' else 10000
    for _ in range(n):
        case = _delayed_one(rng)
        T = case['timeout_ms']
        if case['script'].count('n') + case['script'].count('v') and rng.random() < 0.6:
            case['script'] = case['script'].replace('n', 'd').replace('v', 'd')
            case['delays'] = [_delay(rng, T, o) for o in case['script']]
        nreq = len(case['obj'].get('fbi', [])) + 2
        if rng.random() < 0.3:
            case['start'] = rng.choice([1, T // 10, T // 2, T])
        others = []
        for _ in range(rng.choice([1, 1, 2, 2, 3, 4])):
            at = rng.choice([-1, 0, 0, 1, 1, 2, rng.randrange(nreq + 1)])
            r = rng.random()
            if r < 0.72:
                others.append(_other_int(rng, T, at))
            elif r < 0.86 and not any(o['kind'] == 'fetch' for o in others):
                others.append(_second_fetch(rng, T, at, nreq))
            else:
                others.append({'kind': 'in', 'at': at, 'lag': rng.choice([0, 1, T // 10, T // 2]), 'cbp': rng.random() < 0.5,
                               'name': rng.choice(['cur', 'next', 'prefix', 'deeper', 'unrelated']), 'reply': rng.random() < 0.6})
        case['others'] = others
        yield case


# -- the user's validator follows a script (checked by the oracle only) ------------------------------------------------
# case['val'] = {'via': 'arg' | 'app', 'script': [action of the 1st call, of the 2nd call, ...]}  (further calls: {'do': 'ok'})
#   'via': the validator is given to segment_fetcher(validator=...) / is the application's data_validator (validator=None)
#   action = {'do': .., 'lat': ms the validator takes before it does it (default 0), ...}
#     ok             the verdict the packet deserves (the DigestSha256 signature is checked, as in every other stream)
#     false          rejects
#     raise, cls     raises an exception of that class (VAL_RAISES)
#     waitfor, w     gives up on something of its own after w ms with asyncio.wait_for -> builtin TimeoutError
#     inner-cancel   awaits a task of its own that somebody cancelled -> CancelledError
#     cert, ans, lt, dly, bound   re-entrancy: fetches a certificate with express_interest on the same application (lifetime
#                    lt; the producer answers with Data / a Nack / not at all after dly ms), under asyncio.wait_for(bound ms)
#                    if bound is given; with the certificate: the verdict the packet deserves, otherwise whatever came out
VAL_RAISES = ['TimeoutError', 'asyncio.TimeoutError', 'TimeoutError-subclass', 'CancelledError', 'InterestNack', 'InterestCanceled',
              'ValidationFailure', 'NetworkError', 'DecodeError', 'KeyError', 'IndexError', 'ValueError', 'TypeError',
              'AttributeError', 'AssertionError', 'OSError', 'ConnectionResetError', 'InvalidStateError', 'StopIteration',
              'StopAsyncIteration', 'RuntimeError', 'user-defined']
# A validator that lets an InterestTimeout escape (its own certificate Interest timed out): see _val_timeouts()
VAL_RAISES_TIMEOUT = ['InterestTimeout', 'InterestTimeout-subclass']


def _val_timeouts():
    """FINDING on the unchanged library (reported, not in the default stream): segment_fetcher's retry loop takes an
    InterestTimeout that came out of the user's VALIDATOR (e.g. the validator's own certificate Interest timed out) for a
    timeout of the segment's Interest - the segment, which was answered in time, is requested again and the validation failure is
    skipped (or ends as the fetch's timeout).  VERIF_C19_VALIDATOR_INTEREST_TIMEOUT=1 puts these validators into the stream."""
    return os.environ.get('VERIF_C19_VALIDATOR_INTEREST_TIMEOUT') == '1'


def _val_failures(rng, T):
    """every way in which a validation fails"""
    f = [{'do': 'false'}] + [{'do': 'raise', 'cls': c} for c in VAL_RAISES + (VAL_RAISES_TIMEOUT if _val_timeouts() else [])]
    f += [{'do': 'waitfor', 'w': max(1, T // 50)}, {'do': 'waitfor', 'w': 2 * T}, {'do': 'inner-cancel'},
          {'do': 'cert', 'ans': 't', 'lt': 4 * T, 'dly': 0, 'bound': max(1, T // 10)},
          {'do': 'cert', 'ans': 'd', 'lt': 4 * T, 'dly': 2 * T, 'bound': T + 1},
          {'do': 'cert', 'ans': 'n', 'lt': T, 'dly': T // 10}, {'do': 'cert', 'ans': 'n', 'lt': 4 * T, 'dly': T + 1}]
    if _val_timeouts():
        f += [{'do': 'cert', 'ans': 't', 'lt': max(1, T // 4), 'dly': 0}, {'do': 'cert', 'ans': 'd', 'lt': T, 'dly': T}]
    return f


def _val_lat(rng, T):
    return rng.choice([1, T // 10, T // 2, max(0, T - 1), T, T + 1, 2 * T, 3 * T])


def _validating_targeted(rng, tier):
    """the grid: every way in which a validation fails x at the discovery Interest / a middle segment / the last one x once or
    at every call x validator given to the fetcher / installed on the application; validators that take around / beyond a
    lifetime (alone, or together with the answer's travel time) and then accept, reject or raise; validators that fetch
    a certificate first and accept (quickly, or after more than the segment's lifetime)"""
    seg3 = {'kind': 'seg', 'fbi': [None, None, 2]}
    ok = {'do': 'ok'}
    i = 0
    for T in ((1000,) if tier == 'quick' else (1000, 50, 4000)):
        base = {'obj': seg3, 'disc': 0, 'timeout_ms': T, 'fresh': True, 'script': ''}
        for f in _val_failures(rng, T):
            for pos in (0, 1, 2):
                for always in (False, True):
                    i += 1
                    yield dict(base, retry=rng.choice([1, 2, 3, 4]), disc=rng.choice([0, 0, 1, 2]),
                               val={'via': 'app' if i % 3 == 0 else 'arg', 'script': [ok] * pos + [f] * (12 if always else 1)})
            i += 1
            # after losses, the answers travelling; an unsegmented object
            yield dict(base, retry=3, script='tdttd', delays=[0, T // 4, 0, 0, T - 1],
                       val={'via': 'app' if i % 3 == 0 else 'arg', 'script': [ok, dict(f, lat=rng.choice([0, 1, T // 4]))]})
            yield dict(base, obj={'kind': 'unseg', 'name': rng.choice(['exact', 'version', 'generic'])}, retry=rng.choice([1, 3]),
                       val={'via': 'arg' if i % 3 == 0 else 'app', 'script': [f] * rng.choice([1, 12])})
        # slow validators: the lifetime is the Interest's, not the validator's
        for lat in (T // 2, T - 1, T, T + 1, 3 * T):
            for pos in (0, 1, 2):
                for then in (ok, {'do': 'false'}, {'do': 'raise', 'cls': 'TimeoutError'}, {'do': 'raise', 'cls': 'user-defined'},
                             {'do': 'cert', 'ans': 'd', 'lt': 4 * T, 'dly': T // 2}):
                    i += 1
                    d = rng.choice([0, T // 2, T - 1])
                    yield dict(base, retry=rng.choice([1, 2, 3]), script='ddd', delays=[d, d, d],
                               val={'via': 'app' if i % 3 == 0 else 'arg', 'script': [ok] * pos + [dict(then, lat=lat)] * 12})
        # every validation needs a certificate that is fetched first: quickly, slowly, longer than the segment's lifetime
        for dly in (0, T // 2, T, 2 * T + 1):
            for bound in (None, 3 * T):
                i += 1
                c = {'do': 'cert', 'ans': 'd', 'lt': 4 * T, 'dly': dly}
                if bound:
                    c['bound'] = bound
                yield dict(base, retry=rng.choice([1, 3]), script='dtd', delays=[T // 4, 0, T // 4],
                           val={'via': 'app' if i % 2 else 'arg', 'script': [c] * 6})


def _val_action(rng, T, fails):
    r = rng.random()
    if r < 0.62:
        a = {'do': 'ok'}
    elif r < 0.7:
        a = {'do': 'cert', 'ans': 'd', 'lt': rng.choice([T, 4 * T]), 'dly': rng.choice([0, 1, T // 4, T - 1])}
    else:
        a = dict(rng.choice(fails))
    if rng.random() < 0.3:
        a['lat'] = _val_lat(rng, T)
    return a


def _validating(rng, tier):
    n = 260 if tier == 'quick' else 12000
    for k in range(n):
        case = _delayed_one(rng)
        T = max(1, case['timeout_ms'])
        nreq = len(case['obj'].get('fbi', [])) + 2
        if rng.random() < 0.7:
            # mostly: the network behaves, the validator does not
            case['script'] = case['script'].replace('n', 'd').replace('v', 'd')
        fails = _val_failures(rng, T)
        case['val'] = {'via': rng.choice(['arg', 'arg', 'app']),
                       'script': [_val_action(rng, T, fails) for _ in range(rng.randint(1, nreq + 1))]}
        if rng.random() < 0.2:
            # the fetch is not alone on its application either
            case['others'] = [_other_int(rng, T, rng.choice([-1, 0, 1, 1, 2])) if rng.random() < 0.75 else
                              {'kind': 'in', 'at': rng.choice([0, 1, 2]), 'lag': rng.choice([0, 1, T // 10]), 'cbp': rng.random() < 0.5,
                               'name': rng.choice(['cur', 'next', 'prefix', 'unrelated']), 'reply': rng.random() < 0.6}
                              for _ in range(rng.choice([1, 1, 2]))]
        yield case


def cases(rng, tier):
    yield from _targeted(rng, tier)
    yield from _delayed_targeted(rng, tier)
    yield from _delayed(rng, tier)
    n = 2000 if tier == 'quick' else 60000
    for _ in range(n):
        retry = rng.choice([0, 1, 2, 3, 3, 4])
        a = max(1, retry)
        if rng.random() < 0.12:
            obj = {'kind': 'unseg', 'name': rng.choice(['exact', 'version', 'generic'])}
            nreq, disc = 1, 0
        else:
            nseg = rng.choice([0, 1, 1, 2, 2, 3, 3, 4, 5, 6, 8] + ([10, 12] if tier != 'quick' else []))
            obj = {'kind': 'seg', 'fbi': _fbis(rng, nseg)}
            r = rng.random()
            disc = 0 if r < 0.3 else max(0, nseg - 1) if r < 0.45 else rng.randrange(max(1, nseg)) if r < 0.93 else nseg + rng.choice([0, 2])
            nreq = nseg + 2
        case = {'obj': obj, 'disc': disc, 'retry': retry, 'script': _script(rng, nreq, a),
                'timeout_ms': rng.choice([4000, 1000, 50]), 'fresh': rng.random() < 0.5}
        if rng.random() < 0.3:
            case['nack'] = rng.choice(NACK_REASONS)
        if rng.random() < 0.2:
            case['name_form'] = rng.choice(['str', 'wire'])
        if obj['kind'] == 'seg' and obj['fbi'] and rng.random() < 0.06:
            obj['content'] = {str(rng.randrange(len(obj['fbi']))): rng.choice(['empty', 'absent'])}
        yield case
    yield from _busy_targeted(rng, tier)
    yield from _busy(rng, tier)
    yield from _validating_targeted(rng, tier)
    yield from _validating(rng, tier)
    yield from _transported(rng, tier)


def _transported(rng, tier):
    """fetches (plain, delayed answers, other traffic, validating) whose packets reach the application through the REAL
    stream transport - a TcpFace / UnixFace whose own run() loop frames an in-memory byte stream (apphelp.TransportRig):
    packets of one instant in one chunk or one by one, chunks cut into segments.  For EVERY case of the plugin the
    items the fetcher yielded are kept as the objects they are and read again when the fetch is over."""
    n = 250 if tier == 'quick' else 4000
    srcs = [_delayed(rng, 'quick'), _busy(rng, 'quick'), _validating(rng, 'quick')]
    for k in range(n):
        c = None
        if k % 4:
            c = next(srcs[k % 4 - 1], None)
        if c is None:
            nseg = rng.choice([1, 2, 3, 3, 4, 5, 6, 8])
            retry = rng.choice([0, 1, 2, 3])
            c = {'obj': {'kind': 'seg', 'fbi': _fbis(rng, nseg)}, 'disc': rng.randrange(nseg), 'retry': retry,
                 'script': _script(rng, nseg + 2, max(1, retry)), 'timeout_ms': rng.choice([4000, 1000, 50]),
                 'fresh': rng.random() < 0.5}
        c['via'] = 'unix' if k % 2 else 'stream'
        c['chunk'] = rng.random() < 0.6
        c['seg'] = rng.choice([0, 0, 1, 9, 1460])
        yield c


def _shrink_others(case):
    oth = case['others']
    for i in range(len(oth)):
        rest = oth[:i] + oth[i + 1:]
        yield dict(case, others=rest) if rest else {a: b for a, b in case.items() if a != 'others'}
    for i, o in enumerate(oth):
        def put(**kw):
            return dict(case, others=oth[:i] + [dict(o, **kw)] + oth[i + 1:])
        if o['lag'] > 1:
            yield put(lag=0)
            yield put(lag=o['lag'] // 2)
        if o['kind'] == 'int':
            if o.get('cancel') is not None:
                yield put(cancel=None)
            if o['dly'] > 0:
                yield put(dly=0)
            if o['ans'] in 'nvdx':
                yield put(ans='t', dly=0)
            for k in ('cbp', 'mbf'):
                if o[k]:
                    yield put(**{k: False})
        elif o['kind'] == 'fetch':
            s2, d2 = o['script'], _delays(o)
            for k in range(len(s2)):
                yield put(script=s2[:k] + s2[k + 1:], delays=d2[:k] + d2[k + 1:])
            if any(d2):
                yield put(delays=[0] * len(s2))
        elif o['reply']:
            yield put(reply=False)
    if case.get('start'):
        yield {a: b for a, b in case.items() if a != 'start'}


def _shrink_val(case):
    v = case['val']
    sc = v['script']
    if all(a == {'do': 'ok'} for a in sc) and v['via'] == 'arg':
        yield {a: b for a, b in case.items() if a != 'val'}
    if sc:
        yield dict(case, val=dict(v, script=sc[:-1]))
    if len(sc) > 3 and sc[-1] == sc[-2]:
        yield dict(case, val=dict(v, script=sc[:len(sc) // 2 + 1]))
    for i, a in enumerate(sc):
        def put(b):
            return dict(case, val=dict(v, script=sc[:i] + [b] + sc[i + 1:]))
        if a.get('lat'):
            yield put({k: x for k, x in a.items() if k != 'lat'})
            if a['lat'] > 1:
                yield put(dict(a, lat=a['lat'] // 2))
        elif a != {'do': 'ok'}:
            yield put({'do': 'ok'})
    if v['via'] == 'app':
        yield dict(case, val=dict(v, via='arg'))


def shrink(case):
    if case.get('val'):
        yield from _shrink_val(case)
    if case.get('others'):
        yield from _shrink_others(case)
    s = case['script']
    if case.get('delays'):
        dl = _delays(case)
        for i in range(len(s)):
            yield dict(case, script=s[:i] + s[i + 1:], delays=dl[:i] + dl[i + 1:])
        if not any(dl):
            yield {a: b for a, b in case.items() if a != 'delays'}
        T = case['timeout_ms']
        for i, d in enumerate(dl):
            for d2 in (0, T - 1, T, T + 1, d // 2):
                if 0 <= d2 < d:
                    yield dict(case, delays=dl[:i] + [d2] + dl[i + 1:])
    else:
        for i in range(len(s)):
            yield dict(case, script=s[:i] + s[i + 1:])
    o = case['obj']
    if o['kind'] == 'seg':
        f = o['fbi']
        extra = {k: {i: v for i, v in o[k].items() if int(i) < len(f) - 1} for k in ('content', 'fbi_type') if k in o}
        if f:
            yield dict(case, obj=dict(extra, kind='seg', fbi=f[:-1]), disc=min(case['disc'], max(0, len(f) - 2)))
        if len(f) > 40:
            yield dict(case, obj=dict(extra, kind='seg', fbi=f[:len(f) // 2]), disc=min(case['disc'], len(f) // 2 - 1))
        for i, x in enumerate(f[:40]):
            if x is not None:
                yield dict(case, obj=dict(o, fbi=f[:i] + [None] + f[i + 1:]))
    for k in ('content', 'fbi_type'):
        if k in o:
            yield dict(case, obj={a: b for a, b in o.items() if a != k})
    for k in ('nack', 'name_form'):
        if k in case:
            yield {a: b for a, b in case.items() if a != k}
    if o['kind'] == 'seg' and case['disc'] > 0:
        yield dict(case, disc=0)
        yield dict(case, disc=case['disc'] - 1)
    if case['retry'] > 1:
        yield dict(case, retry=case['retry'] - 1)


# -------------------------------------------------------------------------------- implementation
def _delays(case):
    d = list(case.get('delays') or [])
    return d + [0] * (len(case['script']) - len(d))


OTHER_NONCE = 0xC1900000      # nonces the harness gives to the Interests of the other components (the fetchers draw theirs)
VAL_NONCE = 0xC1A00000        # ... to the Interests the scripted validator expresses (VAL_NONCE + number of the validator call)
CERT_PREFIX = '/keys/cert'


def _val_exception(cls, name, sig):
    """an exception of the class a scripted validator is to raise"""
    import asyncio
    from ndn import types as ndn_types
    from ndn import encoding as enc
    from ndn.encoding.tlv_model import DecodeError
    if cls == 'TimeoutError-subclass':
        return type('CertificateLookupTimeout', (TimeoutError,), {})()
    if cls == 'InterestTimeout-subclass':
        return type('CertificateInterestTimeout', (ndn_types.InterestTimeout,), {})()
    if cls == 'user-defined':
        return type('ScriptedValidatorError', (Exception,), {})('scripted')
    if cls == 'InterestNack':
        return ndn_types.InterestNack(100)
    if cls == 'ValidationFailure':
        return ndn_types.ValidationFailure(name, enc.MetaInfo(), b'certificate', sig)
    if cls == 'KeyError':
        return KeyError('no such key')
    table = {'TimeoutError': TimeoutError, 'asyncio.TimeoutError': asyncio.TimeoutError, 'CancelledError': asyncio.CancelledError,
             'InterestTimeout': ndn_types.InterestTimeout, 'InterestCanceled': ndn_types.InterestCanceled,
             'NetworkError': ndn_types.NetworkError, 'DecodeError': DecodeError, 'IndexError': IndexError, 'ValueError': ValueError,
             'TypeError': TypeError, 'AttributeError': AttributeError, 'AssertionError': AssertionError, 'OSError': OSError,
             'ConnectionResetError': ConnectionResetError, 'InvalidStateError': asyncio.InvalidStateError,
             'StopIteration': StopIteration, 'StopAsyncIteration': StopAsyncIteration, 'RuntimeError': RuntimeError}
    return table[cls]()


def run_impl(case):
    import asyncio, hashlib, heapq, itertools
    from ndn import encoding as enc
    from ndn import types as ndn_types
    from ndn.encoding.ndnlp_v2 import make_network_nack
    from ndn.app_support.segment_fetcher import segment_fetcher
    from ndn.security import DigestSha256Signer
    Component, Name = enc.Component, enc.Name
    prefix = Name.from_str(PREFIX)
    pfx = [bytes(c) for c in prefix]
    ver = Component.from_version(1)
    base_name = pfx + [bytes(ver)]
    obj = case['obj']
    fbis = obj.get('fbi', [])
    T = case['timeout_ms']
    events, flight, flags = [], [], []       # everything in order; packets on their way
    others = case.get('others') or []
    busy = bool(others)
    signer = DigestSha256Signer()
    # the fetch the case is about (who = 1) and, among the other traffic, possibly a second fetch of the same object (who = 2)
    main = {'who': 1, 'T': T, 'retry': case['retry'], 'script': list(zip(case['script'], _delays(case))), 'log': [],
            'namelog': [], 'sent': [], 'yielded': [], 'box': {}, 'task': None, 'fresh': case['fresh'], 'nack': case.get('nack', 150), 'prefix': prefix}
    second = None
    for idx, o in enumerate(others):
        if o['kind'] == 'fetch' and second is None:
            second = {'who': 2, 'T': o['timeout_ms'], 'retry': o['retry'], 'script': list(zip(o['script'], _delays(o))), 'log': [],
                      'namelog': [], 'sent': [], 'yielded': [], 'box': {}, 'task': None, 'fresh': case['fresh'], 'nack': 150,
                      'idx': idx, 'scheduled': False, 'same': bool(o.get('same')),
                      'prefix': prefix if o.get('same') else Name.from_str(PREFIX2)}
    others_out = {}
    val = case.get('val')
    vscript = list(val['script']) if val else []
    vcount = itertools.count()

    def content_of(i, normal):
        # 'empty' = a Content element of length 0, 'absent' = no Content element
        kind = obj.get('content', {}).get(str(i))
        return b'' if kind == 'empty' else None if kind == 'absent' else normal

    def seg_packet(i, prefix=prefix):
        fb = fbis[i]
        # the FinalBlockId normally is the segment component of `fb`; 'fbi_type' puts the same number under another type
        fbt = obj.get('fbi_type', {}).get(str(i), Component.TYPE_SEGMENT)
        meta = enc.MetaInfo(final_block_id=None if fb is None else Component.from_number(fb, fbt))
        return enc.make_data(prefix + [ver, Component.from_segment(i)], meta, content_of(i, b'c%d' % i), signer=signer)

    unseg_names = {'exact': prefix, 'version': prefix + [ver], 'generic': prefix + [Component.from_str('file.txt')]}

    def unseg_packet(prefix=prefix):
        nm = {'exact': prefix, 'version': prefix + [ver], 'generic': prefix + [Component.from_str('file.txt')]}[obj['name']]
        return enc.make_data(nm, enc.MetaInfo(), content_of(0, b'c%d' % UNSEG_ID), signer=signer)

    async def validator(name, sig, *a):
        # the verdict is a function of the packet: its DigestSha256 signature is checked (an invalid Data is one whose
        # signature value was damaged on the way)
        h = hashlib.sha256()
        for blk in sig.signature_covered_part:
            h.update(blk)
        return bytes(sig.signature_value_buf) == h.digest()

    async def scripted_validator(name, sig, *a):
        # the user's validator of the validating stream: what it does at its k-th call is case['val']['script'][k]; what it
        # was called for and what came out of it is recorded (event V) - the oracle judges by what the validator DID
        k = next(vcount)
        act = vscript[k] if k < len(vscript) else {'do': 'ok'}
        do = act['do']
        ev = {'k': 'V', 't': now_ms(), 'call': k, 'do': do + (':' + act['cls'] if do == 'raise' else ''), 'name': Name.to_str(name),
              'out': None}
        events.append(ev)
        own_cancel = do == 'inner-cancel' or (do == 'raise' and act['cls'] == 'CancelledError')
        try:
            if act.get('lat'):
                await asyncio.sleep(act['lat'] / 1000.0)
            if do == 'raise':
                raise _val_exception(act['cls'], name, sig)
            if do == 'waitfor':
                await asyncio.wait_for(rig.loop.create_future(), timeout=act['w'] / 1000.0)
            elif do == 'inner-cancel':
                inner = rig.loop.create_task(asyncio.sleep(3600))
                rig.loop.call_soon(inner.cancel)
                await inner
            elif do == 'cert':
                co = rig.app.express_interest(Name.from_str(CERT_PREFIX) + [Component.from_number(k, Component.TYPE_GENERIC)],
                                              validator=validator, lifetime=act['lt'], nonce=VAL_NONCE + k)
                if act.get('bound') is not None:
                    await asyncio.wait_for(co, timeout=act['bound'] / 1000.0)
                else:
                    await co
            verdict = False if do == 'false' else await validator(name, sig)
            ev['out'] = 'True' if verdict else 'False'
            return verdict
        except asyncio.CancelledError as e:
            # its own (scripted) cancellation, or the caller of the validator gave it up
            ev['out'] = 'raise:' + type(e).__name__ if own_cancel else 'abandoned'
            raise
        except BaseException as e:
            ev['out'] = 'raise:' + type(e).__name__
            raise
        finally:
            ev['t_end'] = now_ms()

    with (TransportRig('v1', via=case['via']) if case.get('via') else AppRig('v1')) as rig:
        t0 = rig.loop.time()
        _settle = rig.loop.settle
        rig.loop.settle = lambda limit=5000: _settle(limit)      # a fetcher that spins at one instant is a hang, soon

        def now_ms():
            return int(round((rig.loop.time() - t0) * 1000))

        form = case.get('name_form', 'list')
        given = PREFIX if form == 'str' else Name.to_bytes(PREFIX) if form == 'wire' else Name.from_str(PREFIX)

        async def consume(F, gen, start):
            if start:
                await asyncio.sleep(start / 1000.0)
            try:
                async for c in gen:
                    F['yielded'].append(None if c is None else bytes(c))
                    F.setdefault('kept', []).append(c)       # the caller keeps what it was given (read again at the end)
                F['box']['end'] = 'done'
            except (BaseException if val else Exception) as e:     # noqa  (a scripted validator may raise CancelledError)
                F['box']['end'] = type(e).__name__
                F['box']['reason'] = getattr(e, 'reason', None)
            F['box']['end_ms'] = now_ms()

        def start_fetch(F, start=0):
            v = validator
            if val and F is main:
                v = scripted_validator
                if val['via'] == 'app':
                    rig.app.data_validator, v = scripted_validator, None
            gen = segment_fetcher(rig.app, given if F is main else list(F['prefix']), timeout=F['T'], retry_times=F['retry'],
                                  validator=v, must_be_fresh=F['fresh'])
            F['task'] = rig.loop.create_task(consume(F, gen, start))

        # ---- the other components of the application
        def rel_name(rel, trig_name, trig_req):
            """the name an other Interest carries, relative to the Interest of the fetcher that triggered it"""
            if rel.startswith('seg:'):
                return base_name + [bytes(Component.from_segment(int(rel[4:])))]
            cur = pfx if trig_name is None else trig_name
            if rel == 'cur':
                return list(cur)
            if rel == 'next':
                if trig_req is None or trig_req == 'D':
                    nxt = 1 if (case['disc'] == 0 and obj['kind'] == 'seg') else 0
                else:
                    nxt = int(trig_req[1:]) + 1 if trig_req[1:].isdigit() else 0
                return base_name + [bytes(Component.from_segment(nxt))]
            if rel == 'prefix':
                return list(pfx)
            if rel == 'base':
                return list(base_name)
            if rel == 'deeper':
                return list(cur) + [bytes(Component.from_str('x'))]
            if rel == 'sibling':
                return pfx + [bytes(Component.from_version(2)), bytes(Component.from_segment(0))]
            return [bytes(c) for c in Name.from_str('/local/x' if rel == 'unrelated-local' else '/elsewhere/x')]

        def data_for(name, cbp):
            """the Data of the object that satisfies an Interest with this name: (make packet, segment number, unsegmented?)"""
            if obj['kind'] == 'unseg':
                dn = [bytes(c) for c in unseg_names[obj['name']]]
                return (unseg_packet, None, True) if (name == dn or (cbp and dn[:len(name)] == name)) else None
            if len(name) == len(base_name) + 1 and name[:-1] == base_name and Component.get_type(name[-1]) == Component.TYPE_SEGMENT:
                i = Component.to_number(name[-1])
                return ((lambda: seg_packet(i)), i, False) if i < len(fbis) else None
            if cbp and name == base_name[:len(name)] and fbis:
                i = case['disc'] if case['disc'] < len(fbis) else 0
                return ((lambda: seg_packet(i)), i, False)
            return None

        def fetcher_name(name):
            return name == pfx or (len(name) == len(base_name) + 1 and name[:-1] == base_name)

        async def other_interest(idx, o, name):
            try:
                await rig.app.express_interest(name, validator=validator, can_be_prefix=o['cbp'], must_be_fresh=o['mbf'],
                                               lifetime=o['lt'], nonce=OTHER_NONCE + idx)
                others_out[idx] = 'data'
            except (ndn_types.InterestTimeout, ndn_types.InterestNack, ndn_types.InterestCanceled,
                    ndn_types.ValidationFailure) as e:
                others_out[idx] = type(e).__name__

        def on_incoming(name, param, app_param):
            key = _name_hex(name)
            events.append({'k': 'O', 't': now_ms(), 'what': 'incoming-handled'})
            if incoming_reply.get(key):
                rig.app.put_data(name, content=b'served-locally', freshness_period=1000)

        incoming_reply, other_trig = {}, {}

        def start_other(idx, trig_name, trig_req):
            o = others[idx]
            if o['kind'] == 'fetch':
                if second is not None and second['idx'] == idx:
                    start_fetch(second)
                return
            rel = o['name']
            if o['kind'] == 'in' and rel == 'unrelated':
                rel = 'unrelated-local'
            name = rel_name(rel, trig_name, trig_req)
            events.append({'k': 'O', 't': now_ms(), 'what': o['kind'], 'idx': idx, 'name': Name.to_str(name)})
            if o['kind'] == 'in':
                incoming_reply[_name_hex(name)] = o['reply']
                wire = bytes(enc.make_interest(name, enc.InterestParam(can_be_prefix=o['cbp'], lifetime=4000, nonce=idx + 1)))
                if case.get('via'):
                    rig.face.reader.feed_data(wire)
                else:
                    rig.loop.create_task(rig.face.callback(0x05, wire))
                return
            other_trig[idx] = trig_req
            t = rig.loop.create_task(other_interest(idx, o, name))
            if o.get('cancel') is not None:
                rig.loop.call_later(o['cancel'] / 1000.0, t.cancel)

        def trigger(j, trig_name, trig_req):
            for idx, o in enumerate(others):
                if o['at'] == j:
                    if o['kind'] == 'fetch' and second is not None and second['idx'] == idx:
                        second['scheduled'] = True
                    rig.loop.call_later(o['lag'] / 1000.0, start_other, idx, trig_name, trig_req)

        state = {'seen': 0}
        order = itertools.count()

        def producer():
            """look at every Interest the application has written since the last call and put the answer the script
            gives on its way"""
            new = rig.face.sent[state['seen']:]
            state['seen'] = len(rig.face.sent)
            for w in new:
                if busy and w[:1] != b'\x05':
                    events.append({'k': 'O', 't': now_ms(), 'what': 'data-out'})     # the answer of the application's own handler
                    continue
                try:
                    name, param, _, _ = enc.parse_interest(w)
                except Exception:      # noqa
                    main['log'].append(['?', 'x'])
                    events.append({'k': 'I', 't': now_ms(), 'req': '?'})
                    continue
                name = [bytes(c) for c in name]
                if val and param.nonce is not None and VAL_NONCE <= param.nonce < VAL_NONCE + len(vscript):
                    # the validator's own Interest (for a certificate): answered as its script says
                    act = vscript[param.nonce - VAL_NONCE]
                    events.append({'k': 'O', 't': now_ms(), 'what': 'validator-interest', 'name': Name.to_str(name)})
                    if act.get('ans') in ('d', 'n'):
                        wire = (bytes(make_network_nack(w, 100)) if act['ans'] == 'n' else
                                bytes(enc.make_data(name, enc.MetaInfo(), b'certificate', signer=signer)))
                        heapq.heappush(flight, (now_ms() + act.get('dly', 0), next(order), wire,
                                                {'k': 'P', 'kind': act['ans'], 'for': None, 'req': '~validator', 'seg': None,
                                                 'unseg': False, 'val': True}))
                    continue
                if busy and param.nonce is not None and OTHER_NONCE <= param.nonce < OTHER_NONCE + len(others):
                    answer_other(param.nonce - OTHER_NONCE, w, name, param)
                    continue
                # whose Interest: a second fetch of the same object is told by its lifetime, of another object by its prefix
                F = main
                if second is not None and (param.lifetime == second['T'] if second['same'] else name[:1] != pfx[:1]):
                    F = second
                fpre = F['prefix']
                fpfx = [bytes(c) for c in fpre]
                seg = None
                if name == fpfx:
                    req, pkt = 'D', None
                    if obj['kind'] == 'unseg':
                        pkt = lambda: unseg_packet(fpre)
                    elif case['disc'] < len(fbis):
                        seg = case['disc']
                        pkt = lambda: seg_packet(case['disc'], fpre)
                    if not param.can_be_prefix:
                        flags.append('discovery-without-CanBePrefix')
                elif (len(name) == len(fpfx) + 2 and name[:-1] == fpfx + [bytes(ver)]
                      and Component.get_type(name[-1]) == Component.TYPE_SEGMENT):
                    i = Component.to_number(name[-1])
                    req = 'S%d' % i
                    seg = i
                    pkt = (lambda i=i: seg_packet(i, fpre)) if (obj['kind'] == 'seg' and i < len(fbis)) else None
                    if param.can_be_prefix:
                        flags.append('segment-Interest-with-CanBePrefix')
                else:
                    req, pkt = '?' + Name.to_str(name), None
                if param.lifetime != F['T']:
                    flags.append('lifetime')
                if bool(param.must_be_fresh) != case['fresh']:
                    flags.append('must_be_fresh')
                o, dly = F['script'].pop(0) if F['script'] else ('d', 0)
                eff = 'n' if o == 'n' else 't' if (pkt is None or o == 't') else o
                F['namelog'].append([_name_hex(name), eff])
                F['log'].append([req, eff])
                k = len(F['sent'])
                F['sent'].append([req, now_ms()])
                ev = {'k': 'I', 't': now_ms(), 'req': req}
                if F is not main:
                    ev['who'] = 2
                events.append(ev)
                if F is main and busy:
                    trigger(k, name, req)
                if eff == 'n':
                    wire = bytes(make_network_nack(w, F['nack']))
                elif eff == 't':
                    continue
                else:
                    wire = bytearray(pkt())
                    if eff == 'v':
                        wire[-1] ^= 1          # the last byte of the packet is the last byte of the signature value
                    wire = bytes(wire)
                # ordered by arrival time, first sent first among equals
                heapq.heappush(flight, (now_ms() + dly, next(order), wire,
                                        dict({'k': 'P', 'kind': eff, 'for': k if F is main else None, 'req': req,
                                              'seg': None if eff == 'n' else seg, 'unseg': eff != 'n' and obj['kind'] == 'unseg'},
                                             **({'obj2': True} if fpfx != pfx else {}))))

        def answer_other(idx, w, name, param):
            """an Interest of another component: the Data that satisfies it (possibly damaged), a Nack (only for names no
            fetcher ever asks for: whom a Nack for a name shared by two Interests concerns is not this property's business),
            or nothing"""
            o = others[idx]
            ans = o['ans']
            found = data_for(name, bool(param.can_be_prefix))
            if ans == 'n':
                if fetcher_name(name):
                    return
                wire, info = bytes(make_network_nack(w, 150)), {'kind': 'n', 'seg': None, 'unseg': False}
            elif ans == 'x':
                # only once the fetcher is past its discovery Interest (which any Data under the prefix would answer)
                # and no second fetch of the same object is about (its discovery Interest may come at any time)
                if not (param.can_be_prefix and (other_trig.get(idx) or '').startswith('S') and len(name) == len(base_name) + 1
                        and name[:-1] == base_name) or (second is not None and second['same']):
                    return
                wire = bytes(enc.make_data(name + [Component.from_str('x')], enc.MetaInfo(), b'longer-name', signer=signer))
                info = {'kind': 'd', 'seg': None, 'unseg': False, 'longer': True}
            elif ans == 't' or found is None:
                return
            else:
                wire = bytearray(found[0]())
                if ans == 'v':
                    wire[-1] ^= 1
                wire, info = bytes(wire), {'kind': ans, 'seg': found[1], 'unseg': found[2]}
            heapq.heappush(flight, (now_ms() + o['dly'], next(order), wire, dict(info, k='P', req='~other%d' % idx, **{'for': None})))

        def alive(F):
            return F is not None and F['task'] is not None and not F['task'].done()

        def hand_over():
            ta, _, wire, info = heapq.heappop(flight)
            rig.loop.advance(t0 + ta / 1000.0)
            ev = dict(info, t=ta, live=alive(main))
            if second is not None:
                ev['live2'] = alive(second)
            events.append(ev)
            if case.get('via'):
                # through the real stream transport (the library's StreamFace.run frames the byte stream); packets that
                # arrive at the same instant are ONE chunk of it
                while case.get('chunk') and flight and flight[0][0] == ta:
                    _, _, w2, info2 = heapq.heappop(flight)
                    events.append(dict(ev, **info2))
                    wire += w2
                rig.feed(wire, mss=case.get('seg') or 0)
            else:
                rig.deliver(wire)

        def pump():
            producer()
            while busy and rig.loop._busy():
                rig.loop.settle()        # what the other components do at this very instant
                producer()

        def waiting():
            """is a fetch that is judged still to come or running?"""
            return not main['task'].done() or (second is not None and second['scheduled']
                                                and (second['task'] is None or not second['task'].done()))

        try:
            if any(o['kind'] == 'in' for o in others):
                rig.app.set_interest_filter(PREFIX, on_incoming)
                rig.app.set_interest_filter('/local', on_incoming)
            # what the other components do before the fetch is started (lag 0: before it at the same instant)
            for idx, o in enumerate(others):
                if o['at'] == -1:
                    if o['kind'] == 'fetch' and second is not None and second['idx'] == idx:
                        second['scheduled'] = True
                    if o['lag'] == 0:
                        rig.loop.call_soon(start_other, idx, None, None)
                    else:
                        rig.loop.call_later(o['lag'] / 1000.0, start_other, idx, None, None)
            if busy:
                rig.loop.settle()
            start_fetch(main, case.get('start', 0))
            rig.loop.settle()
            steps = 0
            limit = (len(fbis) + 3) * (max(1, case['retry']) + 3) * 4 + 40 + 4 * len(case['script']) + 8 * len(vscript)
            for o in others:
                limit += 8 if o['kind'] != 'fetch' else (len(fbis) + 3) * (max(1, o['retry']) + 3) * 4 + 4 * len(o['script'])
            pump()
            while waiting():
                steps += 1
                w = rig.loop._next_timer()
                w_ms = None if w is None else int(round((w - t0) * 1000))
                if steps > limit or (w is None and not flight):
                    for F in (main, second):
                        if F is not None and (F['task'] is None or not F['task'].done()):
                            F['box']['end'] = 'HANG'
                    break
                if flight and (w_ms is None or flight[0][0] < w_ms):
                    hand_over()              # a packet that arrives before the next timer is due
                else:
                    rig.loop.advance(w)      # timers first when both fall on the same instant
                pump()
            # what is still on its way arrives when nobody waits for it any more: it has to be dropped quietly
            for _ in range(min(len(flight), 64)):
                if not flight:
                    break                # several of them arrived in one chunk
                hand_over()
        except RuntimeError as e:
            if 'did not quiesce' not in str(e):
                raise
            for F in (main, second):
                if F is not None and (F['task'] is None or not F['task'].done()):
                    F['box']['end'] = 'HANG'      # the fetcher spins without the clock moving

        def ids_of(yielded):
            ids = []
            for c in yielded:
                m = re.fullmatch(rb'c(\d+)', c or b'')
                ids.append(int(m.group(1)) if m else EMPTY_ID if not c else -1)
            return ids
        def held_ids(F):
            """the sequence the caller holds now that everything is over (later packets have arrived since each item
            was yielded): it is the sequence that was yielded"""
            then = F['yielded']
            try:
                now = [None if c is None else bytes(c) for c in F.get('kept', [])]
            except Exception:      # noqa
                now = [b'unreadable'] * len(then)
            ids = ids_of(now)
            return ids if now == then else ids + [-1] if ids == ids_of(then) else ids
        box = main['box']
        out = {'yielded': held_ids(main), 'log': main['log'], 'end': box.get('end', '?'), 'flags': sorted(set(flags)),
               'nack_reason': box.get('reason') if box.get('end') == 'InterestNack' else None,
               'namelog': main['namelog'], 'prefix_hex': _name_hex(prefix),
               'base_hex': _name_hex(unseg_names[obj['name']] if obj['kind'] == 'unseg' else prefix + [ver]),
               'sent': main['sent'], 'events': events, 'end_ms': box.get('end_ms'), 'late': _is_late(case),
               'loop_errors': [e for e in rig.loop.errors]}
        if busy:
            out['others_out'] = {str(k): v for k, v in sorted(others_out.items())}
        if second is not None and second['task'] is not None:
            b2 = second['box']
            out['second'] = {'yielded': held_ids(second), 'log': second['log'], 'end': b2.get('end', '?'),
                             'nack_reason': b2.get('reason') if b2.get('end') == 'InterestNack' else None,
                             'sent': second['sent'], 'end_ms': b2.get('end_ms')}
        return out


def _is_late(case):
    """does some answer travel for as long as the lifetime or longer (then the untimed models do not apply)?"""
    return case['timeout_ms'] == 0 or any(o != 't' and d >= case['timeout_ms'] for o, d in zip(case['script'], _delays(case)))


# ------------------------------------------------------------------------------------- model
def _obj_tok(o):
    if o['kind'] == 'unseg':
        return 'u'
    return 's:' + (','.join('~' if x is None else str(x) for x in o['fbi']) if o['fbi'] else '.')


def _timed_args(case):
    ts = ','.join(o + ('' if o == 't' else str(d)) for o, d in zip(case['script'], _delays(case))) or '.'
    return f"{_obj_tok(case['obj'])} {case['disc']} {case['retry']} {case['timeout_ms']} {case.get('nack', 150)} {ts}"


def model_line(case, impl):
    if _oracle_only(case):
        return None         # empty / absent Content and FinalBlockId of another type are outside the model's protocol
    if impl['late']:
        # some answer travels for at least a lifetime: only the timed model (the generator over the pending-Interest table)
        return 'C19 T ' + _timed_args(case)
    # every answer arrives within the lifetime of its own Interest: the untimed number-level and names-level models apply
    # as well (two more arguments: the names-level model runs too and reports every Interest name it builds), and the
    # timed model has to agree with them (refinement theorem `timed_refines_untimed`, sampled here)
    return (f"C19 B {_obj_tok(case['obj'])} {case['disc']} {case['retry']} {case['script'] or '.'} "
            f"{impl['prefix_hex']} {impl['base_hex']} | {_timed_args(case)}")


def _timed_obs(t):
    assert t[0] == 'ok' and len(t) == 5, t
    y = [] if t[1] == '.' else [int(x) for x in t[1].split(',')]
    sent = [] if t[2] == '.' else [[e.split('@')[0], int(e.split('@')[1])] for e in t[2].split(',')]
    return [y, sent, t[3]]


def model_obs(answer, case, impl):
    if impl['late']:
        return _timed_obs(answer.split())
    a, b = answer.split(' | ')
    t = a.split()
    assert t[0] == 'ok' and len(t) == 7, answer
    y = [] if t[1] == '.' else [int(x) for x in t[1].split(',')]
    lg = [] if t[2] == '.' else [[e[:-1], e[-1]] for e in t[2].split(',')]
    yb = [] if t[4] == '.' else [int(x) for x in t[4].split(',')]
    nl = [] if t[6] == '.' else [e.rsplit(':', 1) for e in t[6].split(';')]
    return [y, lg, t[3], yb, t[5], nl] + _timed_obs(b.split())


def impl_obs(impl):
    timed = [impl['yielded'], impl['sent'], impl['end']]
    if impl['late']:
        return timed
    # twice: against the number-level model and against the names-level model (which also gives the Interest names)
    return [impl['yielded'], impl['log'], impl['end'], impl['yielded'], impl['end'], impl['namelog']] + timed


# ------------------------------------------------------------------------------------- oracle
def _expected(case):
    """contents the statement says are to be yielded, and whether a final segment is designated"""
    o = case['obj']
    empty = o.get('content', {})
    if o['kind'] == 'unseg':
        return [EMPTY_ID if '0' in empty else UNSEG_ID], True
    f = o['fbi']
    ids = [EMPTY_ID if str(i) in empty else i for i in range(len(f))]
    for i, x in enumerate(f):
        # segment i is designated final by a FinalBlockId that is the segment component of i
        if x == i and o.get('fbi_type', {}).get(str(i), 50) == 50:
            return ids[:i + 1], True
    return ids, False


def _fates(case, impl):
    """What became of every Interest, from what the simulated network did (NDN semantics, not the code): an Interest is
    answered by the first packet that reaches the consumer while it is outstanding and before its lifetime is over - a Data
    whose name it matches (any Data of the object for the CanBePrefix discovery Interest, the Data of segment i for the
    Interest for segment i) or a Nack for its name, whichever Interest that packet was sent in answer to - and expires
    otherwise.  Returns ([[request, d | v | n | t]], text of a sequencing fault or None)."""
    T = case['timeout_ms']
    ints, fate, cur = [], [], None
    for ev in impl['events']:
        if ev['k'] in 'OV' or (ev['k'] == 'I' and ev.get('who', 1) != impl.get('who', 1)):
            continue        # what other components of the application did / the validator was called / Interests of another fetch
        if ev['k'] == 'P' and ev.get('val'):
            continue        # a certificate (or a Nack) for the validator: under another prefix, it answers no Interest of a fetch
        if ev['k'] == 'P' and bool(ev.get('obj2')) != bool(impl.get('obj2')):
            continue        # a packet of another object
        if ev['k'] == 'I':
            if cur is not None and fate[cur] is None:
                if ev['t'] < ints[cur][1] + T:
                    return None, (f"{ev['req']} was sent at {ev['t']} ms while the Interest for {ints[cur][0]} sent at "
                                  f"{ints[cur][1]} ms (lifetime {T}) had neither been answered nor timed out")
                fate[cur] = 't'
            cur = len(ints)
            ints.append([ev['req'], ev['t']])
            fate.append(None)
        elif ev.get('live') and cur is not None and fate[cur] is None and ev['t'] < ints[cur][1] + T:
            req = ints[cur][0]
            if ev['kind'] == 'n':
                hit = ev['req'] == req
            else:
                hit = req == 'D' or (ev['seg'] is not None and not ev['unseg'] and req == 'S%d' % ev['seg'])
            if hit:
                fate[cur] = ev['kind']
    if cur is not None and fate[cur] is None:
        if impl['end'] != 'HANG' and impl.get('end_ms') is not None and impl['end_ms'] < ints[cur][1] + T:
            return None, (f"the fetch ended ({impl['end']}) at {impl['end_ms']} ms while the Interest for {ints[cur][0]} sent at "
                          f"{ints[cur][1]} ms (lifetime {T}) had neither been answered nor timed out")
        fate[cur] = 't'
    return [[r, f] for (r, _), f in zip(ints, fate)], None


def _validator_failures(impl):
    """{number of the Interest (of this fetch): (what the user's validator did, the ends of the fetch that are that failure)}
    for every Interest during which the validator was consulted and did not accept: it rejected (the fetch must end with
    ValidationFailure) or raised (that exception, or a ValidationFailure made of it, must come out of the fetch; a
    StopIteration / StopAsyncIteration cannot leave a coroutine / an async generator as it is - Python turns it into a
    RuntimeError).  A validator its caller gave up (cancelled from outside) has not spoken."""
    out, cur = {}, -1
    for ev in impl['events']:
        if ev['k'] == 'I' and ev.get('who', 1) == impl.get('who', 1):
            cur += 1
        elif ev['k'] == 'V' and cur >= 0 and ev['out'] not in (None, 'True', 'abandoned'):
            what, ends = out.get(cur, ('', set()))
            ends = ends | {'ValidationFailure'}
            if ev['out'].startswith('raise:'):
                cls = ev['out'][6:]
                ends |= {cls} | ({'RuntimeError'} if cls in ('StopIteration', 'StopAsyncIteration') else set())
            out[cur] = ((what + ', ' if what else '') + ('rejected' if ev['out'] == 'False' else 'raised ' + ev['out'][6:]), ends)
    return out


def oracle(case, impl):
    why = _judge(case, impl)
    if why is None and impl.get('second'):
        # the second fetch of the same object, running on the same application, is a fetch like any other: the same judgement,
        # from the Interests it sent and every packet that reached the application while it was running
        o2 = next(o for o in case['others'] if o['kind'] == 'fetch')
        s2 = impl['second']
        ev2 = []
        for ev in impl['events']:
            if ev['k'] == 'I' and ev.get('who') == 2:
                ev2.append(ev)
            elif ev['k'] == 'P':
                ev2.append(dict(ev, live=ev.get('live2', False)))
        why = _judge(dict(case, retry=o2['retry'], timeout_ms=o2['timeout_ms'], nack=case.get('nack', 150)),
                     dict(s2, events=ev2, loop_errors=[], who=2, obj2=not o2.get('same')))
        if why is not None:
            why = 'second fetch: ' + why
    return why


def _judge(case, impl):
    a = max(1, case['retry'])
    exp, has_final = _expected(case)
    y, end = impl['yielded'], impl['end']
    if impl['loop_errors']:
        return f'background task error: {impl["loop_errors"][:2]}'
    if end == 'HANG':
        return 'fetch neither finished nor failed'
    if any(r.startswith('?') for r, _ in impl['log']):
        return f'unexpected Interest {[r for r, _ in impl["log"] if r.startswith("?")][:1]}'
    if y != exp[:len(y)]:
        return f'yielded {y} is not a prefix of segments {exp} in order, each once'
    log, fault = _fates(case, impl)
    if fault:
        return fault
    # Nack / validation failure propagate
    vfail = _validator_failures(impl) if case.get('val') else {}
    for k, (r, o) in enumerate(log):
        if o in 'dv' and k in vfail:
            # a Data reached the consumer in time for this Interest and the user's validator did not accept it
            what, ends = vfail[k]
            if k != len(log) - 1:
                return (f'validation failure on {r} (the validator {what}) was skipped: the fetch went on' if log[k + 1][0] != r else
                        f'{r} was requested again although it had been answered (in time; the validator {what}: a validation '
                        f'failure, not a timeout)')
            if end not in ends:
                return f'validation failure on {r} (the validator {what}) did not propagate: fetch ended with {end}'
            return None
        if o in 'nv':
            want = 'InterestNack' if o == 'n' else 'ValidationFailure'
            if k != len(log) - 1:
                return f'{want} on {r} was skipped: the fetch went on'
            if end != want:
                return f'{want} on {r} did not propagate: fetch ended with {end}'
            if o == 'n' and impl.get('nack_reason') != case.get('nack', 150):
                return f'Nack on {r} propagated with reason {impl.get("nack_reason")}, sent {case.get("nack", 150)}'
            return None
    if end in ('InterestNack', 'ValidationFailure'):
        return f'fetch ended with {end} although no Nack / invalid Data was delivered'
    # timeouts: a request is sent again only after it timed out, at most `a` times in a row
    run, worst = 0, {}
    for k, (r, o) in enumerate(log):
        if k and log[k - 1][0] == r:
            if log[k - 1][1] != 't':
                return f'{r} was requested again although it had been answered'
        else:
            run = 0
            if any(r == r2 for r2, _ in log[:k]):
                return f'{r} was requested again after the fetch had moved on'
        run = run + 1 if o == 't' else 0
        worst[r] = max(worst.get(r, 0), run)
        if run > a:
            return f'{r} was requested again after {a} timeouts (limit {case["retry"]})'
        if run == a and k != len(log) - 1:
            return f'{r} was requested again after {a} timeouts (limit {case["retry"]})' if log[k + 1][0] == r else \
                f'{r} timed out {a} times but the fetch went on'
    exhausted = [r for r, n in worst.items() if n >= a]
    if exhausted:
        if end != 'InterestTimeout':
            return f'{exhausted[0]} timed out {a} times but the fetch ended with {end}'
        return None
    if end == 'InterestTimeout':
        return f'fetch failed with a timeout although no Interest timed out {a} times in a row: {worst}'
    if end != 'done':
        return f'fetch ended with {end}'
    if y != exp:
        return f'fetch finished having yielded {y}, expected {exp}'
    return None


def nontrivial(case, impl):
    return len(impl['log']) >= 2 and (bool(impl['yielded']) or any(o == 't' for _, o in impl['log']) or impl['late'])


def tags(case, impl):
    o = case['obj']
    t = ['end:' + impl['end'], 'retry:%d' % case['retry'], 'yielded:%d' % len(impl['yielded']),
         'obj:' + (o['kind'] if o['kind'] == 'unseg' else 'seg%d' % len(o['fbi']))]
    if o['kind'] == 'seg':
        n = len(o['fbi'])
        t.append('disc:' + ('none' if case['disc'] >= n else 'first' if case['disc'] == 0 else 'last' if case['disc'] == n - 1 else 'middle'))
        t.append('final-designated:' + str(_expected(case)[1]))
    a = max(1, case['retry'])
    lost = {}
    for r, x in impl['log']:
        if x == 't':
            lost[r] = lost.get(r, 0) + 1
    if lost:
        m = max(lost.values())
        t.append('max-loss:' + ('limit' if m == a else 'limit-1' if m == a - 1 else 'below'))
    for f in impl['flags']:
        t.append('flag:' + f)
    T = case['timeout_ms']
    for o2, d in zip(case['script'], _delays(case)):
        if o2 != 't' and d:
            t.append('delay:' + ('below' if d < T else 'at' if d == T else 'above'))
    t.append('late-answers:' + str(impl['late']))
    for idx, x in enumerate(case.get('others') or []):
        t.append('other:' + x['kind'])
        if x['kind'] != 'fetch':
            t.append('other-name:' + x['name'].split(':')[0])
        if x['kind'] == 'int':
            t.append('other-lifetime:' + ('shorter' if x['lt'] < T else 'equal' if x['lt'] == T else 'longer'))
            t.append('other-outcome:' + str(impl.get('others_out', {}).get(str(idx), 'not-finished' if any(
                ev['k'] == 'O' and ev.get('idx') == idx for ev in impl['events']) else 'never-expressed')))
            if x.get('cancel') is not None:
                t.append('other-given-up')
        t.append('other-when:' + ('before-the-fetch' if x['at'] < 0 else 'discovery' if x['at'] == 0 else 'segments'))
    if impl.get('second'):
        t.append('second-fetch-end:' + impl['second']['end'])
    if case.get('val'):
        t.append('validator-via:' + case['val']['via'])
        for ev in impl['events']:
            if ev['k'] == 'V':
                t.append('validator:' + ev['do'])
                t.append('validator-outcome:' + str(ev['out']))
                if ev.get('t_end', ev['t']) > ev['t']:
                    d = ev['t_end'] - ev['t']
                    t.append('validator-takes:' + ('below' if d < T else 'exactly' if d == T else 'more-than') + '-a-lifetime')
        t.append('validator-failed-at:' + ','.join(sorted({'discovery' if impl['log'][k][0] == 'D' else 'segment'
                                                            for k in _validator_failures(impl) if k < len(impl['log'])})))
    # a packet sent in answer to one Interest that decided another one
    fates, _ = _fates(case, impl)
    if fates is not None:
        live = [ev for ev in impl['events'] if ev['k'] == 'P' and ev.get('live')]
        if any(ev['t'] >= impl['sent'][ev['for']][1] + T for ev in live if ev['for'] is not None):
            t.append('answer-arrived-after-its-deadline')
        if any(ev['k'] == 'P' and not ev.get('live') for ev in impl['events']):
            t.append('answer-arrived-after-the-end')
        if any(a2 != b2 for (_, a2), (_, b2) in zip(fates, impl['log'])):
            t.append('fate-differs-from-script')
    return t


def finding_key(case, impl, why):
    w = re.sub(r'\[[^\]]*\]|\{[^}]*\}|\d+', '', why)
    w = re.sub(r'[^a-zA-Z]+', '-', w).strip('-').lower()
    return w[:60]


LEVEL_TEXT = ('Lean 4 theorems over a hand-written model of segment_fetcher (inner retry loop with its trial counter, '
              'discovery, segment-number stepping, FinalBlockId comparison) against a scripted producer, for every object, '
              'every discovery answer, every per-Interest loss/Nack/invalid script and every retry limit: all segments once in '
              'order under tolerable loss, unsegmented object, timeout iff a request exhausts its attempts, Nack/validation '
              'failure end the fetch at once, request bounds, termination. Names-level half, by composition with the proved '
              'name model (C09): Component.from_segment / get_type / to_number round trip and injectivity for every n < 2^64, '
              'FinalBlockId byte comparison iff equal numbers, the fetcher working on names proved equal Interest by Interest to '
              'the number-level model, and the main theorem restated with the Interest names actually sent. Timed half: the same '
              'generator run over the C03 model of the legacy pending-Interest table with the lifetime the fetcher passes and a '
              'producer whose answers take any scripted time: what one awaitable comes to (first packet in flight that arrives '
              'before the deadline and matches - whichever Interest it answers; later ones stay in flight for the retry), Data is '
              'always genuine, in-order/once/never-beyond-final for every delay pattern with completeness iff normal end, timeout '
              'iff a request has `attempts` awaitables time out in a row, Nack/invalid propagate (also late ones), request bound, '
              'termination, refinement to the untimed model for answers within the lifetime, table empty and late answers '
              'dropped at the end (by C03). The model is tied to the code on every run by '
              'differential execution against the real async generator over the real legacy NDNApp on a virtual-time loop '
              'with a simulated producer, plus the property oracle evaluated on the implementation.')
LEVEL_NOTE = ('Proof is about the model; model=code is sampled. Timed half: the generator over the C03 pending-Interest model '
              'with scripted answer delays (any delay: a late answer satisfies the retry of the same name or is dropped), '
              'every C19 statement proved for every delay pattern, and the untimed model proved to be the special case of '
              'answers within the lifetime. Every Interest name seen by the simulated producer is compared byte for byte with '
              'the name the names-level model builds, every send time with the timed model.')
TECHNIQUE = 'Lean 4 proof (induction on fuel/segment number with script invariants) + model/implementation correspondence check'
DESIGN_REF = 'DESIGN.md section 7, C19'
