"""C19 — segmented fetch (src/ndn/app_support/segment_fetcher.py over the legacy front-end src/ndn/app.py).

The real `segment_fetcher` async generator runs on the real legacy `NDNApp` with an in-memory face on the
virtual-time loop.  A simulated producer looks at every Interest the application writes to the face and, following a
per-Interest script, answers with Data (FinalBlockId markers as the case says), answers with Data that the validator
rejects, sends a network Nack, or stays silent (then the clock is advanced past the Interest lifetime)."""
import re
from apphelp import AppRig

PROP = 'C19'
TITLE = 'Segmented fetch yields every segment once, in order, tolerating bounded loss'
LEAN_TARGETS = ['NdnProofs.Props.C19']
THEOREMS = [
    'Ndn.C19.fetch_yields_all_once_in_order', 'Ndn.C19.fetch_unsegmented', 'Ndn.C19.fetch_no_final_marker',
    'Ndn.C19.fetch_timeout_iff', 'Ndn.C19.fetch_propagates', 'Ndn.C19.yielded_prefix_in_order',
    'Ndn.C19.requests_bounded', 'Ndn.C19.fetch_terminates',
    # names-level half: segment numbers as name components (composition with the name model, C09)
    'Ndn.C19.segment_component_roundtrip', 'Ndn.C19.segComp_is_rep', 'Ndn.C19.final_block_id_names_segment_iff',
    'Ndn.C19.fetchB_refines', 'Ndn.C19.fetchB_refines_unsegmented', 'Ndn.C19.fetch_yields_all_once_in_order_names',
]
PARTIAL = {}
TRUSTED = [
    'C19: one Interest outstanding at a time (the generator is sequential); a response is either delivered at once or '
    'never (no late Data after a timeout); asyncio wait_for / async-generator semantics are exercised only by the '
    'correspondence (virtual-time loop)',
    'C19: packets enter the model after decoding (the Interest/Data codec is C01/C07), as names = lists of encoded '
    'components: the names-level model builds every Interest name itself (last component of the last Data name replaced by '
    'Component.from_segment(n)), reads get_type / to_number of the last component and compares FinalBlockId with it as bytes; '
    'it is proved equal, Interest by Interest, to the number-level model for objects of fewer than 2^64 - 2 segments whose '
    'producer names segment i `base ++ [from_segment(i)]` and marks the final block with a segment component',
    'C19: legacy NDNApp.express_interest is modelled by its four outcomes per Interest (Data, InterestTimeout, '
    'InterestNack, ValidationFailure); its PIT bookkeeping is property C03',
]
RULE = ('objects: unsegmented (Data named exactly the prefix / with a version / with a generic component) or 0..12 segments '
        'with FinalBlockId on every segment / only the last / none / naming an earlier segment / naming other numbers / '
        'random; discovery answered by every segment number (and by none); retry_times 0..4; per-Interest scripts built per '
        'request relative to the limit (0, 1, limit-1, limit, limit+1 losses, then an answer / Nack / invalid Data) plus '
        'random scripts; every Interest name the simulated producer sees is compared byte for byte with the name the '
        'names-level model builds; a targeted stream: 255..520 segments (2-byte segment numbers, FinalBlockId on 254..257), '
        'every Nack reason (which must propagate too), the prefix given as str / list / wire, and - oracle only - segments with '
        'empty or absent Content and FinalBlockId components of another type; non-trivial = at least two Interests were sent and something was yielded or a retry happened; '
        'distinct = distinct (object, discovery, limit, script)')

PREFIX = '/obj'
UNSEG_ID = 999
EMPTY_ID = -2           # a yielded content that is empty or None


def extract(repo):
    from ndn.encoding import Component
    return ('/- GENERATED on every run by harness/props/c19.py from src/ndn/encoding/name/Component.py (the live constants).\n'
            '   Do not edit. -/\n'
            'namespace Ndn.Gen.C19\n\n'
            '/-- `Component.TYPE_SEGMENT` -/\n'
            f'def typeSegment : Nat := {int(Component.TYPE_SEGMENT)}\n\n'
            "/-- `Component.ALTERNATE_URI_STR['seg']` -/\n"
            f"def segShorthandType : Nat := {int(Component.ALTERNATE_URI_STR['seg'])}\n\n"
            'end Ndn.Gen.C19\n')


def _name_hex(name):
    """a name as the driver writes it: `,`-separated hex components (`-` = empty component, `.` = empty name)"""
    return ','.join((bytes(c).hex() or '-') for c in name) or '.'


# ------------------------------------------------------------------------------------- cases
def _fbis(rng, n):
    if n == 0:
        return []
    r = rng.random()
    if r < 0.35:
        return [n - 1] * n
    if r < 0.55:
        return [None] * (n - 1) + [n - 1]
    if r < 0.63:
        return [None] * n
    if r < 0.75:
        j = rng.randrange(n)
        return [j] * n
    if r < 0.85:
        return [rng.choice([None, n - 1, n, n + 3, 0, i + 1]) for i in range(n)]
    return [rng.choice([None, None, i, n - 1, rng.randrange(n + 2)]) for i in range(n)]


def _script(rng, nreq, a):
    mode = rng.random()
    if mode < 0.12:
        return ''.join(rng.choice('ddddtttnv') for _ in range(rng.randint(0, 3 * nreq)))
    bad = rng.randrange(nreq) if mode > 0.62 else -1         # the request that goes wrong, if any
    s = ''
    for k in range(nreq):
        if k == bad:
            r = rng.random()
            if r < 0.5:
                s += 't' * rng.choice([a, a, a + 1]) + 'd'
            elif r < 0.75:
                s += 't' * rng.randint(0, a - 1) + 'n'
            else:
                s += 't' * rng.randint(0, a - 1) + 'v'
            continue
        r = rng.random()
        j = 0 if r < 0.5 else rng.choice([1, a - 1, a - 1, rng.randint(0, a - 1)])
        s += 't' * min(j, a - 1) + 'd'
    while s.endswith('d'):
        s = s[:-1]          # an exhausted script answers
    return s


NACK_REASONS = [0, 50, 100, 150, 151]


def _targeted(rng, tier):
    """dimensions the random stream does not reach: objects of 256+ segments (segment numbers needing 2 bytes, FinalBlockId
    on 254..257), every Nack reason (the reason must propagate too), the prefix given as str / list / wire, and - checked by
    the oracle only - segments whose Content is empty or absent (they are yielded all the same) and FinalBlockId components
    that carry the right number under another type (they do not designate a segment)"""
    base = {'disc': 0, 'retry': 3, 'script': '', 'timeout_ms': 4000, 'fresh': True}
    big = [256, 257, 300] if tier == 'quick' else [255, 256, 257, 258, 300, 520]
    for n in big:
        yield dict(base, obj={'kind': 'seg', 'fbi': [None] * (n - 1) + [n - 1]})
        yield dict(base, obj={'kind': 'seg', 'fbi': [n - 1] * n}, disc=rng.choice([1, 255, n - 1]), script='tdttd' + 'd' * 250 + 'ttdtd')
    yield dict(base, obj={'kind': 'seg', 'fbi': [255] * 300}, disc=256)
    yield dict(base, obj={'kind': 'seg', 'fbi': [256] * 300}, disc=255)
    yield dict(base, obj={'kind': 'seg', 'fbi': [None] * 254 + [256, 256, 256, None]}, disc=257)
    yield dict(base, obj={'kind': 'seg', 'fbi': [None] * 258}, retry=2, script='d' * 256 + 'tt')
    yield dict(base, obj={'kind': 'seg', 'fbi': [None] * 258}, retry=2, script='d' * 257 + 'tn')
    for reason in NACK_REASONS:
        for k in (0, 1, 3):
            yield dict(base, obj={'kind': 'seg', 'fbi': [3] * 4}, script='d' * k + 'tn', nack=reason, disc=rng.choice([0, 2]))
        yield dict(base, obj={'kind': 'unseg', 'name': 'version'}, script='n', nack=reason)
    for form in ('str', 'wire', 'list'):
        yield dict(base, obj={'kind': 'seg', 'fbi': [None, None, 2]}, name_form=form, disc=1, script='td')
        yield dict(base, obj={'kind': 'unseg', 'name': 'exact'}, name_form=form)
    for n in (1, 2, 3, 5):
        for kind in ('empty', 'absent'):
            for where in sorted({0, n // 2, n - 1}):
                for disc in sorted({0, where, n - 1}):
                    yield dict(base, obj={'kind': 'seg', 'fbi': [n - 1] * n, 'content': {str(where): kind}}, disc=disc)
                    yield dict(base, obj={'kind': 'seg', 'fbi': [None] * n, 'content': {str(where): kind}}, disc=disc, script='td')
            yield dict(base, obj={'kind': 'seg', 'fbi': [n - 1] * n, 'content': {str(i): kind for i in range(n)}})
    for kind in ('empty', 'absent'):
        yield dict(base, obj={'kind': 'unseg', 'name': 'generic', 'content': {'0': kind}})
    for n in (2, 4):
        for typ in (52, 54, 58, 8):
            for where in range(n - 1):
                yield dict(base, obj={'kind': 'seg', 'fbi': [where] * n, 'fbi_type': {str(i): typ for i in range(n)}}, disc=rng.randrange(n))
            yield dict(base, obj={'kind': 'seg', 'fbi': [None] * (n - 1) + [n - 1], 'fbi_type': {str(n - 2): typ}, })


def _oracle_only(case):
    o = case['obj']
    return bool(o.get('content') or o.get('fbi_type'))


def cases(rng, tier):
    yield from _targeted(rng, tier)
    n = 2000 if tier == 'quick' else 60000
    for _ in range(n):
        retry = rng.choice([0, 1, 2, 3, 3, 4])
        a = max(1, retry)
        if rng.random() < 0.12:
            obj = {'kind': 'unseg', 'name': rng.choice(['exact', 'version', 'generic'])}
            nreq, disc = 1, 0
        else:
            nseg = rng.choice([0, 1, 1, 2, 2, 3, 3, 4, 5, 6, 8] + ([10, 12] if tier != 'quick' else []))
            obj = {'kind': 'seg', 'fbi': _fbis(rng, nseg)}
            r = rng.random()
            disc = 0 if r < 0.3 else max(0, nseg - 1) if r < 0.45 else rng.randrange(max(1, nseg)) if r < 0.93 else nseg + rng.choice([0, 2])
            nreq = nseg + 2
        case = {'obj': obj, 'disc': disc, 'retry': retry, 'script': _script(rng, nreq, a),
                'timeout_ms': rng.choice([4000, 1000, 50]), 'fresh': rng.random() < 0.5}
        if rng.random() < 0.3:
            case['nack'] = rng.choice(NACK_REASONS)
        if rng.random() < 0.2:
            case['name_form'] = rng.choice(['str', 'wire'])
        if obj['kind'] == 'seg' and obj['fbi'] and rng.random() < 0.06:
            obj['content'] = {str(rng.randrange(len(obj['fbi']))): rng.choice(['empty', 'absent'])}
        yield case


def shrink(case):
    s = case['script']
    for i in range(len(s)):
        yield dict(case, script=s[:i] + s[i + 1:])
    o = case['obj']
    if o['kind'] == 'seg':
        f = o['fbi']
        extra = {k: {i: v for i, v in o[k].items() if int(i) < len(f) - 1} for k in ('content', 'fbi_type') if k in o}
        if f:
            yield dict(case, obj=dict(extra, kind='seg', fbi=f[:-1]), disc=min(case['disc'], max(0, len(f) - 2)))
        if len(f) > 40:
            yield dict(case, obj=dict(extra, kind='seg', fbi=f[:len(f) // 2]), disc=min(case['disc'], len(f) // 2 - 1))
        for i, x in enumerate(f[:40]):
            if x is not None:
                yield dict(case, obj=dict(o, fbi=f[:i] + [None] + f[i + 1:]))
    for k in ('content', 'fbi_type'):
        if k in o:
            yield dict(case, obj={a: b for a, b in o.items() if a != k})
    for k in ('nack', 'name_form'):
        if k in case:
            yield {a: b for a, b in case.items() if a != k}
    if o['kind'] == 'seg' and case['disc'] > 0:
        yield dict(case, disc=0)
        yield dict(case, disc=case['disc'] - 1)
    if case['retry'] > 1:
        yield dict(case, retry=case['retry'] - 1)


# -------------------------------------------------------------------------------- implementation
def run_impl(case):
    from ndn import encoding as enc
    from ndn.encoding.ndnlp_v2 import make_network_nack
    from ndn.app_support.segment_fetcher import segment_fetcher
    from ndn.security import DigestSha256Signer
    Component, Name = enc.Component, enc.Name
    prefix = Name.from_str(PREFIX)
    ver = Component.from_version(1)
    obj = case['obj']
    fbis = obj.get('fbi', [])
    script = list(case['script'])
    T = case['timeout_ms']
    log, yielded, box, reject, namelog = [], [], {}, [], []
    signer = DigestSha256Signer()

    def content_of(i, normal):
        # 'empty' = a Content element of length 0, 'absent' = no Content element
        kind = obj.get('content', {}).get(str(i))
        return b'' if kind == 'empty' else None if kind == 'absent' else normal

    def seg_packet(i):
        fb = fbis[i]
        # the FinalBlockId normally is the segment component of `fb`; 'fbi_type' puts the same number under another type
        fbt = obj.get('fbi_type', {}).get(str(i), Component.TYPE_SEGMENT)
        meta = enc.MetaInfo(final_block_id=None if fb is None else Component.from_number(fb, fbt))
        return enc.make_data(prefix + [ver, Component.from_segment(i)], meta, content_of(i, b'c%d' % i), signer=signer)

    def unseg_packet():
        nm = {'exact': prefix, 'version': prefix + [ver], 'generic': prefix + [Component.from_str('file.txt')]}[obj['name']]
        return enc.make_data(nm, enc.MetaInfo(), content_of(0, b'c%d' % UNSEG_ID), signer=signer)

    async def validator(name, sig, *a):
        return not (reject and reject.pop())

    with AppRig('v1') as rig:
        form = case.get('name_form', 'list')
        given = PREFIX if form == 'str' else Name.to_bytes(PREFIX) if form == 'wire' else Name.from_str(PREFIX)
        gen = segment_fetcher(rig.app, given, timeout=T, retry_times=case['retry'],
                              validator=validator, must_be_fresh=case['fresh'])

        async def consume():
            try:
                async for c in gen:
                    yielded.append(None if c is None else bytes(c))
                box['end'] = 'done'
            except Exception as e:     # noqa
                box['end'] = type(e).__name__
                box['reason'] = getattr(e, 'reason', None)
        task = rig.loop.run_now(consume())
        seen, steps, idle, flags = 0, 0, 0, []
        while not task.done():
            steps += 1
            if steps > (len(fbis) + 3) * (max(1, case['retry']) + 3) * 3 + 30 + 2 * len(case['script']) or idle > 3:
                box['end'] = 'HANG'
                break
            new = rig.face.sent[seen:]
            seen = len(rig.face.sent)
            if not new:
                idle += 1
                rig.loop.advance(rig.loop.time() + T / 1000.0 + 0.001)
                continue
            idle = 0
            for w in new:
                try:
                    name, param, _, _ = enc.parse_interest(w)
                except Exception:      # noqa
                    log.append(['?', 'x'])
                    continue
                name = [bytes(c) for c in name]
                if name == [bytes(c) for c in prefix]:
                    req, pkt = 'D', None
                    if obj['kind'] == 'unseg':
                        pkt = unseg_packet
                    elif case['disc'] < len(fbis):
                        pkt = lambda: seg_packet(case['disc'])
                    if not param.can_be_prefix:
                        flags.append('discovery-without-CanBePrefix')
                elif (len(name) == len(prefix) + 2 and name[:-1] == [bytes(c) for c in prefix] + [bytes(ver)]
                      and Component.get_type(name[-1]) == Component.TYPE_SEGMENT):
                    i = Component.to_number(name[-1])
                    req = 'S%d' % i
                    pkt = (lambda i=i: seg_packet(i)) if (obj['kind'] == 'seg' and i < len(fbis)) else None
                    if param.can_be_prefix:
                        flags.append('segment-Interest-with-CanBePrefix')
                else:
                    req, pkt = '?' + Name.to_str(name), None
                if param.lifetime != T:
                    flags.append('lifetime')
                if bool(param.must_be_fresh) != case['fresh']:
                    flags.append('must_be_fresh')
                o = script.pop(0) if script else 'd'
                namelog.append([_name_hex(name), 'n' if o == 'n' else 't' if (pkt is None or o == 't') else o])
                if o == 'n':
                    log.append([req, 'n'])
                    rig.deliver(bytes(make_network_nack(w, case.get('nack', 150))))
                elif pkt is None or o == 't':
                    log.append([req, 't'])
                else:
                    log.append([req, o])
                    if o == 'v':
                        reject.append(True)
                    rig.deliver(bytes(pkt()))
        ids = []
        for c in yielded:
            m = re.fullmatch(rb'c(\d+)', c or b'')
            ids.append(int(m.group(1)) if m else EMPTY_ID if not c else -1)
        unseg_names = {'exact': prefix, 'version': prefix + [ver], 'generic': prefix + [Component.from_str('file.txt')]}
        return {'yielded': ids, 'log': log, 'end': box.get('end', '?'), 'flags': sorted(set(flags)),
                'nack_reason': box.get('reason') if box.get('end') == 'InterestNack' else None,
                'namelog': namelog, 'prefix_hex': _name_hex(prefix),
                'base_hex': _name_hex(unseg_names[obj['name']] if obj['kind'] == 'unseg' else prefix + [ver]),
                'loop_errors': [e for e in rig.loop.errors]}


# ------------------------------------------------------------------------------------- model
def model_line(case, impl):
    o = case['obj']
    if _oracle_only(case):
        return None         # empty / absent Content and FinalBlockId of another type are outside the model's protocol
    if o['kind'] == 'unseg':
        obj = 'u'
    else:
        obj = 's:' + (','.join('~' if x is None else str(x) for x in o['fbi']) if o['fbi'] else '.')
    # two more arguments: the names-level model runs too and reports every Interest name it builds
    return f"C19 {obj} {case['disc']} {case['retry']} {case['script'] or '.'} {impl['prefix_hex']} {impl['base_hex']}"


def model_obs(answer, case, impl):
    t = answer.split()
    assert t[0] == 'ok' and len(t) == 7, answer
    y = [] if t[1] == '.' else [int(x) for x in t[1].split(',')]
    lg = [] if t[2] == '.' else [[e[:-1], e[-1]] for e in t[2].split(',')]
    yb = [] if t[4] == '.' else [int(x) for x in t[4].split(',')]
    nl = [] if t[6] == '.' else [e.rsplit(':', 1) for e in t[6].split(';')]
    return [y, lg, t[3], yb, t[5], nl]


def impl_obs(impl):
    # twice: against the number-level model and against the names-level model (which also gives the Interest names)
    return [impl['yielded'], impl['log'], impl['end'], impl['yielded'], impl['end'], impl['namelog']]


# ------------------------------------------------------------------------------------- oracle
def _expected(case):
    """contents the statement says are to be yielded, and whether a final segment is designated"""
    o = case['obj']
    empty = o.get('content', {})
    if o['kind'] == 'unseg':
        return [EMPTY_ID if '0' in empty else UNSEG_ID], True
    f = o['fbi']
    ids = [EMPTY_ID if str(i) in empty else i for i in range(len(f))]
    for i, x in enumerate(f):
        # segment i is designated final by a FinalBlockId that is the segment component of i
        if x == i and o.get('fbi_type', {}).get(str(i), 50) == 50:
            return ids[:i + 1], True
    return ids, False


def oracle(case, impl):
    a = max(1, case['retry'])
    exp, has_final = _expected(case)
    y, log, end = impl['yielded'], impl['log'], impl['end']
    if impl['loop_errors']:
        return f'background task error: {impl["loop_errors"][:2]}'
    if end == 'HANG':
        return 'fetch neither finished nor failed'
    if any(r.startswith('?') for r, _ in log):
        return f'unexpected Interest {[r for r, _ in log if r.startswith("?")][:1]}'
    if y != exp[:len(y)]:
        return f'yielded {y} is not a prefix of segments {exp} in order, each once'
    # Nack / validation failure propagate
    for k, (r, o) in enumerate(log):
        if o in 'nv':
            want = 'InterestNack' if o == 'n' else 'ValidationFailure'
            if k != len(log) - 1:
                return f'{want} on {r} was skipped: the fetch went on'
            if end != want:
                return f'{want} on {r} did not propagate: fetch ended with {end}'
            if o == 'n' and impl.get('nack_reason') != case.get('nack', 150):
                return f'Nack on {r} propagated with reason {impl.get("nack_reason")}, sent {case.get("nack", 150)}'
            return None
    if end in ('InterestNack', 'ValidationFailure'):
        return f'fetch ended with {end} although no Nack / invalid Data was delivered'
    # timeouts
    lost = {}
    for r, o in log:
        if o == 't':
            lost[r] = lost.get(r, 0) + 1
    over = [r for r, n in lost.items() if n > a]
    if over:
        return f'{over[0]} was requested again after {a} timeouts (limit {case["retry"]})'
    exhausted = [r for r, n in lost.items() if n >= a]
    if exhausted:
        if end != 'InterestTimeout':
            return f'{exhausted[0]} timed out {a} times but the fetch ended with {end}'
        return None
    if end == 'InterestTimeout':
        return f'fetch failed with a timeout although no Interest timed out {a} times: {lost}'
    if end != 'done':
        return f'fetch ended with {end}'
    if y != exp:
        return f'fetch finished having yielded {y}, expected {exp}'
    return None


def nontrivial(case, impl):
    return len(impl['log']) >= 2 and (bool(impl['yielded']) or any(o == 't' for _, o in impl['log']))


def tags(case, impl):
    o = case['obj']
    t = ['end:' + impl['end'], 'retry:%d' % case['retry'], 'yielded:%d' % len(impl['yielded']),
         'obj:' + (o['kind'] if o['kind'] == 'unseg' else 'seg%d' % len(o['fbi']))]
    if o['kind'] == 'seg':
        n = len(o['fbi'])
        t.append('disc:' + ('none' if case['disc'] >= n else 'first' if case['disc'] == 0 else 'last' if case['disc'] == n - 1 else 'middle'))
        t.append('final-designated:' + str(_expected(case)[1]))
    a = max(1, case['retry'])
    lost = {}
    for r, x in impl['log']:
        if x == 't':
            lost[r] = lost.get(r, 0) + 1
    if lost:
        m = max(lost.values())
        t.append('max-loss:' + ('limit' if m == a else 'limit-1' if m == a - 1 else 'below'))
    for f in impl['flags']:
        t.append('flag:' + f)
    return t


def finding_key(case, impl, why):
    w = re.sub(r'\[[^\]]*\]|\{[^}]*\}|\d+', '', why)
    w = re.sub(r'[^a-zA-Z]+', '-', w).strip('-').lower()
    return w[:60]


LEVEL_TEXT = ('Lean 4 theorems over a hand-written model of segment_fetcher (inner retry loop with its trial counter, '
              'discovery, segment-number stepping, FinalBlockId comparison) against a scripted producer, for every object, '
              'every discovery answer, every per-Interest loss/Nack/invalid script and every retry limit: all segments once in '
              'order under tolerable loss, unsegmented object, timeout iff a request exhausts its attempts, Nack/validation '
              'failure end the fetch at once, request bounds, termination. Names-level half, by composition with the proved '
              'name model (C09): Component.from_segment / get_type / to_number round trip and injectivity for every n < 2^64, '
              'FinalBlockId byte comparison iff equal numbers, the fetcher working on names proved equal Interest by Interest to '
              'the number-level model, and the main theorem restated with the Interest names actually sent. The model is tied to the code on every run by '
              'differential execution against the real async generator over the real legacy NDNApp on a virtual-time loop '
              'with a simulated producer, plus the property oracle evaluated on the implementation.')
LEVEL_NOTE = ('Proof is about the model; model=code is sampled. Responses are immediate or lost (no late Data); NDNApp is '
              'abstracted to four outcomes per Interest. Every Interest name seen by the simulated producer is compared byte '
              'for byte with the name the names-level model builds.')
TECHNIQUE = 'Lean 4 proof (induction on fuel/segment number with script invariants) + model/implementation correspondence check'
DESIGN_REF = 'DESIGN.md section 7, C19'
