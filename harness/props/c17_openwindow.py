"""C17, extra stream 'ow': routes declared while the connection is still being established.

"routes declared before connecting are registered once per connection": a route declared before main_loop and one
declared while face.open() is still awaiting (the connection is not up yet) must each be registered exactly once on the first connection, and all of them once again on
the second connection.  Oracle only (no model line): the model's `connect(routes)` event takes the route list as
given."""
import asyncio
import vloop


def cases(rng, tier):
    n = 6 if tier == 'quick' else 60
    for _ in range(n):
        yield {'mode': 'ow', 'fe': rng.choice(['v2', 'v2', 'v1']), 'before': rng.randint(0, 2),
               'during': rng.randint(1, 2), 'after': 0, 'open_delay_ms': rng.choice([1, 10, 250])}
    # routes declared while the first connection is up, and between the two connections: "declared before connecting"
    # as far as the second connection is concerned
    for _ in range(n):
        yield {'mode': 'ow', 'fe': rng.choice(['v2', 'v1']), 'before': rng.randint(0, 2), 'during': rng.randint(0, 1),
               'after': rng.randint(0, 2), 'between': rng.randint(0, 2), 'open_delay_ms': rng.choice([1, 10]),
               'opts': rng.random() < 0.5}


def run(case):
    from ndn import encoding as enc, utils, appv2, app as appv1
    from ndn.transport.face import Face
    from ndn.transport import nfd_registerer
    from ndn.app_support import nfd_mgmt
    from ndn import security as sec
    loop = vloop.new_loop()
    loop._vt = 5000.0

    class _T:
        time = staticmethod(lambda: loop.time())
    olds = [(utils, 'time', utils.time)]
    utils.time = _T
    sent = []

    class SlowFace(Face):
        def __init__(self):
            super().__init__()
            self.gate = None
            self.stop_ev = None

        async def open(self):
            await asyncio.sleep(case['open_delay_ms'] / 1000.0)
            self.running = True

        def shutdown(self):
            self.running = False
            if self.stop_ev is not None:
                self.stop_ev.set()

        def send(self, data):
            sent.append(bytes(data))

        async def run(self):
            self.stop_ev = asyncio.Event()
            await self.stop_ev.wait()

        def isLocalFace(self):
            return True
    try:
        face = SlowFace()
        if case['fe'] == 'v2':
            a = appv2.NDNApp(face=face, registerer=nfd_registerer.NfdRegister())
        else:
            a = appv1.NDNApp(face=face, keychain=sec.KeychainDigest())
        names = []

        async def _pass(*x, **k):
            from ndn import types
            return types.ValidResult.PASS

        def declare(tag):
            nm = f'/ow/{tag}{len(names)}'
            names.append(nm)
            if case.get('opts'):
                a.route(nm, validator=_pass)(lambda *x, **k: None)
            else:
                a.route(nm)(lambda *x, **k: None)
        per_conn = []
        for _ in range(case['before']):
            declare('b')
        for conn in range(2):
            start = len(sent)
            t = loop.create_task(a.main_loop())
            loop.settle()
            if conn == 0:
                for _ in range(case['during']):
                    loop.call_now(declare, 'd')          # face.open() is still awaiting here
            loop.advance(loop.time() + case['open_delay_ms'] / 1000.0 + 0.001)
            if conn == 0:
                for _ in range(case['after']):
                    loop.call_now(declare, 'a')
            # answer every command with 200 until quiescent
            answered = start
            for _ in range(200):
                loop.advance(loop.time() + 0.002)
                progressed = False
                while answered < len(sent):
                    w = sent[answered]
                    answered += 1
                    try:
                        nm, _, _, _ = enc.parse_interest(w)
                    except Exception:      # noqa
                        continue
                    from props import c17 as _c17
                    content = _c17._make_response(nfd_mgmt, enc, 200, 'OK', {'name': '/ow/x'})
                    data = enc.make_data(nm, enc.MetaInfo(), content, signer=sec.DigestSha256Signer())
                    loop.create_task(face.callback(0x06, bytes(data)))
                    loop.settle()
                    progressed = True
                if not progressed and answered >= len(sent):
                    break
            regs = []
            for w in sent[start:]:
                try:
                    nm, _, _, _ = enc.parse_interest(w)
                    comps = [bytes(c) for c in nm]
                    if len(comps) >= 5 and bytes(enc.Component.get_value(comps[3])) == b'register':
                        cp = nfd_mgmt.ControlParameters.parse(enc.Component.get_value(comps[4])).cp
                        regs.append(enc.Name.to_str(cp.name))
                except Exception:      # noqa
                    pass
            per_conn.append(regs)
            a.shutdown()
            loop.advance(loop.time() + 0.01)
            if not t.done():
                t.cancel()
                loop.settle()
            if conn == 0:
                for _ in range(case.get('between', 0)):
                    declare('m')                          # no connection at all at this moment
        return {'mode': 'ow', 'names': names, 'registered': per_conn, 'loop_errors': [list(e) for e in loop.errors]}
    finally:
        for o, n, v in olds:
            setattr(o, n, v)
        loop.shutdown()


def oracle(case, impl):
    for ci, regs in enumerate(impl['registered']):
        for nm in impl['names']:
            n = regs.count(nm)
            if ci == 0 and ('/a' in nm or '/m' in nm):
                continue        # not declared before connecting as far as the first connection is concerned
            if n != 1:
                when = 'before main_loop' if '/b' in nm else 'while the connection was being established' if '/d' in nm \
                    else 'while the previous connection was up' if '/a' in nm else 'between the two connections'
                return (f'connection {ci}: the route declared {when} was '
                        f'{"never registered" if n == 0 else "registered %d times" % n} on this connection')
    return None
