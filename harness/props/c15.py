"""C15 - sqlite keychain (src/ndn/security/keychain/keychain_sqlite3.py, security/tpm/tpm_file.py)."""
import ast, os, re, shutil, tempfile, hashlib

PROP = 'C15'
TITLE = 'Keychain contents, defaults and signers stay consistent over any history'
LEAN_TARGETS = ['NdnProofs.Props.C15']
THEOREMS = [
    'Ndn.C15.triggers_all_parsed', 'Ndn.C15.no_delete_triggers', 'Ndn.C15.update_triggers_need_new_default',
    'Ndn.C15.foreign_keys_off', 'Ndn.C15.triggers_closed_form', 'Ndn.C15.statements_as_modelled',
    'Ndn.C15.default_unique', 'Ndn.C15.default_exists', 'Ndn.C15.lost_only_by_deleting_default',
    'Ndn.C15.views_agree', 'Ndn.C15.views_scoped', 'Ndn.C15.del_key_cascades', 'Ndn.C15.del_identity_cascades',
    'Ndn.C15.key_files_match', 'Ndn.C15.signer_right_key', 'Ndn.C15.no_signer_for_deleted', 'Ndn.C15.reopen_same',
    'Ndn.C15.new_key_refused_unchanged', 'Ndn.C15.live_key_id_refused', 'Ndn.C15.unchanged_new_key_overwrites_live_key',
]
PARTIAL = {
    'Ndn.C15.retry_recovers': 'not stated as a theorem: it is FALSE for the code (a failed multi-step operation is not rolled '
                              'back, see candidate_fixes/C15-failed-operation-not-rolled-back.md); the fault-injecting tier '
                              'reports each instance as a known finding. What IS proved for histories with failures: '
                              'default_unique, default_exists, views_agree, key_files_match, signer_right_key, '
                              'no_signer_for_deleted, new_key_refused_unchanged (a new_key refused with ValueError changes '
                              'nothing, so repeating it behaves the same) and the delete cascades of operations that return '
                              'normally',
}
TRUSTED = [
    'C15: sqlite statement semantics as modelled: a statement is atomic; INTEGER PRIMARY KEY rowid = max+1; unique indexes; '
    'BEFORE/AFTER INSERT/UPDATE triggers interpreted from the generated trigger table with recursive_triggers off; foreign '
    'keys off (no PRAGMA in the code); python sqlite3 implicit transactions (close without commit = rollback)',
    'C15: the private-key directory is a map file name -> private key; the file name of a key is fn(key name), fn a PARAMETER '
    'of the model (theorems: for EVERY fn, no injectivity assumed - that stored key names never share a file is proved, '
    'key_files_match; driver: the SHA-256 of the encoded NDN name, lean/NdnModel/Sha256.lean, compared with the real file '
    'names on every run); a key pair is the number of its generation, its public key bits are identified with that number '
    '(the harness maps key_bits columns, private-key file contents and signatures to pair numbers by the real keys); a '
    'random key id is fresh by construction (a fresh random id equal to a STORED name is not modelled: the code redraws while '
    'the file exists); certificate contents are not modelled',
    'C15: a storage failure is an exception raised *before* a database write / commit / TPM call takes effect; crashes inside '
    'sqlite or inside a file write are below the model',
]
RULE = ('histories of 6..25 operations over 3 identities (names: see below): new/touch identity, new key (EC; RSA-2048 in the thorough tier; '
        'unsupported type; 35% with an explicit key_id k1 / k2 given as str / bytes / bytearray / memoryview - also the id of '
        'a LIVE key (refused: ValueError, nothing may change), of a DELETED key (the key name is generated again: a new key '
        'pair under the old name), of a key of ANOTHER identity, the same ids under /i1 and /i1/i3; key_id_type sha256 / '
        'random / unsupported, an empty key_id with a key_id_type), import certificate (also under a key it is not named '
        'after, for unknown keys, duplicates), '
        'set default identity/key/certificate (also through a non-owner), delete certificate/key/identity (also absent '
        'ones, also via Key.del_cert), get_signer with no/identity/key/cert argument and optional explicit key locator '
        '(each signer signs a Data packet; the key PAIR that verifies it is found among all pairs ever generated and must be '
        'the pair of the key bits the keychain holds for the selected key), close/reopen; after every operation the '
        'snapshot also records, for every key, which pair its key bits belong to and, for every private-key file, its '
        'name (compared with SHA-256 of the encoded key name through the model) and which pair its CONTENT belongs to; '
        'hardening: identity 3 is named UNDER identity 1 (/i1/i3); a certificate name already held by one key offered to '
        'another key; new_key / del_key through the Identity view; get_signer with every combination of identity / key / '
        'cert (+ key_locator), Identity / Key objects as well as names, each drawn independently (deleted, absent, foreign '
        'items) and judged by the documented priority cert > key > identity; directed openings (default deleted then a new '
        'item added at each level, set_default through another owner, refused operations then reopen, nested identity '
        'deleted, new_key with the id of a live key then reopen then signers by every selector); 8% of histories reopen '
        'after every operation; 4% (thorough 10%) have 26..40 (..70) operations; the '
        'oracle judges "deleted" by what was asked, so an item or a default that disappears without a delete is reported, '
        'and a key whose stored bits / private-key file change without the key having been deleted is reported; '
        'thorough tier: additionally one storage failure injected at a chosen database-write/commit/TPM call of one '
        'operation which is then repeated, compared with the same history run without the failure; stream `reuse` (key '
        'rotation that keeps the key id): a key made with an EXPLICIT key_id (EC P-256 / P-384, RSA-1024 / -2048) is deleted '
        '(del_key, Identity.del_key, del_identity) and a key is generated again under the SAME key name, with and without '
        'close/reopen in between and afterwards, then signers are requested by every selector (also with a locator used '
        'before the deletion); no signer may sign with the pair of a deleted key, and the self-signed certificate new_key '
        'makes must verify under the stored bits. Alphabet of NAMES (45% of the histories, 40% of `reuse`, stream `nested`): '
        'the identities 0..3 and the explicit key ids k1 / k2 get names drawn per case (fields idn / xk, written by the '
        'harness\'s own TLV writer) - names containing KEY / self / a key id, an identity named AS a key or a certificate '
        'of another identity or living below one (also below its full name), KEY in front, doubled names, the parent, '
        'siblings differing in the type / case / last octet of one component, the empty name, empty / binary / non-UTF-8 / '
        'typed / digest / 200-octet components; key ids KEY / self / empty / typed / binary; operations, labels and the '
        'model line are unchanged (the model works on labels, it gets the encoded key names for the file names), so every '
        'operation and every signer check is addressed to such identities; stream `nested`: the parent\'s key k1 exists, '
        'the child below it has keys under the same ids, certificates on both sides, signers by every selector before / '
        'after reopen and after the other side was deleted; the oracle additionally reports del_identity / del_key '
        'raising KeyError for an item the views list. Opt-in (VERIF_C15_EXTRA=1, reported findings outside the default run): '
        'a second handle on the same store, Identity / Key objects kept across deletes, default_cert().name as signing '
        'argument. Non-trivial = at '
        'least two keys exist at some point and at least one delete or set-default or signer request succeeded')

NIDS = 3
MODEL_CFG = 'g'     # the model of TpmFile.generate_key as repaired ('u': the code before the repair, kept for the record)
# Opt-in streams (VERIF_C15_EXTRA=1): reported findings that are NOT repaired in /repo and therefore stay out of the
# default run - candidate_fixes/C15-stale-view-object-row-id-reuse.md (Identity / Key objects kept across deletes:
# operations hi / hk / lh / gh) and candidate_fixes/C15-failed-new-key-blocks-explicit-key-id.md (a storage failure
# injected into a new_key with an explicit / hashed key id, then the operation repeated).
EXTRA = os.environ.get('VERIF_C15_EXTRA') == '1'
EXTRA_OPS = ('hi', 'hk', 'lh', 'gh')


class InjectedFault(Exception):
    pass


# =============================================================================== extract
TBL = {'identities': ('identity', None), 'keys': ('key_name', 'identity_id'), 'certificates': ('certificate_name', 'key_id')}


def _norm(s):
    return re.sub(r'\s+', ' ', s).strip()


def _cond(when, tbl):
    namecol, parent = TBL[tbl]
    if when is None:
        return '.always'
    w = _norm(when).lower()
    w = re.sub(r'\(\s+', '(', w)
    w = re.sub(r'\s+\)', ')', w)
    if w == 'new.is_default=1':
        return '.newIsDefault'
    if w == 'new.is_default=1 and old.is_default=0':
        return '.newIsDefaultOldNot'
    m = re.fullmatch(r'not exists \(select id from (\w+) where is_default=1( and (\w+)=new\.(\w+))?\)', w)
    if m and m.group(1) == tbl:
        if m.group(2) is None:
            return '(.noDefault false)'
        if parent and m.group(3) == parent and m.group(4) == parent:
            return '(.noDefault true)'
    return '.unknown'


def _action(body, tbl):
    namecol, parent = TBL[tbl]
    b = _norm(body).lower().rstrip(';').strip()
    m = re.fullmatch(r'update (\w+) set is_default=0( where (\w+)=new\.(\w+))?', b)
    if m and m.group(1) == tbl:
        if m.group(2) is None:
            return '(.clearDefaults false)'
        if parent and m.group(3) == parent and m.group(4) == parent:
            return '(.clearDefaults true)'
    m = re.fullmatch(r'update (\w+) set is_default=1 where (\w+)=new\.(\w+)', b)
    if m and m.group(1) == tbl and m.group(2) == namecol and m.group(3) == namecol:
        return '.setDefaultByName'
    return '.unknown'


def parse_triggers(sql):
    out = []
    for m in re.finditer(r'CREATE\s+TRIGGER\s+(?:IF\s+NOT\s+EXISTS\s+)?(\w+)\s+(BEFORE|AFTER)\s+(INSERT|UPDATE|DELETE)\s+ON\s+(\w+)'
                         r'\s+(?:FOR\s+EACH\s+ROW\s+)?(?:WHEN\s+(.*?)\s+)?BEGIN\s+(.*?)\s*END\s*;', sql, re.S | re.I):
        name, timing, event, tbl, when, body = m.groups()
        if tbl not in TBL:
            continue
        out.append((name, tbl, timing.lower(), event.lower(), _cond(when, tbl), _action(body, tbl)))
    return out


def extract(repo):
    path = os.path.join(repo, 'src', 'ndn', 'security', 'keychain', 'keychain_sqlite3.py')
    src = open(path).read()
    tree = ast.parse(src)
    sql = None
    for node in tree.body:
        if isinstance(node, ast.Assign) and any(isinstance(t, ast.Name) and t.id == 'INITIALIZE_SQL' for t in node.targets):
            sql = ast.literal_eval(node.value)
    assert sql is not None, 'INITIALIZE_SQL not found'
    n_kw = len(re.findall(r'CREATE\s+TRIGGER', sql, re.I))
    trs = parse_triggers(sql)
    stmts = []

    class V(ast.NodeVisitor):
        cls = None

        def visit_ClassDef(self, n):
            old, self.cls = self.cls, n.name
            self.generic_visit(n)
            self.cls = old

        def visit_FunctionDef(self, n):
            consts = {}
            for st in ast.walk(n):
                if isinstance(st, ast.Assign) and len(st.targets) == 1 and isinstance(st.targets[0], ast.Name):
                    try:
                        v = ast.literal_eval(st.value)
                        if isinstance(v, str):
                            consts[st.targets[0].id] = v
                    except Exception:
                        pass
            for c in ast.walk(n):
                if isinstance(c, ast.Call) and isinstance(c.func, ast.Attribute) and c.func.attr == 'execute' and c.args:
                    a = c.args[0]
                    try:
                        v = ast.literal_eval(a)
                    except Exception:
                        v = consts.get(a.id) if isinstance(a, ast.Name) else None
                    stmts.append((f'{self.cls}.{n.name}', _norm(v) if isinstance(v, str) else '?'))
    V().visit(tree)
    pragma_fk = bool(re.search(r'PRAGMA\s+foreign_keys', src, re.I))
    L = ['import NdnModel.Sql', '/- GENERATED by harness/props/c15.py extract() from keychain_sqlite3.py - do not edit -/',
         'namespace Ndn.Gen.C15', 'open Ndn.Sql', '',
         '/-- number of `CREATE TRIGGER` keywords in INITIALIZE_SQL (every one must have been parsed) -/',
         f'def triggerKeywordCount : Nat := {n_kw}', '',
         'def triggers : List Trigger := [']
    for i, (name, tbl, timing, event, cond, act) in enumerate(trs):
        L.append(f'  ⟨"{name}", .{tbl}, .{timing}, .{event}, {cond}, {act}⟩' + (',' if i + 1 < len(trs) else ''))
    L += [']', '', '/-- the code sets `PRAGMA foreign_keys` somewhere (sqlite3 default: off) -/',
          f'def pragmaForeignKeys : Bool := {"true" if pragma_fk else "false"}', '',
          '/-- SQL text of every `conn.execute` call site (whitespace-normalised), keyed by Class.method -/',
          'def statements : List (String × String) := [']
    for i, (k, v) in enumerate(stmts):
        v = v.replace('\\', '\\\\').replace('"', '\\"')
        L.append(f'  ("{k}", "{v}")' + (',' if i + 1 < len(stmts) else ''))
    L += [']', '', 'end Ndn.Gen.C15', '']
    return '\n'.join(L)


# =============================================================================== cases
# op = {'c': code, 'a': [args], 'f': fault index or None}
#   ni i | ti i | nk i t(e/r/x) | ic key cert | sdi i | sdk i key | sdc key cert | di i | dk key | dc cert | dcv key cert
#   gs sel loc   sel = ['d'] | ['i', i] | ['k', key] | ['c', cert];  loc = None | n | ro
#   key = [idn, kid]   cert = [idn, kid, iss]
#   kid = the number of the key pair (order of generation) - or, for a key whose id is not random, 'x<d>' (explicit
#         key_id k<d>) / 'h<p>' (sha256 of the public key of pair p); a pair number is accepted for those too
#   nk extras: 'x': [label, form] explicit key_id ('' = an empty one), 'idt': key_id_type, 'sz': key size, 'v': via Identity
#   opt-in (EXTRA): hi slot i | hk slot key  keep the Identity / Key OBJECT in a slot;  lh slot  read the kept object as a
#   mapping;  gh slot loc  get_signer with the kept object as signing argument
def _op(c, *a, f=None):
    return {'c': c, 'a': list(a), 'f': f}


def _spec(op):
    """what Tpm.construct_key_name does with the keyword arguments: r(andom) | h (sha256) | b(ad type) | x<d> (explicit)"""
    x = op.get('x')
    if x and x[0]:
        return 'x' + x[0][1:]
    return {None: 'r', 'random': 'r', 'sha256': 'h'}.get(op.get('idt'), 'b')


class _Mirror:
    """fault-free prediction of names, only used to make generated operations mostly valid"""

    def __init__(self):
        self.ids = set()
        self.keys = {}      # kid -> idn
        self.certs = {}     # (idn,kid,iss) -> owner kid
        self.next = 0
        self.xid = {}       # kid -> explicit key-id label it was created with (live keys only)

    def newkey(self, i):
        k = self.next
        self.next += 1
        self.keys[k] = i
        self.certs[(i, k, 0)] = k
        return k

    def xlive(self, i, lab):
        """is a key with this explicit key id alive under identity i?"""
        return any(self.keys.get(k) == i and l == lab for k, l in self.xid.items())

    def apply(self, op):
        c, a = op['c'], op['a']
        if c == 'ni':
            self.ids.add(a[0])
        elif c == 'ti':
            if a[0] not in self.ids:
                self.ids.add(a[0])
                self.newkey(a[0])
        elif c == 'nk':
            sp = _spec(op)
            if a[0] in self.ids and a[1] != 'x' and sp != 'b' and not (sp[0] == 'x' and self.xlive(a[0], op['x'][0])):
                k = self.newkey(a[0])
                if sp[0] == 'x':
                    self.xid[k] = op['x'][0]
        elif c == 'ic':
            k, ce = a
            if self.keys.get(k[1]) == k[0] and tuple(ce) not in self.certs:
                self.certs[tuple(ce)] = k[1]
        elif c == 'di':
            if a[0] in self.ids:
                self.ids.discard(a[0])
                for k in [k for k, i in self.keys.items() if i == a[0]]:
                    self.delkey(k)
        elif c == 'dk':
            if self.keys.get(a[0][1]) == a[0][0] and a[0][0] in self.ids:
                self.delkey(a[0][1])
        elif c == 'dc':
            self.certs.pop(tuple(a[0]), None)

    def delkey(self, k):
        del self.keys[k]
        self.xid.pop(k, None)
        for ce in [ce for ce, o in self.certs.items() if o == k]:
            del self.certs[ce]


def _gen_op(rng, m, tier):
    def anyid():
        return rng.randint(1, NIDS)

    def goodid():
        return rng.choice(sorted(m.ids)) if m.ids and rng.random() < 0.9 else anyid()

    def key():
        if m.keys and rng.random() < 0.9:
            k = rng.choice(sorted(m.keys))
            return [m.keys[k], k]
        return [anyid(), rng.randint(0, max(1, m.next))]

    def cert():
        if m.certs and rng.random() < 0.85:
            return list(rng.choice(sorted(m.certs)))
        return key() + [rng.randint(0, 3)]

    r = rng.random()
    if r < 0.10:
        return _op('ti', anyid())
    if r < 0.16:
        return _op('ni', anyid())
    if r < 0.28:
        t = 'e'
        q = rng.random()
        if q < 0.04:
            t = 'x'
        elif q < 0.08 and tier == 'thorough':
            t = 'r'
        o = _op('nk', goodid(), t)
        q = rng.random()
        if q < 0.35:
            # an explicit key id: of a live key (refused), of a deleted key (the name is generated again), of a key of
            # another identity, or a new one - whatever the history has made of the label
            o['x'] = [rng.choice(XLABELS), rng.choice(XFORMS)]
            if rng.random() < 0.15:
                o['idt'] = rng.choice(['sha256', 'md5', 'random'])      # not looked at when a key_id is given
        elif q < 0.45:
            o['idt'] = 'sha256'
        elif q < 0.49:
            o['idt'] = 'md5'
        elif q < 0.53:
            o['idt'] = 'random'
        elif q < 0.56:
            o['x'] = ['', rng.choice('sb')]                             # an EMPTY key_id counts as none
            o['idt'] = rng.choice(['sha256', 'random', 'md5'])
        elif rng.random() < 0.25:
            o['v'] = 1                               # through Identity.new_key
        return o
    if r < 0.40:
        k = key()
        q = rng.random()
        if q < 0.75:
            ce = k + [rng.randint(1, 3)]
        elif q < 0.88:
            ce = key() + [rng.randint(1, 3)]        # named after another key
        else:
            ce = cert()                              # likely a duplicate
            others = sorted(x for x in m.keys if x != m.certs.get(tuple(ce)))
            if others and rng.random() < 0.6:        # ... offered to ANOTHER existing key than the one that holds it
                x = rng.choice(others)
                k = [m.keys[x], x]
        return _op('ic', k, ce)
    if r < 0.45:
        return _op('sdi', goodid())
    if r < 0.51:
        k = key()
        return _op('sdk', k[0] if rng.random() < 0.8 else goodid(), k)
    if r < 0.57:
        ce = cert()
        return _op('sdc', ce[:2] if rng.random() < 0.8 else key(), ce)
    if r < 0.62:
        return _op('di', goodid())
    if r < 0.69:
        o = _op('dk', key())
        if rng.random() < 0.25:
            o['v'] = 1                               # through Identity.del_key
        return o
    if r < 0.75:
        return _op('dc', cert())
    if r < 0.77:
        ce = cert()
        return _op('dcv', ce[:2], ce)
    if r < 0.95:
        q = rng.random()
        if q < 0.2:
            sel = ['d']
        elif q < 0.4:
            sel = ['i', goodid()]
        elif q < 0.75:
            sel = ['k', key()]
        else:
            sel = ['c', cert()]
        loc = rng.randint(1, 2) if rng.random() < 0.35 else None
        if rng.random() < 0.35:
            # documented combinations (docs/src/app.rst "Signature": cert > key > identity; Key / Identity objects allowed),
            # each argument drawn independently, so they may name deleted, absent or foreign items
            while True:
                si = goodid() if rng.random() < 0.6 else None
                sk = key() if rng.random() < 0.6 else None
                sc = cert() if rng.random() < 0.4 else None
                if (si, sk, sc) != (None, None, None):
                    break
            # upper case: the Identity / Key object is passed even when it is empty (fixed in /repo: get_signer tests `is None`)
            fl = (rng.choice('iI') if si is not None and rng.random() < 0.5 else '') + \
                 (rng.choice('kK') if sk is not None and rng.random() < 0.5 else '')
            sel = ['x', si, sk, sc, fl]
        return _op('gs', sel, loc)
    return _op('ro')


def _scenario(rng, m):
    """directed openings (names predicted with the mirror); the random tail follows"""
    i = rng.randint(1, NIDS)
    j = rng.choice([x for x in range(1, NIDS + 1) if x != i])
    ops = []

    def add(*os_):
        for o in os_:
            ops.append(o)
            m.apply(o)
    if i not in m.ids:
        add(_op('ti', i))
    if j not in m.ids:
        add(_op('ti', j))
    ki = [i, min(k for k, o in m.keys.items() if o == i)] if any(o == i for o in m.keys.values()) else None
    kj = [j, min(k for k, o in m.keys.items() if o == j)] if any(o == j for o in m.keys.values()) else None
    if ki is None or kj is None:
        return ops
    which = rng.randrange(7)
    if which == 0:      # a certificate name that already exists under another key is imported (the holder keeps two)
        add(_op('ic', ki, ki + [1]), _op('ic', kj, ki + [rng.choice([0, 1])]), _op('gs', ['k', ki], None), _op('ro'))
    elif which == 1:    # the default is deleted, then a new item is added (certificate / key / identity level)
        lvl = rng.randrange(3)
        if lvl == 0:
            add(_op('ic', ki, ki + [1]), _op('dc', ki + [0]), _op('ic', ki, ki + [2]), _op('gs', ['k', ki], None))
        elif lvl == 1:
            add(_op('nk', i, 'e'), _op('dk', ki), _op('nk', i, 'e'), _op('gs', ['i', i], None))
        else:
            add(_op('sdi', i), _op('di', i), _op('ti', i), _op('gs', ['d'], None))
    elif which == 2:    # set_default through another owner
        add(_op('nk', j, 'e'))
        add(_op('sdk', i, [j, m.next - 1]), _op('ic', kj, kj + [1]), _op('sdc', ki, kj + [1]),
            _op('gs', ['i', i], None), _op('gs', ['i', j], None))
    elif which == 3:    # signer requests naming deleted items, in every argument position
        add(_op('gs', ['k', ki], 1), _op('dk', ki), _op('gs', ['x', i, ki, None, ''], None),
            _op('gs', ['x', None, ki, ki + [0], ''], 1), _op('gs', ['x', j, None, ki + [0], 'i'], None),
            _op('gs', ['c', ki + [0]], 1), _op('gs', ['x', j, ki, None, 'i'], None))
    elif which == 4:    # refused operations (duplicate identity, duplicate certificate, unknown key) then reopen
        add(_op('ni', i), _op('ic', ki, ki + [0]), _op('ic', [i, 700], [i, 700, 1]), _op('sdk', i, kj), _op('ro'),
            _op('gs', ['i', i], None))
    elif which == 5:    # the identity nested under another one is deleted / its parent is deleted
        add(_op('ti', 3), _op('ti', 1), _op('di', rng.choice([1, 3])), _op('gs', ['i', 1], None), _op('gs', ['i', 3], None))
    else:               # new_key with the key id of a LIVE key (refused), the store reopened or the signer cache emptied,
        #                 then signers by every selector: the live key must still sign with its own private key
        lab = rng.choice(XLABELS)
        if not m.xlive(i, lab):
            add(dict(_op('nk', i, 'e'), x=[lab, rng.choice(XFORMS)]))
        k = [i, max(x for x, l in m.xid.items() if l == lab and m.keys.get(x) == i)]
        if rng.random() < 0.5:
            add(_op('gs', ['k', k], rng.choice([None, 1])))
        for _ in range(rng.choice([1, 1, 2])):
            t = rng.choice('eeeer')
            add(dict(_op('nk', i, t), x=[lab, rng.choice(XFORMS)], **({'sz': 1024} if t == 'r' else {})))
        add(_op('ro') if rng.random() < 0.6 else _op('dc', kj + [2]))
        sels = [['k', k], ['c', k + [0]], ['i', i], ['x', i, k, None, 'k']]
        rng.shuffle(sels)
        for sel in sels[:rng.randint(2, 4)]:
            add(_op('gs', sel, rng.choice([None, None, 1])))
    return ops


NFAULT = {'ni': 4, 'ti': 12, 'nk': 7, 'ic': 2, 'sdi': 2, 'sdk': 2, 'sdc': 2, 'di': 8, 'dk': 4, 'dc': 2, 'gs': 1}


def cases(rng, tier):
    n = 415 if tier == 'quick' else 2500
    for j in range(n):
        m = _Mirror()
        ops = []
        # start with something populated most of the time
        for _ in range(rng.choice([0, 1, 2, 2, 3])):
            o = _op('ti', rng.randint(1, NIDS))
            ops.append(o)
            m.apply(o)
        ln = rng.randint(6, 25)
        q = rng.random()
        if q < (0.04 if tier == 'quick' else 0.10):
            ln = rng.randint(26, 40 if tier == 'quick' else 70)      # long histories
        if rng.random() < 0.25:
            for o in _scenario(rng, m):
                ops.append(o)
                m.apply(o)
            ln = max(ln, len(ops) + 3)
        reopen_each = rng.random() < 0.08                            # close/reopen after every operation
        fault_at = None
        if tier == 'thorough' and j % 3 == 0:
            fault_at = rng.randint(len(ops), ln - 1) if ln > len(ops) else None
        while len(ops) < ln:
            o = _gen_op(rng, m, tier)
            if fault_at is not None and len(ops) >= fault_at and o['c'] in NFAULT and \
                    (EXTRA or o['c'] != 'nk' or _spec(o) == 'r'):
                # (a failing new_key with an explicit / hashed key id leaves a private-key file that makes the repeated
                # call refuse - reported, candidate_fixes/C15-failed-new-key-blocks-explicit-key-id.md: opt-in)
                fault_at = None
                f = rng.randint(0, NFAULT[o['c']] - 1)
                ops.append(dict(o, f=f))
                ops.append(dict(o, f=None, retry=True))
                m.apply(o)
                continue
            ops.append(o)
            m.apply(o)
        if reopen_each:
            ops = [x for o in ops for x in ((o, _op('ro')) if o.get('f') is None and o['c'] != 'ro' else (o,))][:60]
        yield _named(rng, {'ops': ops}, 0.45)
    for _ in range(60 if tier == 'quick' else 600):
        yield _named(rng, _reuse_case(rng, tier), 0.4)
    for _ in range(45 if tier == 'quick' else 500):
        yield _nested_case(rng, tier)
    if EXTRA:
        for _ in range(120 if tier == 'quick' else 600):
            yield _held_case(rng, tier)
        for lab in XLABELS:
            for f in range(NFAULT['nk'] + 1):
                o = dict(_op('nk', 1, 'e'), x=[lab, 's'])
                yield {'ops': [_op('ti', 1), dict(o, f=f), dict(o, retry=True), _op('gs', ['i', 1], None), _op('ro')]}
    # (the scenarios of finding F12 are fixed cases in corpus/C15/)
    if tier == 'thorough':
        # every operation kind failing at each of its fault points, followed by its repetition
        base = [_op('ti', 1), _op('ti', 2), _op('nk', 1, 'e'), _op('ic', [1, 0], [1, 0, 1])]
        for o in [_op('ni', 3), _op('ti', 3), _op('nk', 1, 'e'), _op('nk', 2, 'e'), _op('ic', [1, 0], [1, 0, 2]),
                  _op('sdi', 2), _op('sdk', 1, [1, 2]), _op('sdc', [1, 0], [1, 0, 1]), _op('di', 1), _op('di', 2),
                  _op('dk', [1, 0]), _op('dk', [1, 2]), _op('dc', [1, 0, 0]), _op('gs', ['k', [1, 2]], None)]:
            for f in range(NFAULT[o['c']] + 2):
                yield {'ops': base + [dict(o, f=f), dict(o, retry=True), _op('gs', ['i', 1], None), _op('ro')]}


XLABELS = ['k1', 'k2']
XFORMS = 'ssbam'       # key_id given as str / bytes / bytearray / memoryview of the encoded one-Component id


# ------------------------------------------------------------------------------- the alphabet of identity names
# A case may carry its own names for the identities 0..NIDS ('idn': a list of names, a name = list of encoded components
# in hex) and its own components for the explicit key ids k1 / k2 ('xk').  Without them the names are /i0 /i1 /i2 /i1/i3
# and the key ids k1 / k2.  Operations, labels and the model line are the same whatever the names are: the keychain
# operations are addressed to identities whose names contain KEY / self / a key id / a certificate-shaped suffix, that
# live below another identity's key or certificate name, that are prefixes of each other or differ in one component's
# type, case or trailing octet, with empty / binary / typed / long components.  (Written with the harness's own TLV
# writer: component types < 253, values < 253 octets.)
def _c(typ, val):
    assert typ < 253 and len(val) < 253
    return (bytes([typ, len(val)]) + bytes(val)).hex()


def _g(text):
    return _c(8, text.encode())


C_KEY, C_SELF, C_V1 = _g('KEY'), _g('self'), _c(0x36, b'\x01')
CLASSIC_IDN = [[_g('i0')], [_g('i1')], [_g('i2')], [_g('i1'), _g('i3')]]
CLASSIC_XK = {'k1': _g('k1'), 'k2': _g('k2')}
ODD_COMPS = [_c(8, b''), _c(8, b'\x00\xff/%'), _c(8, b'\xc3\x28'), _c(32, b'kw'), _c(1, bytes(range(32))), _c(0x36, b'\x07'),
             _c(0x3a, b'\x00'), _c(8, b'L' * 200), _c(8, b'key'), _c(9, b'KEY'), _c(8, b'KEY\x00'), _c(8, b' '), _c(8, b'..'),
             _c(8, '\u00e9'.encode()), _c(252, b'x')]
BASE_NAMES = [['i1'], ['site'], ['a', 'b'], ['KEY'], ['a', 'KEY'], ['self'], ['KEY', 'KEY'], ['a', 'KEY', 'k1'],
              ['alice', 'KEY', 'k1', 'self', 'v'], ['a', 'KEY', 'k2', 'op'], ['KEY', 'alice', 'KEY', 'k1', 'KEY', 'k2'],
              ['self', 'KEY', 'NDNCERT'], ['a', 'key', 'b'], ['KEY', 'a', 'b', 'c']]
XK_POOL = [_g('KEY'), _g('self'), _c(8, bytes(range(1, 9))), _c(8, b''), _c(9, b'k1'), _c(0x36, b'\x01'), _g('k1/KEY'),
           _c(1, bytes(range(32))), _g('iss1'), _c(8, b'\xff\x00')]


def _flip(comp):
    """relatives of a component: another type, another case, one more octet"""
    b = bytes.fromhex(comp)
    typ, val = b[0], b[2:]
    return [_c(9 if typ == 8 else 8, val), _c(typ, val.swapcase()) if val.swapcase() != val else _c(typ, val + b'x'),
            _c(typ, val + b'\x00') if len(val) < 250 else _c(typ, val[:-1]), _c(typ, val[:-1]) if val else _c(typ, b'\x00')]


def _rel_name(rng, base, xk):
    """a name related to `base` (a list of hex components)"""
    k1, k2 = xk['k1'], xk['k2']
    r = rng.randrange(20)
    if r == 0:
        return base + [rng.choice([_g('op'), _g('i3')] + ODD_COMPS)]
    if r == 1:
        return base + [C_KEY]
    if r == 2:
        return base + [C_KEY, k1]                                      # named as a key of base
    if r in (3, 4, 5):
        return base + [C_KEY, k1, rng.choice([_g('op'), _g('operator'), C_KEY, C_SELF] + ODD_COMPS[:4])]   # below that key
    if r == 6:
        return base + [C_KEY, k1, _g('iss1'), C_V1]                    # named as a certificate of that key
    if r == 7:
        return base + [C_KEY, k1, _g('iss1'), C_V1, _g('sub')]         # below that certificate
    if r == 8:
        return base + [C_KEY, k1, C_SELF, _c(0x36, b'\x00')]
    if r == 9:
        return base + [C_KEY, k1, C_SELF, _c(0x36, b'\x00'), _c(1, bytes(32))]      # a full name (implicit digest) of it
    if r == 10:
        return base + [C_SELF]
    if r == 11:
        return base + [C_KEY, C_KEY]
    if r == 12:
        return base + [C_KEY, k2, _g('op'), C_KEY, k1]                 # a key name below a key name
    if r == 13 and base:
        return base[:-1]                                               # the parent
    if r == 14 and base:
        return base[:-1] + [rng.choice(_flip(base[-1]))]               # a sibling: type / case / length of the last component
    if r == 15:
        return [C_KEY] + base
    if r == 16 and len(base) >= 2:
        return base[-2:] + base[:-2]
    if r == 17:
        return base + base
    if r == 18:
        return [rng.choice(ODD_COMPS) for _ in range(rng.randint(1, 3))]
    return [_g(t) for t in rng.choice(BASE_NAMES)]


def _name_table(rng, nested=False):
    """names for the identities 0..NIDS and components for the explicit key ids, all distinct"""
    xk = dict(CLASSIC_XK)
    q = rng.random()
    if q < 0.3:
        xk['k1'] = rng.choice(XK_POOL[:2] if rng.random() < 0.4 else XK_POOL)      # (KEY / self: more often)
    if 0.2 < q < 0.4:
        xk['k2'] = rng.choice([x for x in (XK_POOL[:2] if rng.random() < 0.4 else XK_POOL) if x != xk['k1']])
    q = rng.random()
    if q < 0.75:
        one = [_g(t) for t in rng.choice(BASE_NAMES)]
    elif q < 0.9:
        one = [_g(t) for t in rng.choice(BASE_NAMES)][:rng.randint(0, 2)] + [rng.choice(ODD_COMPS) for _ in range(rng.randint(1, 2))]
    else:
        one = [rng.choice(ODD_COMPS) for _ in range(rng.randint(1, 3))]
    while True:
        tab = [None, one, None, None]
        for i in (3, 2, 0):
            base = rng.choice([t for t in tab if t is not None])
            tab[i] = _rel_name(rng, base, xk)
        if nested:      # identity 3 below (or named as) key k1 of identity 1
            tab[3] = one + [C_KEY, xk['k1']] + rng.choice([[], [_g('operator')], [_g('iss1'), C_V1], [_g('iss1'), C_V1, _g('sub')],
                                                           [C_KEY], [C_SELF], [rng.choice(ODD_COMPS)], [_g('a'), _g('b')]])
        if len(set(map(tuple, tab))) == NIDS + 1 and all(len(t) <= 12 for t in tab):     # (the empty name is a name too)
            return tab, xk


def _xkey(rng, m, i, tier, lab=None):
    """a new_key with an EXPLICIT key id (a label that is not alive under identity i), random type / size / form"""
    free = [l for l in XLABELS if not m.xlive(i, l)]
    if lab is None:
        if not free:
            return _op('nk', i, 'e')
        lab = rng.choice(free)
    q = rng.random()
    o = _op('nk', i, 'e')
    if q < 0.12:
        o['sz'] = 384
    elif q < (0.18 if tier == 'quick' else 0.30):      # RSA key generation is slow: 1024-bit keys, fewer in the quick tier
        o = _op('nk', i, 'r')
        o['sz'] = 1024 if (tier == 'quick' or rng.random() < 0.7) else 2048
    o['x'] = [lab, rng.choice(XFORMS)]
    return o


def _reuse_case(rng, tier):
    """key rotation that keeps the key id: a key created with an explicit key id is deleted (del_key, Identity.del_key,
    del_identity) and a new key is generated under the SAME key name, with and without close/reopen in between, same or
    other key type; signers are requested before and after by every selector (and with an explicit locator used before).
    Identities 1 and 3 (/i1 and /i1/i3) get the same key ids.  The random tail keeps rotating."""
    m = _Mirror()
    ops = []

    def add(*os_):
        for o in os_:
            ops.append(o)
            m.apply(o)
    i = rng.choice([1, 1, 2, 3, 3])
    add(_op(rng.choice(['ti', 'ti', 'ni']), i))
    if rng.random() < 0.5:
        j = 3 if i == 1 else (1 if i == 3 else rng.choice([1, 3]))
        add(_op('ti', j))
        if rng.random() < 0.6:
            add(_xkey(rng, m, j, tier, 'k1'))
    for rnd in range(rng.choice([1, 1, 2, 3])):
        lab = rng.choice(XLABELS) if rnd else 'k1'
        if m.xlive(i, lab) or i not in m.ids:
            break
        add(_xkey(rng, m, i, tier, lab))
        k = [i, m.next - 1]
        loc = rng.choice([None, 1])
        for _ in range(rng.randint(0, 2)):
            add(_op('gs', rng.choice([['k', k], ['i', i], ['c', k + [0]], ['d']]), loc))
        if rng.random() < 0.3:
            add(_op('ic', k, k + [1]))
            if rng.random() < 0.5:
                add(_op('sdc', k, k + [1]))
        if rng.random() < 0.2:
            add(_op('ro'))
        q = rng.random()
        if q < 0.6:
            add(dict(_op('dk', k), **({'v': 1} if rng.random() < 0.3 else {})))
        elif q < 0.85:
            add(_op('di', i), _op(rng.choice(['ti', 'ni']), i))
        else:
            add(_op('dk', k), _op('nk', i, 'e'))        # another key becomes the default in between
        if rng.random() < 0.4:
            add(_op('ro'))
        add(_xkey(rng, m, i, tier, lab))
        k2 = [i, m.next - 1]
        if rng.random() < 0.35:
            add(_op('ro'))
        sels = [['k', k2], ['i', i], ['c', k2 + [0]], ['d'], ['x', i, k2, None, rng.choice(['', 'k', 'ik'])]]
        rng.shuffle(sels)
        for sel in sels[:rng.randint(1, 4)]:
            add(_op('gs', sel, loc if rng.random() < 0.7 else rng.choice([None, 1, 2])))
        if rng.random() < 0.3:
            add(_op('ic', k2, k2 + [1]), _op('gs', ['c', k2 + [1]], None))
    for _ in range(rng.randint(2, 10)):
        q = rng.random()
        ids = sorted(m.ids)
        if q < 0.25 and ids:
            add(_xkey(rng, m, rng.choice(ids), tier))
        elif q < 0.45 and m.xid:
            k = rng.choice(sorted(m.xid))
            add(_op('dk', [m.keys[k], k]))
        else:
            for _try in range(20):
                o = _gen_op(rng, m, 'quick')
                if o['c'] == 'ic' and o['a'][0] != o['a'][1][:2]:
                    continue          # certificates named after another key: kept out (a re-created key name would inherit them)
                add(o)
                break
    return {'ops': ops}


def _named(rng, case, p):
    """with probability p the history is addressed to identities / key ids drawn from the alphabet of names"""
    if rng.random() < p:
        case['idn'], case['xk'] = _name_table(rng, nested=rng.random() < 0.3)
    return case


def _nested_case(rng, tier):
    """an identity living below (or named as) a key of another identity, both with keys under the SAME key ids: the
    parent's key exists, certificates are imported on both sides, and every operation that takes a key / certificate
    NAME (get_signer by key and by cert, del_key, del_identity, set_default_*, import_cert) is addressed to each of them,
    before and after close/reopen and after the other one was deleted"""
    m = _Mirror()
    ops = []

    def add(*os_):
        for o in os_:
            ops.append(o)
            m.apply(o)
    par, ch = 1, 3
    add(_op(rng.choice(['ti', 'ni']), par))
    add(dict(_op('nk', par, 'e'), x=['k1', rng.choice(XFORMS)]))
    kp = [par, m.next - 1]
    add(_op(rng.choice(['ti', 'ti', 'ni']), ch))
    q = rng.random()
    if q < 0.5:
        add(dict(_op('nk', ch, 'e'), x=[rng.choice(XLABELS), rng.choice(XFORMS)]))
    elif q < 0.7 or not any(i == ch for i in m.keys.values()):
        add(_op('nk', ch, 'e'))
    kc_ = [ch, max(k for k, i in m.keys.items() if i == ch)]
    if rng.random() < 0.3:
        add(_op('ti', 2))
    if rng.random() < 0.4:
        add(_op('ic', kc_, kc_ + [1]))
        if rng.random() < 0.5:
            add(_op('sdc', kc_, kc_ + [1]))
    if rng.random() < 0.3:
        add(_op('ic', kp, kp + [1]))
    if rng.random() < 0.3:
        add(_op('sdi', rng.choice([par, ch])))
    if rng.random() < 0.5:
        add(_op('ro'))

    def signers():
        sels = [['k', kc_], ['c', kc_ + [0]], ['i', ch], ['k', kp], ['c', kp + [0]], ['i', par], ['d'],
                ['x', ch, kc_, None, rng.choice(['', 'k', 'ik'])], ['x', None, kc_, kc_ + [0], ''], ['c', kc_ + [1]]]
        rng.shuffle(sels)
        for sel in sels[:rng.randint(2, 5)]:
            add(_op('gs', sel, rng.choice([None, None, 1])))
    signers()
    q = rng.random()
    if q < 0.3:
        add(dict(_op('dk', kc_), **({'v': 1} if rng.random() < 0.3 else {})))
    elif q < 0.5:
        add(_op('di', ch))
    elif q < 0.65:
        add(dict(_op('dk', kp), **({'v': 1} if rng.random() < 0.3 else {})))
    elif q < 0.8:
        add(_op('di', par))
    elif q < 0.9:
        add(_op('sdk', ch, kc_), _op('dc', kc_ + [0]))
    if rng.random() < 0.3:
        add(_op('ro'))
    signers()
    for _ in range(rng.randint(0, 6)):
        add(_gen_op(rng, m, 'quick'))
    case = {'ops': ops}
    if rng.random() < 0.85:
        case['idn'], case['xk'] = _name_table(rng, nested=True)
    return case


def _held_case(rng, tier):
    """Identity / Key objects obtained through the API are kept while their owner is deleted and other items are created
    (sqlite hands the row id out again), then read as mappings and used as signing arguments"""
    m = _Mirror()
    ops = []

    def add(*os_):
        for o in os_:
            ops.append(o)
            m.apply(o)
    i, j = rng.sample([1, 2, 3], 2)
    if rng.random() < 0.3:
        add(_op('ti', rng.choice([1, 2, 3])))
    add(_op('ti', i))
    if i not in m.ids:
        return {'ops': ops}
    ki = [i, max(k for k, o in m.keys.items() if o == i)]
    add(_op('hi', 0, i), _op('hk', 1, ki))
    if rng.random() < 0.5:
        add(_op('lh', 0), _op('gh', rng.choice([0, 1]), rng.choice([None, 1])))
    q = rng.random()
    if q < 0.5:
        add(_op('di', i), _op('ti', j))
    elif q < 0.8:
        add(_op('dk', ki), _op('nk', i, 'e'))
    else:
        add(_op('di', i), _op(rng.choice(['ti', 'ni']), i))
    if rng.random() < 0.3:
        add(_op('ro'))
    tail = [_op('lh', 0), _op('lh', 1), _op('gh', 0, rng.choice([None, 1])), _op('gh', 1, rng.choice([None, 2]))]
    rng.shuffle(tail)
    add(*tail[:rng.randint(2, 4)])
    for _ in range(rng.randint(0, 5)):
        o = _gen_op(rng, m, 'quick')
        add(o)
        if rng.random() < 0.4:
            add(rng.choice([_op('lh', rng.choice([0, 1])), _op('gh', rng.choice([0, 1]), None)]))
    return {'ops': ops}


F12_CASES = [
    {'ops': [_op('ti', 1), _op('nk', 1, 'e')]},                                                  # Key.__len__
    {'ops': [_op('ti', 1), _op('ti', 2)]},                                                       # scoping of lookups
    {'ops': [_op('ti', 1), _op('nk', 1, 'e'), _op('gs', ['k', [1, 0]], 1), _op('gs', ['k', [1, 1]], 1)]},   # cache
    {'ops': [_op('ti', 1), _op('nk', 1, 'e'), _op('gs', ['i', 1], 1), _op('sdk', 1, [1, 1]), _op('gs', ['i', 1], 1)]},
]


def shrink(case):
    ops = case['ops']
    for i in range(len(ops)):
        # never separate a faulted op from its retry
        if ops[i].get('f') is not None:
            yield dict(case, ops=ops[:i] + ops[i + 2:])
            continue
        if ops[i].get('retry'):
            continue
        yield dict(case, ops=ops[:i] + ops[i + 1:])
    for i, o in enumerate(ops):
        if o['c'] == 'nk' and o['a'][1] == 'r':
            yield dict(case, ops=ops[:i] + [dict(o, a=[o['a'][0], 'e'])] + ops[i + 1:])
        if o.get('f'):
            yield dict(case, ops=ops[:i] + [dict(o, f=o['f'] - 1)] + ops[i + 1:])
    # the names: the plain ones altogether, then one identity / key id at a time, then shorter names
    if 'idn' in case or 'xk' in case:
        yield {k: v for k, v in case.items() if k not in ('idn', 'xk')}
        idn, xk = case.get('idn', CLASSIC_IDN), case.get('xk', CLASSIC_XK)
        for lab in XLABELS:
            if xk[lab] != CLASSIC_XK[lab] and CLASSIC_XK[lab] not in xk.values():
                yield dict(case, xk=dict(xk, **{lab: CLASSIC_XK[lab]}))
        for i in range(NIDS + 1):
            for nm in [CLASSIC_IDN[i]] + [idn[i][:j] + idn[i][j + 1:] for j in range(len(idn[i]))]:
                if nm != idn[i] and nm not in idn and \
                        (len(nm) < len(idn[i]) or (nm == CLASSIC_IDN[i] and len(nm) == len(idn[i]))):
                    yield dict(case, idn=idn[:i] + [nm] + idn[i + 1:])


# =============================================================================== implementation
def _lab_key(k):
    return f'{k[0]}.{k[1]}'


def _eff_sel(sel):
    """the selection a combined request amounts to, by the DOCUMENTED priority cert > key > identity > default"""
    if sel[0] != 'x':
        return sel
    _, si, sk, sc, _fl = sel
    if sc is not None:
        return ['c', sc]
    if sk is not None:
        return ['k', sk]
    if si is not None:
        return ['i', si]
    return ['d']


def _lab_cert(c):
    return f'{c[0]}.{c[1]}.{c[2]}'


def _kidtok(x):
    """'12' -> 12, 'x1' -> 'x1'"""
    return int(x) if str(x).isdigit() else x


def _parse_key_label(l):
    a = l.split('.')
    return [int(a[0]), _kidtok(a[1])]


class _Rig:
    """one scratch keychain + the mapping between model names and NDN names, key pairs and pair numbers"""

    def __init__(self, case=None):
        case = case or {}
        self.idn = [[bytes.fromhex(c) for c in nm] for nm in case.get('idn', CLASSIC_IDN)]
        self.id_of = {b''.join(nm): i for i, nm in enumerate(self.idn)}
        assert len(self.idn) == NIDS + 1 and len(self.id_of) == NIDS + 1, 'identity names must be distinct'
        self.xk = {lab: bytes.fromhex(c) for lab, c in case.get('xk', CLASSIC_XK).items()}
        from ndn.security.keychain.keychain_sqlite3 import KeychainSqlite3
        from ndn.security.tpm.tpm_file import TpmFile
        from ndn.encoding import Name, Component
        from ndn.app_support.security_v2 import KEY_COMPONENT
        self.Name, self.Component, self.KEYC = Name, Component, KEY_COMPONENT
        self.KC = KeychainSqlite3
        base = '/dev/shm' if os.path.isdir('/dev/shm') and os.access('/dev/shm', os.W_OK) else None
        self.dir = tempfile.mkdtemp(prefix='c15-', dir=base)
        self.pib = os.path.join(self.dir, 'pib.db')
        self.tpmd = os.path.join(self.dir, 'tpm')
        KeychainSqlite3.initialize(self.pib, 'tpm-file', self.tpmd)
        rig = self
        self.armed = None

        class FTpm(TpmFile):
            def generate_key(self, *a, **k):
                rig.tick()
                r = super().generate_key(*a, **k)
                rig.generated(r[0], r[1])
                return r

            def get_signer(self, *a, **k):
                rig.tick()
                return super().get_signer(*a, **k)

            def delete_key(self, *a, **k):
                rig.tick()
                return super().delete_key(*a, **k)
        self.FTpm = FTpm
        self.kc = None
        self.open()
        self.next_kid = 0         # number of key pairs generated (= the number of the next pair)
        self.pub_of_pair = {}     # pair -> public key bits (DER) as generate_key returned them
        self.pair_of_pub = {}     # public key bits -> pair
        self.name_of_pair = {}    # pair -> encoded key name it was generated for
        self.gens = {}            # encoded key name -> how many pairs were generated under it
        self.key_label = {}       # encoded key name -> 'idn.kid'
        self.key_ref = {}         # 'idn.kid' -> FormalName
        self.cert_label = {}      # name bytes -> 'idn.kid.iss'
        self.cert_name = {}       # (idn,kid,iss) -> FormalName
        self.cert_data = {}
        self.file_cache = {}      # (file name, sha256 of content) -> pair | 'unk'
        self.badself = []         # labels of keys whose self-signed certificate does not verify under the stored key bits
        self.xcomp = {comp: int(lab[1:]) for lab, comp in self.xk.items()}

    def tick(self):
        if self.armed is not None:
            if self.armed == 0:
                self.armed = None
                raise InjectedFault()
            self.armed -= 1

    def open(self):
        rig = self
        self.kc = self.KC(self.pib, self.FTpm(self.tpmd))
        real = self.kc.conn

        class Conn:
            def execute(self, sql, *a):
                if sql.lstrip()[:6].upper() in ('INSERT', 'UPDATE', 'DELETE'):
                    rig.tick()
                return real.execute(sql, *a)

            def commit(self):
                rig.tick()
                return real.commit()

            def rollback(self):
                return real.rollback()

            def close(self):
                return real.close()
        self.kc.conn = Conn()

    def close(self):
        try:
            if self.kc is not None and self.kc.conn is not None:
                self.kc.shutdown()
        finally:
            shutil.rmtree(self.dir, ignore_errors=True)

    # ---- key pairs
    def generated(self, key_name, pub):
        """TpmFile.generate_key has returned: a new key pair exists (its private key is in the file of key_name)"""
        nb = bytes(self.Name.to_bytes(key_name))
        pub = bytes(pub)
        p = self.next_kid
        self.next_kid += 1
        self.pub_of_pair[p] = pub
        self.pair_of_pub.setdefault(pub, p)
        self.name_of_pair[p] = nb
        self.gens[nb] = self.gens.get(nb, 0) + 1
        if nb not in self.key_label:
            idn = max(self.ilabel(key_name[:-2]), 0)
            comp = bytes(key_name[-1])
            if comp in self.xcomp:
                tok = 'x%d' % self.xcomp[comp]
            elif comp == bytes(self.Component.from_bytes(hashlib.sha256(pub).digest())):
                tok = 'h%d' % p
            else:
                tok = p
            self.key_label[nb] = f'{idn}.{tok}'
            self.key_ref[f'{idn}.{tok}'] = list(key_name)

    @staticmethod
    def public_of_private(content):
        """public key bits (DER) of the private key in a *.privkey file"""
        from base64 import b64decode
        from Cryptodome.PublicKey import ECC, RSA
        der = b64decode(content)
        try:
            return bytes(ECC.import_key(der).public_key().export_key(format='DER'))
        except Exception:
            return bytes(RSA.import_key(der).publickey().export_key(format='DER'))

    def file_pair(self, fname):
        """which key pair the CONTENT of a private-key file belongs to"""
        try:
            content = open(os.path.join(self.tpmd, fname), 'rb').read()
        except OSError:
            return 'unk'
        ck = (fname, hashlib.sha256(content).digest())
        if ck not in self.file_cache:
            try:
                self.file_cache[ck] = self.pair_of_pub.get(self.public_of_private(content), 'unk')
            except Exception:
                self.file_cache[ck] = 'unk'
        return self.file_cache[ck]

    # ---- names
    def idname(self, i):
        # the case's names (default: /i0 /i1 /i2 /i1/i3 - identity 3 lives UNDER identity 1)
        return [bytes(c) for c in self.idn[i]]

    def xcomp_of(self, lab):
        """the component of an explicit key id (labels outside the table: the text itself)"""
        return self.xk[lab] if lab in self.xk else bytes(self.Component.from_str(lab))

    def canon(self, k):
        """a key referred to by the number of a key pair is the key NAME that pair was generated for (which may hold
        a later pair by now: an explicit key id used again)"""
        idn, kid = k
        if isinstance(kid, int) and kid in self.name_of_pair:
            r = _parse_key_label(self.key_label[self.name_of_pair[kid]])
            if r[0] == idn:
                return r
        return [idn, kid]

    def keyname(self, k):
        idn, kid = k
        lab = _lab_key(k)
        if lab in self.key_ref:
            return self.key_ref[lab]
        if isinstance(kid, str) and kid[:1] == 'x' and kid[1:].isdigit():
            nm = self.idname(idn) + [self.KEYC, self.xcomp_of('k' + kid[1:])]
        elif isinstance(kid, str):
            nm = self.idname(idn) + [self.KEYC, self.Component.from_bytes(b'fab' + kid.encode())]
        else:
            nm = self.idname(idn) + [self.KEYC, self.Component.from_bytes(b'fab%05d' % kid)]
        self.key_ref[lab] = nm
        self.key_label.setdefault(bytes(self.Name.to_bytes(nm)), lab)
        return nm

    def certname(self, c):
        t = tuple(c)
        if t not in self.cert_name:
            kn = self.keyname(c[:2])
            if c[2] == 0:
                nm = kn + [self.Component.from_str('self'), self.Component.from_version(0)]
            else:
                nm = kn + [self.Component.from_str(f'iss{c[2]}'), self.Component.from_version(1)]
            # the self-signed certificate of a key that does not exist (yet) gets a made-up name; when the key is
            # generated the label is bound to the real name (learn)
            self.cert_name[t] = nm
            self.cert_label.setdefault(bytes(self.Name.to_bytes(nm)), _lab_cert(c))
        return self.cert_name[t]

    def locname(self, n):
        return self.Name.from_str(f'/loc{n}')

    # ---- learning the names of the self-signed certificates of freshly generated keys
    def learn(self):
        try:
            for iname in list(self.kc):
                ident = self.kc[iname]
                for kname in list(ident):
                    kb = bytes(self.Name.to_bytes(kname))
                    lab = self.key_label.get(kb)
                    if lab is None:
                        continue
                    k = _parse_key_label(lab)
                    try:
                        key = ident[kname]
                        for cname in list(key):
                            if bytes(cname[-2]) == bytes(self.Component.from_str('self')) and \
                                    bytes(self.Name.to_bytes(cname[:-2])) == kb:
                                t = (k[0], k[1], 0)
                                cb = bytes(self.Name.to_bytes(cname))
                                if self.cert_label.get(cb) == _lab_cert(t) and self.cert_name.get(t) == cname:
                                    continue
                                self.cert_name[t] = cname
                                self.cert_label[cb] = _lab_cert(t)
                                self.cert_data[t] = bytes(key[cname].data)
                                if not self.verifies_data(bytes(key[cname].data), bytes(key.key_bits)):
                                    self.badself.append(lab)
                    except KeyError:
                        pass
        except InjectedFault:
            raise
        except Exception:
            pass

    def klabel(self, name):
        return self.key_label.get(bytes(self.Name.to_bytes(name)), 'unk')

    def clabel(self, name):
        return self.cert_label.get(bytes(self.Name.to_bytes(name)), 'unk')

    def ilabel(self, name):
        return self.id_of.get(b''.join(bytes(c) for c in name), -1)

    # ---- one operation
    def do(self, op):
        c, a = op['c'], op['a']
        kc = self.kc
        if c == 'ni':
            kc.new_identity(self.idname(a[0]))
        elif c == 'ti':
            kc.touch_identity(self.idname(a[0]))
        elif c == 'nk':
            kt = {'e': 'ec', 'r': 'rsa', 'x': 'dsa'}[a[1]]
            kw = {}
            if op.get('sz'):
                kw['key_size'] = op['sz']
            if op.get('x'):
                lab, form = op['x']
                comp = self.xcomp_of(lab) if lab else b''
                text = lab
                if lab and comp != bytes(self.Component.from_str(lab)):
                    text = self.Component.to_str(comp)
                    if not text or bytes(self.Component.from_str(text)) != comp:
                        text = bytes(comp)                  # no text form that reads back as this component
                kw['key_id'] = {'s': text, 'b': bytes(comp), 'a': bytearray(comp), 'm': memoryview(bytes(comp))}[form]
            if op.get('idt'):
                kw['key_id_type'] = op['idt']
            if op.get('v') and not kw:
                kc[self.idname(a[0])].new_key(kt)
            else:
                kc.new_key(self.idname(a[0]), key_type=kt, **kw)
        elif c == 'ic':
            cn = self.certname(a[1])
            data = self.cert_data.get(tuple(a[1]), b'\x06\x03cert' + _lab_cert(a[1]).encode())
            kc.import_cert(self.keyname(a[0]), cn, data)
        elif c == 'sdi':
            kc.set_default_identity(self.idname(a[0]))
        elif c == 'sdk':
            kc[self.idname(a[0])].set_default_key(self.keyname(a[1]))
        elif c == 'sdc':
            kc[self.idname(a[0][0])][self.keyname(a[0])].set_default_cert(self.certname(a[1]))
        elif c == 'di':
            kc.del_identity(self.idname(a[0]))
        elif c == 'dk':
            if op.get('v'):
                kc[self.idname(a[0][0])].del_key(self.keyname(a[0]))
            else:
                kc.del_key(self.keyname(a[0]))
        elif c == 'dc':
            kc.del_cert(self.certname(a[0]))
        elif c == 'dcv':
            kc[self.idname(a[0][0])][self.keyname(a[0])].del_cert(self.certname(a[1]))
        elif c == 'gs':
            sel, loc = a
            args = {}
            if sel[0] == 'i':
                args['identity'] = self.idname(sel[1])
            elif sel[0] == 'k':
                args['key'] = self.keyname(sel[1])
            elif sel[0] == 'c':
                args['cert'] = self.certname(sel[1])
            elif sel[0] == 'x':
                _, si, sk, sc, fl = sel
                top = _eff_sel(sel)[0]
                if si is not None:
                    args['identity'] = self.idname(si)
                    if 'i' in fl.lower():
                        # An EMPTY Identity / Key object is falsy (a Mapping of length 0); get_signer used to sign silently
                        # with the default identity then (fixed in /repo).  Lower-case flags fall back to the name form
                        # for an empty object, upper-case ones pass the empty object itself.
                        try:
                            o = kc[self.idname(si)]
                            if len(o) > 0 or 'I' in fl:
                                args['identity'] = o
                        except KeyError:
                            if top == 'i':
                                raise
                if sk is not None:
                    args['key'] = self.keyname(sk)
                    if 'k' in fl.lower():
                        try:
                            o = kc[self.idname(sk[0])][self.keyname(sk)]
                            if len(o) > 0 or 'K' in fl:
                                args['key'] = o
                        except KeyError:
                            if top == 'k':
                                raise
                if sc is not None:
                    args['cert'] = self.certname(sc)
            if loc is not None:
                args['key_locator'] = self.locname(loc)
            signer = kc.get_signer(args)
            return self.probe_signer(signer)
        elif c == 'ro':
            kc.shutdown()
            self.kc = None
            self.open()
        else:
            return self.do_extra(op)
        return None

    def do_extra(self, op):
        """Identity / Key objects obtained earlier in the history and used later (opt-in stream)"""
        c, a = op['c'], op['a']
        kc = self.kc
        if not hasattr(self, 'slots'):
            self.slots = {}
        if c == 'hi':
            self.slots.pop(a[0], None)
            self.slots[a[0]] = ('i', kc[self.idname(a[1])], a[1])
            return None
        if c == 'hk':
            self.slots.pop(a[0], None)
            self.slots[a[0]] = ('k', kc[self.idname(a[1][0])][self.keyname(a[1])], _lab_key(a[1]))
            return None
        kind, obj, owner = self.slots[a[0]]            # KeyError: nothing kept in the slot
        if c == 'lh':
            names = list(obj)
            out = {'kind': kind, 'owner': owner, 'len': len(obj), 'in': [n in obj for n in names]}
            if kind == 'i':
                out['name'] = self.ilabel(obj.name)
                out['iter'] = [self.klabel(n) for n in names]
                out['get'] = []
                for n in names:
                    try:
                        o = obj[n]
                        out['get'].append([self.klabel(o.name), self.ilabel(o.identity)])
                    except KeyError:
                        out['get'].append(None)
            else:
                out['name'] = self.klabel(obj.name)
                out['iter'] = [self.clabel(n) for n in names]
                out['get'] = []
                for n in names:
                    try:
                        o = obj[n]
                        out['get'].append([self.clabel(o.name), self.klabel(o.key)])
                    except KeyError:
                        out['get'].append(None)
            return ('held', out)
        if c == 'gh':
            args = {'identity' if kind == 'i' else 'key': obj}
            if a[1] is not None:
                args['key_locator'] = self.locname(a[1])
            return ('held', {'kind': kind, 'owner': owner, 'signer': self.probe_signer(kc.get_signer(args))})
        raise AssertionError(c)

    @staticmethod
    def verifies(h, sv, bits):
        from Cryptodome.PublicKey import ECC, RSA
        from Cryptodome.Signature import DSS, pkcs1_15
        try:
            DSS.new(ECC.import_key(bits), 'fips-186-3', 'der').verify(h, sv)
            return True
        except Exception:
            try:
                pkcs1_15.new(RSA.import_key(bits)).verify(h, sv)
                return True
            except Exception:
                return False

    def verifies_data(self, wire, bits):
        """does the signature of this Data packet verify under these public key bits?"""
        from ndn.encoding import parse_data
        from Cryptodome.Hash import SHA256
        try:
            _, _, _, sig = parse_data(wire)
            h = SHA256.new()
            for part in sig.signature_covered_part:
                h.update(part)
            return self.verifies(h, bytes(sig.signature_value_buf), bits)
        except Exception:
            return False

    def stored_pairs(self):
        """pairs of the key bits the store holds NOW (read through the public API)"""
        out = []
        try:
            for iname in list(self.kc):
                ident = self.kc[iname]
                for kname in list(ident):
                    try:
                        p = self.pair_of_pub.get(bytes(ident[kname].key_bits))
                        if p is not None:
                            out.append(p)
                    except KeyError:
                        pass
        except InjectedFault:
            raise
        except Exception:
            pass
        return out

    def probe_signer(self, signer):
        """sign a packet, find the key PAIR that verifies it (among all pairs ever generated), read the key locator"""
        from ndn.encoding import make_data, MetaInfo, parse_data
        from Cryptodome.Hash import SHA256
        pkt = make_data(self.Name.from_str('/probe/data'), MetaInfo(), b'content', signer=signer)
        _, _, _, sig = parse_data(pkt)
        h = SHA256.new()
        for part in sig.signature_covered_part:
            h.update(part)
        sv = bytes(sig.signature_value_buf)
        who = 'nobody'
        now = self.stored_pairs()
        for p in now + [p for p in sorted(self.pub_of_pair, reverse=True) if p not in now]:
            if self.verifies(h, sv, self.pub_of_pair[p]):
                who = p
                break
        kl = sig.signature_info.key_locator.name if sig.signature_info.key_locator is not None else None
        if kl is None:
            loc = 'none'
        else:
            s = self.Name.to_str(kl)
            m = re.fullmatch(r'/loc(\d+)', s)
            loc = f'l{m.group(1)}' if m else 'c' + self.clabel(kl)
        return [who, loc]

    # ---- observation through the public API
    def snapshot(self, uni_keys, uni_certs):
        kc = self.kc
        snap = {'len': len(kc), 'has_default': kc.has_default_identity(), 'ids': {}, 'probe': {}}
        try:
            snap['default'] = self.ilabel(kc.default_identity().name)
        except KeyError:
            snap['default'] = None
        names = list(kc)
        snap['iter'] = [self.ilabel(n) for n in names]
        for i in range(0, NIDS + 1):
            nm = self.idname(i)
            ent = {'in': nm in kc}
            try:
                o = kc[nm]
                ent['get'] = self.ilabel(o.name)
            except KeyError:
                ent['get'] = None
            snap['probe'][str(i)] = ent
        for n in names:
            ident = kc[n]
            iv = {'flag': bool(ident.is_default), 'len': len(ident), 'has_default': ident.has_default_key(), 'keys': {},
                  'probe': {}}
            try:
                iv['default'] = self.klabel(ident.default_key().name)
            except KeyError:
                iv['default'] = None
            knames = list(ident)
            iv['iter'] = [self.klabel(k) for k in knames]
            for k in uni_keys:
                kn = self.keyname(k)
                ent = {'in': kn in ident}
                try:
                    o = ident[kn]
                    ent['get'] = self.klabel(o.name)
                    ent['owner'] = self.ilabel(o.identity)
                except KeyError:
                    ent['get'] = None
                iv['probe'][_lab_key(k)] = ent
            for kn in knames:
                try:
                    key = ident[kn]
                except KeyError:
                    iv['keys'][self.klabel(kn)] = None       # listed but not retrievable
                    continue
                kv = {'flag': bool(key.is_default), 'len': len(key), 'has_default': key.has_default_cert(), 'certs': {},
                      'probe': {}, 'owner': self.ilabel(key.identity),
                      'pair': self.pair_of_pub.get(bytes(key.key_bits))}     # whose public key the row holds
                try:
                    kv['default'] = self.clabel(key.default_cert().name)
                except KeyError:
                    kv['default'] = None
                cnames = list(key)
                kv['iter'] = [self.clabel(x) for x in cnames]
                for ce in uni_certs:
                    cn = self.certname(ce)
                    ent = {'in': cn in key}
                    try:
                        o = key[cn]
                        ent['get'] = self.clabel(o.name)
                        ent['owner'] = self.klabel(o.key)
                    except KeyError:
                        ent['get'] = None
                    kv['probe'][_lab_cert(ce)] = ent
                for cn in cnames:
                    try:
                        kv['certs'][self.clabel(cn)] = bool(key[cn].is_default)
                    except KeyError:
                        kv['certs'][self.clabel(cn)] = None
                iv['keys'][self.klabel(kn)] = kv
            snap['ids'][str(self.ilabel(n))] = iv
        # the private-key directory: file name -> the pair its content belongs to
        snap['files'] = [[f, self.file_pair(f)] for f in sorted(os.listdir(self.tpmd))]
        snap['badself'] = sorted(set(self.badself))
        snap['recreated'] = sum(1 for n in self.gens.values() if n > 1)
        return snap


def _ord_kid(x):
    x = str(x)
    if x.isdigit():
        return (0, int(x))
    if x[:1] in 'xh' and x[1:].isdigit():
        return (1 if x[0] == 'x' else 2, int(x[1:]))
    raise ValueError(x)


def _ord_key(l):
    a = l.split('.')
    try:
        return _ord_kid(a[1]) + (int(a[0]),)
    except Exception:
        return (10 ** 9, 0, 0)


def _ord_cert(l):
    a = l.split('.')
    try:
        return _ord_kid(a[1]) + (int(a[0]), int(a[2]))
    except Exception:
        return (10 ** 9, 0, 0, 0)


def _dump(snap):
    """the canonical text the Lean driver prints (sorted)"""
    ids = []
    for i in sorted(snap['ids'], key=int):
        iv = snap['ids'][i]
        ks = []
        for kl in sorted(iv['keys'], key=_ord_key):
            kv = iv['keys'][kl]
            if kv is None:
                ks.append(kl + '?')
                continue
            cs = [cl + ('*' if kv['certs'][cl] else '') for cl in sorted(kv['certs'], key=_ord_cert)]
            pair = kv.get('pair')
            ks.append(f"{kl}@{'?' if pair is None else pair}{'*' if kv['flag'] else ''}#{kv['len']}[{','.join(cs)}]")
        ids.append(f"{i}{'*' if iv['flag'] else ''}#{iv['len']}({','.join(ks)})")
    files = sorted(snap['files'], key=lambda fp: (fp[1] if isinstance(fp[1], int) else 10 ** 9, fp[0]))
    files = [f'{f[:12]}={p}' for f, p in files]
    return f"D{1 if snap['has_default'] else 0}#{snap['len']}{{{';'.join(ids)}}}T{{{','.join(files)}}}"


def _map_refs(op, fk):
    """apply fk to every key reference [idn, kid] (also inside certificate references) of an operation"""
    def m(x):
        if isinstance(x, list) and x and isinstance(x[0], str):
            return [x[0]] + [m(y) for y in x[1:]]
        if isinstance(x, list) and len(x) == 2:
            return fk(x)
        if isinstance(x, list) and len(x) == 3:
            return fk(x[:2]) + [x[2]]
        return x
    return dict(op, a=[m(x) for x in op['a']])


def _refs(op):
    ks, cs = [], []

    def fk(k):
        ks.append(list(k))
        return k

    def m(x):
        if isinstance(x, list) and x and isinstance(x[0], str):
            for y in x[1:]:
                m(y)
        elif isinstance(x, list) and len(x) == 3:
            cs.append(list(x))
            ks.append(list(x[:2]))
        elif isinstance(x, list) and len(x) == 2:
            ks.append(list(x))
    for x in op['a']:
        m(x)
    return ks, cs


def _run_history(ops, case=None):
    rig = _Rig(case)
    try:
        trace = []
        uk, uc = [], []
        for op in ops:
            # a reference to a pair number that has not been generated yet must never become a real key later:
            # move it out of the range of generated numbers (the model gets the operation as executed)
            op = _map_refs(op, lambda k: [k[0], k[1] + 900] if isinstance(k[1], int) and rig.next_kid <= k[1] < 900
                           else list(k))
            # a key referred to by the number of a pair means the key NAME that pair was generated for
            op = _map_refs(op, rig.canon)
            if op['c'] == 'ic' and op['a'][1][2] == 0 and op['a'][0] != op['a'][1][:2] and isinstance(op['a'][1][1], str):
                # the self-signed certificate of a key with a chosen key id, offered to ANOTHER key: kept out (its real
                # name carries a timestamp, so the next generation of that key name has another one; the label would
                # stand for two names)
                op = dict(op, a=[op['a'][0], op['a'][1][:2] + [4]])
            ks, cs = _refs(op)
            for k in ks:
                if k not in uk:
                    uk.append(k)
            for c in cs:
                if c not in uc:
                    uc.append(c)
            rec = {'op': op}
            rig.armed = op.get('f')
            res, exc = None, None
            try:
                res = rig.do(op)
            except InjectedFault:
                exc = 'InjectedFault'
            except Exception as e:      # noqa
                exc = type(e).__name__
            rig.armed = None
            rig.learn()
            rec['exc'] = exc
            if isinstance(res, tuple) and res[0] == 'held':
                rec['held'], res = res[1], None
            rec['signer'] = res
            for lab in list(rig.key_label.values()):
                k = _parse_key_label(lab)
                if k not in uk:
                    uk.append(k)
                if k + [0] not in uc:
                    uc.append(k + [0])
            snap = rig.snapshot(uk, uc)
            rec['snap'] = snap
            rec['dump'] = _dump(snap)
            trace.append(rec)
        names = {lab: bytes(rig.Name.to_bytes(nm)).hex() for lab, nm in rig.key_ref.items()}
        return trace, names
    finally:
        rig.close()


def run_impl(case):
    ops = case['ops']
    trace, names = _run_history(ops, case)
    out = {'trace': trace, 'names': names}
    if any(o.get('f') is not None for o in ops):
        ref_ops = [dict(o) for o in ops if o.get('f') is None]
        out['ref'] = _run_history(ref_ops, case)[0]
    return out


# =============================================================================== model
def _tok_key(k):
    return f'{k[0]}.{k[1]}'


def _tok_op(o):
    c, a = o['c'], o['a']
    if c in ('ni', 'ti', 'sdi', 'di'):
        t = f'{c}:{a[0]}'
    elif c == 'nk':
        t = f"nk:{a[0]}:{'x' if a[1] == 'x' else 'e'}:{_spec(o)}"
    elif c in ('ic', 'sdc', 'dcv'):
        t = f'{c}:{_tok_key(a[0])}:{_lab_cert(a[1])}'
    elif c == 'sdk':
        t = f'sdk:{a[0]}:{_tok_key(a[1])}'
    elif c == 'dk':
        t = f'dk:{_tok_key(a[0])}'
    elif c == 'dc':
        t = f'dc:{_lab_cert(a[0])}'
    elif c == 'gs':
        sel, loc = _eff_sel(a[0]), a[1]
        s = 'd' if sel[0] == 'd' else ('i%d' % sel[1] if sel[0] == 'i' else ('k' + _tok_key(sel[1]) if sel[0] == 'k'
                                                                               else 'c' + _lab_cert(sel[1])))
        t = f"gs:{s}:{'~' if loc is None else loc}"
    elif c == 'ro':
        t = 'ro'
    elif c in EXTRA_OPS:
        t = 'gs:i0:~'       # kept objects are not in the model: an operation that changes nothing stands in for them
    else:
        raise AssertionError(c)
    if o.get('f') is not None:
        t += f"!{o['f']}"
    return t


def model_line(case, impl):
    ops = [r['op'] for r in impl['trace']]
    names = ','.join(f'{lab}={hx}' for lab, hx in sorted(impl['names'].items())) or '-'
    return f'C15 {MODEL_CFG} {names} ' + (';'.join(_tok_op(o) for o in ops) if ops else '.')


def model_obs(answer, case, impl):
    assert answer.startswith('ok'), answer
    out = answer.split()[1:]
    for i, rec in enumerate(impl['trace']):
        if rec['op']['c'] in EXTRA_OPS and i < len(out):
            out[i] = 'X|' + out[i].split('|', 1)[1]
    return out


def impl_obs(impl):
    out = []
    for rec in impl['trace']:
        if rec['op']['c'] in EXTRA_OPS:
            r = 'X'
        elif rec['exc']:
            r = 'E:' + rec['exc']
        elif rec['signer'] is not None:
            r = f"ok={rec['signer'][0]},{rec['signer'][1]}"
        else:
            r = 'ok'
        out.append(r + '|' + rec['dump'])
    return out


# =============================================================================== oracle
def _views_ok(snap, homes):
    """iteration, length, membership and lookup agree and are scoped to the owner"""
    if snap['len'] != len(snap['iter']):
        return f"len(keychain)={snap['len']} but it iterates {len(snap['iter'])} identities"
    if len(set(snap['iter'])) != len(snap['iter']):
        return 'keychain iterates an identity twice'
    for x, e in snap['probe'].items():
        inn = int(x) in snap['iter']
        if e['in'] != inn or (e['get'] is not None) != inn:
            return f'identity {x}: in={e["in"]} iterated={inn} lookup={"ok" if e["get"] is not None else "KeyError"}'
        if e['get'] is not None and e['get'] != int(x):
            return f'keychain[{x}] returned identity {e["get"]}'
    for i, iv in snap['ids'].items():
        if iv['len'] != len(iv['iter']):
            return f"len(identity)={iv['len']} but it iterates {len(iv['iter'])} keys"
        if len(set(iv['iter'])) != len(iv['iter']):
            return 'identity iterates a key twice'
        for kl in iv['iter']:
            if kl.split('.')[0] != i:
                return f'identity {i} lists key {kl} of another identity'
        for x, e in iv['probe'].items():
            inn = x in iv['iter']
            if e['in'] != inn or (e['get'] is not None) != inn:
                return (f'key view of an identity: membership/lookup not scoped or inconsistent '
                        f'(in={e["in"]} iterated={inn} lookup={"ok" if e["get"] is not None else "KeyError"})')
            if e['get'] is not None and (e['get'] != x or e['owner'] != int(i)):
                return 'identity[key] returned another key or a key of another identity'
        for kl, kv in iv['keys'].items():
            if kv is None:
                return 'identity lists a key it cannot look up'
            if kv['len'] != len(kv['iter']):
                return f"len(key)={kv['len']} but it iterates {len(kv['iter'])} certificates"
            if len(set(kv['iter'])) != len(kv['iter']):
                return 'key iterates a certificate twice'
            for cl in kv['iter']:
                if kl not in homes.get(cl, ()):
                    return f'key {kl} lists certificate {cl} that was not stored under it'
            for x, e in kv['probe'].items():
                inn = x in kv['iter']
                if e['in'] != inn or (e['get'] is not None) != inn:
                    return (f'certificate view of a key: membership/lookup not scoped or inconsistent '
                            f'(in={e["in"]} iterated={inn} lookup={"ok" if e["get"] is not None else "KeyError"})')
                if e['get'] is not None and (e['get'] != x or e['owner'] != kl):
                    return 'key[cert] returned another certificate or a wrong owner'
            for cl, fl in kv['certs'].items():
                if fl is None:
                    return 'key lists a certificate it cannot look up'
    return None


def _held_ok(h, a, prev, homes, deleted, dead_pairs):
    """an Identity / Key object obtained earlier, read as a mapping (lh) or used as signing argument (gh)"""
    kind, owner = h['kind'], h['owner']
    if 'iter' in h:
        if h['len'] != len(h['iter']) or len(set(h['iter'])) != len(h['iter']) or not all(h['in']):
            return 'a kept view object: length, iteration and membership disagree'
        if kind == 'i':
            if any(kl.split('.')[0] != str(owner) for kl in h['iter']):
                return 'a kept Identity object lists keys of another identity'
            if any(g is None or g[0] != kl or g[1] != owner for g, kl in zip(h['get'], h['iter'])):
                return 'a kept Identity object: lookup of a listed key fails or returns a key of another identity'
        else:
            if owner in deleted and h['iter']:
                return 'a kept Key object of a deleted key lists certificates'
            if any(owner not in homes.get(cl, ()) for cl in h['iter']):
                return 'a kept Key object lists certificates that were not stored under its key'
        return None
    who, loc = h['signer']
    if who in dead_pairs:
        return 'get_signer with a kept object returned a signer for a deleted key'
    if kind == 'i':
        iv = prev['ids'].get(str(owner))
        kv = iv['keys'].get(iv['default']) if iv and iv['default'] else None
        if kv is None or who != kv.get('pair'):
            return 'get_signer with a kept Identity object signs with a key that is not the default key of that identity'
        want_cert = kv['default']
    else:
        if owner in deleted:
            return 'get_signer with a kept Key object returned a signer for a deleted key'
        iv = prev['ids'].get(owner.split('.')[0])
        kv = iv['keys'].get(owner) if iv else None
        if kv is None or who != kv.get('pair'):
            return 'get_signer with a kept Key object signs with the private key of another key'
        want_cert = kv['default']
    want_loc = f'l{a[1]}' if a[1] is not None else ('c' + want_cert if want_cert is not None else None)
    if want_loc is not None and loc != want_loc:
        return 'get_signer with a kept object names a key locator other than the default certificate of the selected key'
    return None


def _scopes(snap):
    """scope id -> (members, [flagged members], has_default(), default() label)"""
    sc = {'K': (snap['iter'], [int(i) for i, iv in snap['ids'].items() if iv['flag']], snap['has_default'], snap['default'])}
    for i, iv in snap['ids'].items():
        fl = [kl for kl, kv in iv['keys'].items() if kv and kv['flag']]
        sc['I' + i] = (iv['iter'], fl, iv['has_default'], iv['default'])
        for kl, kv in iv['keys'].items():
            if kv:
                sc['K' + kl] = (kv['iter'], [cl for cl, f in kv['certs'].items() if f], kv['has_default'], kv['default'])
    return sc


def _shape(snap):
    ids = []
    for i in sorted(snap['ids'], key=int):
        iv = snap['ids'][i]
        ks = sorted((bool(kv and kv['flag']), sorted((cl.split('.')[2], bool(f)) for cl, f in (kv['certs'] if kv else {}).items()))
                    for kv in iv['keys'].values())
        ids.append((i, iv['flag'], ks))
    return (ids, len(snap['files']))


def _deleted_by(op, s, d):
    """does this operation ask for the deletion of d (the default of scope s), or of the owner of the scope?"""
    c, a = op['c'], op['a']
    keyscope = len(s) > 1 and s[0] == 'K'
    if c == 'dc':
        return keyscope and d == _lab_cert(a[0])
    if c == 'dcv':
        return keyscope and d == _lab_cert(a[1])
    if c == 'dk':
        return (s[0] == 'I' and d == _lab_key(a[0])) or s == 'K' + _lab_key(a[0])
    if c == 'di':
        return (s == 'K' and d == a[0]) or s == 'I' + str(a[0]) or (keyscope and s[1:].split('.')[0] == str(a[0]))
    return False


def _oracle_trace(trace, check_reopen=True):
    homes = {}           # cert label -> key labels it was stored under by a successful operation (and not deleted since)
    known_ids = set()    # identities / keys seen in the store and not deleted since
    known_keys = {}      # key label -> identity
    deleted = set()      # keys deleted by a successful delete (a key NAME generated again is taken out)
    dead_pairs = set()   # the key pairs of those keys
    excused = {}         # scope -> its default was deleted and there has been none since
    prev = None
    faulted = False
    for n, rec in enumerate(trace):
        op, snap = rec['op'], rec['snap']
        c, a = op['c'], op['a']
        if op.get('f') is not None:
            faulted = True
        if c in ('nk', 'ti') and prev is not None:
            # a key name (explicit key id) that is generated again after its key was deleted is a new key
            was = set(kl for iv in prev['ids'].values() for kl in iv['iter'])
            for iv in snap['ids'].values():
                for kl in iv['iter']:
                    if kl not in was:
                        deleted.discard(kl)
        # certificates stored by this operation
        for i, iv in snap['ids'].items():
            for kl, kv in iv['keys'].items():
                if kv:
                    for cl in kv['iter']:
                        if cl.endswith('.0') and cl.rsplit('.', 1)[0] == kl and cl not in homes:
                            homes[cl] = [kl]
        if c == 'ic' and rec['exc'] is None and _lab_key(a[0]) not in homes.setdefault(_lab_cert(a[1]), []):
            # (a name already stored under ANOTHER key: whether that may be accepted is not judged; the other key keeps it)
            homes[_lab_cert(a[1])].append(_lab_key(a[0]))
        if c == 'ic' and rec['exc'] == 'InjectedFault' and _lab_cert(a[1]) not in homes:
            homes[_lab_cert(a[1])] = [_lab_key(a[0])]   # may have been written before the failing commit
        for cl in [cl for cl, ks in homes.items() if not ks]:
            del homes[cl]
        why = _views_ok(snap, homes)
        if why:
            return f'op {n}: {why}'
        # defaults
        sc = _scopes(snap)
        psc = _scopes(prev) if prev else {}
        for s, (members, flagged, has, dflt) in sc.items():
            if len(flagged) > 1:
                return f'op {n}: more than one default in a scope ({s[0]})'
            if has != (len(flagged) == 1) or (dflt is not None) != has or (has and dflt != flagged[0]):
                return f'op {n}: has_default/default()/is_default flags disagree in a scope ({s[0]})'
            if members and not has:
                pm = psc.get(s)
                if pm and pm[3] is not None:
                    # "deleted" is judged by what was ASKED, not by what disappeared (unless a storage failure was
                    # injected earlier: then an uncommitted write may legitimately be rolled back by a reopen)
                    if pm[3] in members or not (faulted or _deleted_by(op, s, pm[3])):
                        return f'op {n}: scope ({s[0]}) lost its default although the default was not deleted'
                    excused[s] = True
                elif not excused.get(s):
                    return f'op {n}: populated scope ({s[0]}) without default although no default was deleted'
            else:
                excused.pop(s, None)
        for s in list(excused):
            if s not in sc:
                excused.pop(s)
        # deletes
        if rec['exc'] == 'KeyError' and prev is not None and not faulted and c in ('di', 'dk'):
            # membership and lookup agree, and a delete removes: an identity / a key the views list (under the owner it
            # was asked for) cannot be "not there" when its deletion is asked for by the same name
            if c == 'di' and a[0] in prev['iter'] and prev['probe'][str(a[0])]['in']:
                return f'op {n}: del_identity raises KeyError for an identity the keychain lists (nothing was deleted)'
            if c == 'dk':
                iv = prev['ids'].get(str(a[0][0]))
                if iv and _lab_key(a[0]) in iv['iter'] and (iv['probe'].get(_lab_key(a[0])) or {}).get('in'):
                    return f'op {n}: del_key raises KeyError for a key its identity lists (nothing was deleted)'
        if rec['exc'] is None and prev is not None:
            gone = []
            if c == 'di':
                iv = prev['ids'].get(str(a[0]))
                if iv:
                    gone = list(iv['iter'])
                if a[0] in snap['iter']:
                    return f'op {n}: identity still present after del_identity'
            elif c == 'dk':
                gone = [_lab_key(a[0])]
            deleted.update(gone)
            for iv in prev['ids'].values():
                for kl, kv in iv['keys'].items():
                    if kl in gone and kv and kv.get('pair') is not None:
                        dead_pairs.add(kv['pair'])
            for cl in list(homes):
                homes[cl] = [k for k in homes[cl] if k not in gone]
                if not homes[cl]:
                    del homes[cl]
            for k in gone:
                known_keys.pop(k, None)
            if c == 'di':
                known_ids.discard(a[0])
            if c == 'dc':
                homes.pop(_lab_cert(a[0]), None)
                for i, iv in snap['ids'].items():
                    for kl, kv in iv['keys'].items():
                        if kv and _lab_cert(a[0]) in kv['iter']:
                            return f'op {n}: certificate still present after del_cert'
        for i, iv in snap['ids'].items():
            for kl, kv in iv['keys'].items():
                if kl in deleted:
                    return f'op {n}: deleted key is still listed'
                for cl in (kv['iter'] if kv else []):
                    if any(k in deleted for k in homes.get(cl, ())):
                        return f'op {n}: certificate of a deleted key is still listed'
        for f, p in snap['files']:
            if p in dead_pairs:
                return f'op {n}: private key of a deleted key is still in the private-key directory'
        # nothing disappears unless its deletion (or that of its owner) was asked for: the views are mappings
        if not faulted:
            for i in sorted(known_ids):
                if i not in snap['iter']:
                    return f'op {n}: an identity vanished although it was never deleted'
            for kl, i in sorted(known_keys.items()):
                iv = snap['ids'].get(str(i))
                if not iv or kl not in iv['iter']:
                    return f'op {n}: a key vanished from its identity although it was never deleted'
            for cl, ks in sorted(homes.items()):
                for k in ks:
                    kv = (snap['ids'].get(k.split('.')[0]) or {'keys': {}})['keys'].get(k)
                    if not kv or cl not in kv['iter']:
                        return f'op {n}: a certificate vanished from its key although it was never deleted'
        known_ids.update(i for i in snap['iter'] if i >= 0)
        for i, iv in snap['ids'].items():
            for kl in iv['iter']:
                if kl != 'unk' and kl.split('.')[0] == i:
                    known_keys[kl] = int(i)
        # signer
        if c == 'gs' and rec['exc'] is None and rec['signer'] is not None and prev is not None:
            sel, loc = _eff_sel(a[0]), a[1]
            who, kl_seen = rec['signer']
            want_key, want_cert = None, None
            judge = True
            if sel[0] == 'c':
                want_cert = _lab_cert(sel[1])
                want_key = _lab_key(sel[1][:2])
                if want_key not in homes.get(want_cert, [want_key]):
                    judge = False                      # certificate stored under a key it is not named after
            else:
                if sel[0] == 'k':
                    want_key = _lab_key(sel[1])
                    iv = prev['ids'].get(str(sel[1][0]))
                else:
                    iid = prev['default'] if sel[0] == 'd' else sel[1]
                    iv = prev['ids'].get(str(iid)) if iid is not None else None
                    want_key = iv['default'] if iv else None
                kv = iv['keys'].get(want_key) if (iv and want_key) else None
                want_cert = kv['default'] if kv else None
                if want_key is None:
                    judge = False
            if judge:
                if want_key in deleted:
                    return f'op {n}: get_signer returned a signer for a deleted key'
                # the key pair whose public key the store holds for the selected key
                wiv = prev['ids'].get(want_key.split('.')[0])
                wkv = wiv['keys'].get(want_key) if wiv else None
                if wkv is not None and who != wkv.get('pair'):
                    return f'op {n}: signer signs with the private key of another key than the selected one'
                want_loc = f'l{loc}' if loc is not None else ('c' + want_cert if want_cert is not None else None)
                if want_loc is not None and kl_seen != want_loc:
                    return f'op {n}: signer names a key locator other than the selected certificate / explicit locator'
            if who in dead_pairs:
                return f'op {n}: get_signer returned a signer for a deleted key'
        # Identity / Key objects kept from earlier in the history are views too: consistent mappings scoped to their owner,
        # and as signing arguments they select their owner
        if c in ('lh', 'gh') and rec.get('held') and rec['exc'] is None and prev is not None:
            why = _held_ok(rec['held'], a, prev, homes, deleted, dead_pairs)
            if why:
                return f'op {n}: {why}'
        # the signer new_key obtains for the key it has just generated (it self-signs the key's first certificate with it)
        if snap.get('badself') and not faulted:
            return (f'op {n}: the self-signed certificate new_key created is not signed with the private key of the new key '
                    f'(it does not verify under the stored key bits)')
        # reopen
        if c == 'ro' and check_reopen and not faulted and prev is not None and rec['exc'] is None:
            if rec['dump'] != trace[n - 1]['dump']:
                return f'op {n}: contents differ after closing and reopening the store'
        if c == 'ro' and rec['exc'] is not None:
            return f'op {n}: reopening the store raised {rec["exc"]}'
        prev = snap
    return None


def oracle(case, impl):
    why = _oracle_trace(impl['trace'])
    if why:
        return why
    if 'ref' in impl:
        tr, ref = impl['trace'], impl['ref']
        j = next(i for i, r in enumerate(tr) if r['op'].get('f') is not None)
        if tr[j]['exc'] != 'InjectedFault':
            return None                                  # the fault point was not reached: nothing failed
        code = tr[j]['op']['c']
        retry, plain = tr[j + 1], ref[j]
        if retry['exc'] != plain['exc']:
            return (f'retry {code}: after a storage failure at step {tr[j]["op"]["f"]} repeating the operation '
                    f'raises {retry["exc"]} (an unfailed run: {plain["exc"]})')
        if _shape(retry['snap']) != _shape(plain['snap']):
            a, b = _shape(retry['snap']), _shape(plain['snap'])
            what = 'private-key files' if a[0] == b[0] else 'contents'
            return (f'retry {code}: after a storage failure at step {tr[j]["op"]["f"]} repeating the operation leaves '
                    f'other {what} than an unfailed run')
    return None


def nontrivial(case, impl):
    two = any(sum(len(iv['iter']) for iv in r['snap']['ids'].values()) >= 2 for r in impl['trace'])
    act = any(r['exc'] is None and r['op']['c'] in ('di', 'dk', 'dc', 'sdi', 'sdk', 'sdc', 'gs') for r in impl['trace'])
    return two and act


def tags(case, impl):
    t = []
    for r in impl['trace']:
        o = r['op']
        t.append('op:' + o['c'] + (':' + r['exc'] if r['exc'] else ''))
        if o.get('f') is not None:
            t.append('fault-reached' if r['exc'] == 'InjectedFault' else 'fault-not-reached')
        if o['c'] == 'nk' and o['a'][1] == 'r' and not r['exc']:
            t.append('rsa-key')
        if o.get('v'):
            t.append('via-view:' + o['c'])
        if o['c'] == 'nk' and o.get('x'):
            t.append('keyid-explicit:%s%s' % (o['x'][1] if o['x'][0] else 'empty', '' if r['exc'] else ':ok'))
        if o['c'] == 'nk' and _spec(o)[0] == 'x' and r['exc'] == 'ValueError' and o['a'][1] != 'x':
            t.append('keyid-of-live-key-refused')
        if o['c'] == 'nk' and (o.get('idt') or _spec(o) != 'r'):
            t.append('keyid-spec:%s%s' % (_spec(o)[0], '' if r['exc'] else ':ok'))
        if o['c'] == 'nk' and o.get('sz') and not r['exc']:
            t.append('key-size:%s%d' % (o['a'][1], o['sz']))
        if o['c'] == 'gs' and o['a'][0][0] == 'x':
            n_args = sum(x is not None for x in o['a'][0][1:4])
            t.append('gs-args:%d%s%s' % (n_args, '+object' if o['a'][0][4] else '', '' if r['exc'] else ':ok'))
        if o['c'] == 'ic' and r['exc'] == 'IntegrityError' and o['a'][0] != o['a'][1][:2]:
            t.append('ic-refused-under-other-key')
        if o['c'] in ('ti', 'ni', 'di') and o['a'][0] == 3:
            t.append('nested-identity:' + o['c'])
    nre = impl['trace'][-1]['snap'].get('recreated', 0) if impl['trace'] else 0
    if nre:
        t.append('keyname-recreated:%d' % min(nre, 3))
        ros = [i for i, r in enumerate(impl['trace']) if r['op']['c'] == 'ro']
        seen = 0
        for i, r in enumerate(impl['trace']):
            if r['snap'].get('recreated', 0) > seen:
                seen = r['snap']['recreated']
                dels = [j for j in range(i) if impl['trace'][j]['op']['c'] in ('dk', 'di') and not impl['trace'][j]['exc']]
                if dels and any(dels[-1] < x < i for x in ros):
                    t.append('keyname-recreated:reopen-between')
    t.append('len:%d' % (len(case['ops']) // 5 * 5))
    t += _name_tags(case, impl)
    return t


def _name_tags(case, impl):
    """which shapes of identity names / key ids the history was addressed to (only identities that existed count)"""
    idn, xk = case.get('idn'), case.get('xk', CLASSIC_XK)
    if idn is None:
        return ['names:plain']
    t = ['names:alphabet']
    seen = set()
    for r in impl['trace']:
        seen.update(i for i in r['snap']['iter'] if i >= 0)
    keynames = set()
    for r in impl['trace']:
        for i, iv in r['snap']['ids'].items():
            for kl in iv['iter']:
                if kl in impl['names']:
                    keynames.add(impl['names'][kl])
    enc = {i: ''.join(idn[i]) for i in range(NIDS + 1)}
    for i in sorted(seen):
        nm = idn[i]
        if C_KEY in nm:
            t.append('idname:has-KEY')
        if C_SELF in nm:
            t.append('idname:has-self')
        if any(c in nm for c in xk.values()):
            t.append('idname:has-key-id')
        if any(c[:2] != '08' or c == '0800' or not all(32 < b < 127 for b in bytes.fromhex(c)[2:]) for c in nm):
            t.append('idname:odd-component')
        for j in sorted(seen):
            if j != i and len(idn[j]) < len(nm) and nm[:len(idn[j])] == idn[j]:
                t.append('idname:below-another-identity')
        # the identity is named as / lives below a key that EXISTED in this history
        for kn in keynames:
            body = kn[4:] if kn[:2] == '07' and int(kn[2:4], 16) < 253 else None
            if body and enc[i].startswith(body):
                t.append('idname:at-or-below-a-live-key')
                break
    if xk != CLASSIC_XK:
        t.append('keyid:alphabet')
    for r in impl['trace']:
        o = r['op']
        if o['c'] in ('gs', 'dk', 'di', 'sdk', 'sdc', 'ic', 'dc') and not r['exc']:
            ks, _ = _refs(o)
            ids = {k[0] for k in ks} | ({o['a'][0]} if o['c'] == 'di' else set())
            if any(isinstance(i, int) and 0 <= i <= NIDS and C_KEY in idn[i] for i in ids):
                t.append('keyish-identity:%s:ok' % o['c'])
    return sorted(set(t))


def finding_key(case, impl, why):
    w = re.sub(r'op \d+: ', '', why)
    m = re.match(r'retry (\w+): after a storage failure at step (\d+) repeating the operation (raises (\w+)|leaves other ([\w-]+))', w)
    if m:
        return f'retry-{m.group(1)}-' + (f'raises-{m.group(4)}' if m.group(4) else f'other-{m.group(5)}')
    w = re.sub(r'\(.*?\)', '', w)
    w = re.sub(r'=\d+', '', w)
    w = re.sub(r'\b\d+(\.\d+)*\b', '', w)
    w = re.sub(r'[^a-zA-Z]+', '-', w).strip('-').lower()
    return w[:70]


LEVEL_TEXT = ('Lean 4 theorems over a hand-written model of KeychainSqlite3/Identity/Key + TpmFile: the SQL triggers are '
              'interpreted from a table generated from the live INITIALIZE_SQL; key names with explicit / random / hashed key '
              'ids as Tpm.construct_key_name builds them; the private-key directory as a map file name -> private key with the '
              'file-name function a parameter (every theorem holds for EVERY such function); invariants proved by induction '
              'over every operation history, including histories with a storage failure injected at any database write, commit '
              'or TPM call (at most one default per scope; a populated scope lacks a default only after its default was deleted; '
              'views are consistent mappings scoped to their owner; delete cascades; every key row has its private-key file, '
              'holding the private key of the row\'s public key, and no two stored key names share a file; a signer signs with '
              'the private key belonging to the key bits stored for the selected key and names the selected locator; no signer '
              'ever holds the private key of a deleted key - also when its key name is generated again; a new_key refused with '
              'ValueError changes nothing, and new_key with the id of a live key is refused; reopen preserves contents), plus a '
              'kernel-evaluated counterexample for the code before the repair of TpmFile.generate_key. Tied to the code on every '
              'run by differential execution of the compiled model against the real classes on a scratch sqlite file and '
              'private-key directory (file names compared with SHA-256 computed by the model; key bits, file contents and '
              'signatures mapped to key pairs by the real keys).')
LEVEL_NOTE = ('Proof is about the model of the code as repaired in /repo; model=code is sampled, not proved. '
              'Recovery after a failed multi-step operation (retry_recovers) is false in the code and is reported as findings, '
              'not proved. Judged outside the statement (not generated): two KeychainSqlite3 handles open on one store at the same '
              'time (neither a keychain operation nor close/reopen); get_signer given an ENCODED certificate / key name such as '
              'Key.default_cert().name (it raises KeyError: a refused call, no view or signer is inconsistent). Judged inside, '
              'reported and opt-in (VERIF_C15_EXTRA=1): Identity / Key objects kept across a delete (row ids are re-used), a '
              'failing new_key with an explicit key id that can never be repeated.')
TECHNIQUE = 'Lean 4 proof (statement-level invariants preserved by a state-and-exception monad, induction over histories) + model/implementation correspondence check with fault injection'
DESIGN_REF = 'DESIGN.md section 7, C15'
