"""C07 — packet decoders accept exactly the well-formed packets."""
import struct
import tlvschema as T
import strict_tlv as S

PROP = 'C07'
TITLE = 'Packet decoders accept exactly the well-formed packets'
LEAN_TARGETS = ['NdnProofs.Props.C07', 'NdnGen.C07', 'NdnProofs.Props.TlvVarGen', 'NdnGen.TlvVar',
                'NdnProofs.Props.TlvModelParseGen', 'NdnGen.TlvModelFields']
THEOREMS = [
    'Ndn.C07.parse_total', 'Ndn.C07.decodePacket_error_classes', 'Ndn.C07.shipped_decoders_error_classes',
    'Ndn.C07.decodeName_error_classes',
    'Ndn.C07.accepted_has_name', 'Ndn.C07.accepted_outer_exact', 'Ndn.C07.strict_implies_accept_partial',
    'Ndn.C07.overrun_accepted_counterexample', 'Ndn.Gen.C07.packet_schemas_ok', 'Ndn.Gen.C07.schemas_pinned',
    # the strict decoder (NdnModel/CodecStrict.lean) and the exact size of the known finding
    'Ndn.C07.strict_accepts_well_nested', 'Ndn.C07.strict_agrees', 'Ndn.C07.strict_refines',
    'Ndn.C07.strict_error_agrees', 'Ndn.C07.only_overruns_differ', 'Ndn.C07.accept_iff_strict',
    'Ndn.C07.packet_strict_agrees', 'Ndn.C07.packet_strict_refines', 'Ndn.C07.packet_only_overruns_differ',
    'Ndn.C07.packet_strict_accepts_well_nested', 'Ndn.C07.packet_accept_iff_strict',
    'Ndn.C07.shipped_decoders_strict', 'Ndn.C07.shipped_only_overruns_differ',
    # tlv_var.py readers TRANSLATED from their source text on every run (harness/py2lean.py -> lean/NdnGen/TlvVar.lean)
    # = the model functions the decoder model reads Type / Length numbers with, error classes included
    'Ndn.TlvVarGen.all_translated', 'Ndn.TlvVarGen.parse_tl_num_eq', 'Ndn.TlvVarGen.parse_and_check_tl_eq',
    # parse_from of the leaf field classes of tlv_model.py, translated the same way (NdnGen/TlvModelFields.lean)
    # = what the decoder model does with a leaf element (Codec.leafCheck + parseValue), error classes included
    'Ndn.TlvModelGen.parse_translated', 'Ndn.TlvModelGen.uint_parse_from_eq', 'Ndn.TlvModelGen.bool_parse_from_eq',
    'Ndn.TlvModelGen.bytes_parse_from_eq', 'Ndn.TlvModelGen.str_parse_from_eq',
]
PARTIAL = {
    'Ndn.C07.strict_implies_accept_partial':
        'only the direction "library-encoded (hence strictly well-formed) packet => accepted with equal fields" is a '
        'theorem (C08 round trip instantiated); the converse "accepted => every nested element inside its parent" is '
        'FALSE of the code (known finding overrun-*: TlvModel.parse truncates silently) and its negation is proved '
        '(overrun_accepted_counterexample). What IS proved about the converse, for every byte string: the decoder and '
        'the bounds-checked (strict) decoder agree result for result and error class for error class unless the strict '
        'reading stops at an overrunning element (strict_agrees); strict-accepted <=> accepted with the same fields and '
        'well nested (accept_iff_strict, shipped_decoders_strict); an accepted packet the strict reading does not '
        'accept contains an overrunning byte-string, sub-model, boolean or unrecognised element - the four known-finding '
        'keys (only_overruns_differ). MapField schemas are outside these theorems (no shipped packet has one)',
}
TRUSTED = [
    'C07: the four packet schemas are regenerated from the live classes on every run; Python slicing / struct semantics are CPython',
    'C07 (tlv_var.py): parse_tl_num and parse_and_check_tl are translated from the source text by harness/py2lean.py and '
    'proved equal to the model functions for all inputs (IndexError / struct.error classes included); trusted there: the '
    'translator and lean/NdnModel/PySem.lean (the reading of CPython ints, struct.unpack, indexing, slicing); the same for '
    'UintField / BoolField / BytesField.parse_from of tlv_model.py (methods translated as functions of their parameters; '
    'bytes.decode("utf-8") read as: succeeds exactly on Ndn.utf8Valid input); the scan loop of TlvModel.parse and the other '
    'field classes stay tied by differential execution',
    'C07: "time proportional to the input" is shown as: the scan loop of a level never exhausts fuel = len+1 (one unit per element); wall-clock is not measured',
]
RULE = ('valid Interest / Data / LpPacket / certificate wires built by the library (all optional-field combinations, signed '
        'and unsigned, tokens, nacks) and Names; each is decoded as is and after one mutation: byte substitution, truncation, '
        'length-field edit (+-1, +-big), element duplicated / deleted / swapped / unknown critical or non-critical element '
        'inserted at a random depth, a Type / Length number re-written in a longer than shortest form, an element of Type 0, '
        'a 9-byte (huge) Length, odd name components (zero-length, Type 0, Type above 65535, 3-byte Type) inserted into any '
        'Name, a 5..400-deep nest or several kB of unknown element inserted, and 12% get a second edit; valid wires include '
        'several-kB payloads and every LpPacket header field; plus grammar-generated packets (each recognised element of the '
        'field list present with p=0.6 in order, legal and illegal integer widths, then one deviation: swap / repeat / unknown '
        'element), uniformly random byte strings and random TLV-shaped sequences up to 2.5 kB; plus packets of all four kinds '
        'written element by element from the format documents, never by the library\'s encoder (13%): every optional element of '
        'the specification tables in specification order (ForwardingHint with several names, HopLimit, FinalBlockId of odd '
        'component types, KeyDigest key locators, SignatureNonce / SignatureTime / SignatureSeqNum, a certificate\'s '
        'ValidityPeriod followed by AdditionalDescription with entries, all LpPacket headers together), integers also in '
        'longer than shortest legal widths, unknown non-critical elements (and unknown critical ones where the format lets them '
        'pass) before / between / after them, a correct ParametersSha256Digest; decoded as is - then the extracted fields must '
        'also equal the values written in - or after one mutation. The strict reading the ORACLE judges by uses the field '
        'tables of all four packets written into the harness from NDN Packet Format 0.3, NDN Certificate Format 2.0 and NDNLPv2 '
        '(order, Type numbers, which sub-model lets unknown critical elements pass), not the ones in the source, and fields '
        'are compared by Type number; what parse_interest / parse_data hand to the caller (InterestParam, MetaInfo, content, '
        'SignaturePtrs) is compared with that reading too. The same wire goes to '
        'the real decoder, to the Lean decoder model, to an independent strict reader (Python) and to the Lean strict decoder; '
        'decoder model = code and Lean strict decoder = Python strict reader (accept / reject, fields, kind of overrun) are '
        'compared on every wire, including the wires flagged as known finding. non-trivial = the mutated wire is accepted '
        'by the decoder or the strict reader, or is a mutation of a valid packet; distinct = distinct wires. Process '
        'histories (each in a fresh interpreter, judged step by step, oracle only): hand-built packets of every ordered pair '
        'of kinds, then 3..5 rounds of STATE CARRIED BETWEEN DECODES: the caller edits in place everything an earlier '
        'decode returned (name lists, lists of names, writable component / content views, every attribute of MetaInfo / '
        'SignatureInfo / KeyLocator / InterestParam / SignaturePtrs objects) and may reuse the buffer it had passed; and / or '
        'gives the decoded name, the same Name in wire form (bytes / bytearray) or as components, and the decoded '
        'InterestParam / MetaInfo to make_interest (ApplicationParameters, digest signer) / make_data / Name.normalize and '
        'edits what comes back; then the same wire and related packets are decoded from fresh bytes / bytearray / '
        'memoryview buffers - the same packet under another Name, the same Name in a Data, an Interest, alone, as '
        'KeyLocator / ForwardingHint name of a Data, an Interest, a certificate, the packet inside an LpPacket - each '
        'judged by the strict reading of its own bytes; and what an earlier decode handed out and no caller touched is read '
        'again and must read the same')
LEVEL_TEXT = ('Lean 4 theorems about the decoder model (generic scan loop + parse_and_check_tl + Name.decode) for ALL byte '
              'strings: decoding terminates within fuel proportional to the input and can only fail with the documented '
              'error classes; an accepted packet has its Name and an exact outer length; library-encoded packets are '
              'accepted with equal fields. A specification-level strict decoder (the same scan loop plus the bounds check '
              'the code lacks) is related to the decoder model for ALL byte strings: what it accepts is well nested '
              '(inductive predicate WellNested / PacketNested), the decoder accepts it with exactly the same fields, both '
              'fail with the same error class otherwise, and the only byte strings on which they differ contain an '
              'overrunning byte-string / sub-model / boolean / unrecognised element (strict-accepted <=> accepted and '
              'well nested). The decoder model is tied to the code by differential execution on mutated packets; an '
              'independent strict reader written in Python is the oracle for "accepts only well-formed", and the Lean '
              'strict decoder is compared with it on every generated wire (accept / reject, fields, kind of overrun).')
LEVEL_NOTE = ('The converse direction (accepted => strictly well nested) is false of the unchanged code and recorded as a known '
              'finding keyed by the kind of element that overruns; the theorems show these four kinds are the whole gap. '
              'The proofs cover the models, the ties (decoder model - code, strict model - Python strict reader) are sampled.')
TECHNIQUE = 'Lean 4 proof (strong induction on fuel over all byte strings) + differential check against the code and a strict reader'
DESIGN_REF = 'DESIGN.md section 7, C07'

DOCUMENTED = {'DecodeError', 'IndexError', 'ValueError', 'struct.error', 'TypeError'}


def _exc(e):
    from ndn.encoding import DecodeError
    if isinstance(e, DecodeError):
        return 'DecodeError'
    if isinstance(e, struct.error):
        return 'struct.error'
    for c in (IndexError, KeyError, ValueError, TypeError, AttributeError, OverflowError):
        if isinstance(e, c):
            return c.__name__
    return type(e).__name__


def _kinds_static(kind):
    """the part of _kinds() that is plain data (no library object): usable while generating"""
    return {'interest': dict(outer=5, ic=False, need_name=True), 'data': dict(outer=6, ic=False, need_name=True),
            'lp': dict(outer=100, ic=True, need_name=False), 'cert': dict(outer=6, ic=False, need_name=True)}[kind]


def _kinds():
    from ndn.encoding import ndn_format_0_3 as f
    from ndn.encoding import ndnlp_v2 as lp
    from ndn.app_support import security_v2 as sv
    return {
        'interest': dict(cls=f.InterestPacketValue, outer=5, ic=False, need_name=True, forbid=[],
                         api=lambda w: f.parse_interest(w)),
        'data': dict(cls=f.DataPacketValue, outer=6, ic=False, need_name=True, forbid=[],
                     api=lambda w: f.parse_data(w)),
        'lp': dict(cls=lp.LpPacketValue, outer=100, ic=True, need_name=False, forbid=[82, 83],
                   api=lambda w: lp.parse_lp_packet_v2(w)),
        'cert': dict(cls=sv.CertificateV2Value, outer=6, ic=False, need_name=True, forbid=[],
                     api=lambda w: sv.parse_certificate(w)),
    }


# ------------------------------------------------------------------------------------- cases
def _rand_name(rng):
    return [T.random_comp(rng) for _ in range(rng.choice([0, 1, 2, 3, 5]))]


def _valid_wire(rng, kind):
    """a well-formed packet of this kind as a conforming encoder (python-ndn's make_interest / make_data / LpPacket.encode
    / new_cert among them) writes it: shortest Type / Length / integer forms, fields in the library's declared order.
    Written with pktcommon's packet writers, NOT by calling the library: these wires are the decoder's inputs, and they
    must exist (and stay the same) whatever state the library's encoders and signers are in."""
    import hashlib
    import pktcommon as K
    signer = rng.choice([None, None, {'type': 0}, {'type': 4, 'key_name': [K.gen_comp(b'k')], 'key': b'key12345'}])
    name = _rand_name(rng)
    big = rng.random() < 0.06       # wires of several kB

    def blob():
        if big:
            blk = bytes(rng.getrandbits(8) for _ in range(32))
            return blk * rng.choice([40, 70, 130, 260])
        return T.random_bytes(rng)
    if kind == 'interest':
        ip = dict(can_be_prefix=rng.random() < 0.5, must_be_fresh=rng.random() < 0.5,
                  nonce=rng.choice([None, rng.getrandbits(32)]),
                  lifetime=rng.choice([None, 0, 4000, 70000, 2 ** 33]),
                  hop_limit=rng.choice([None, 0, 255]),
                  forwarding_hint=[_rand_name(rng) for _ in range(rng.choice([0, 0, 1, 2]))])
        ap = rng.choice([None, None, b'', blob()])
        if signer is not None and signer['type'] == 0:
            # a digest-"signed" Interest carries SignatureTime and SignatureNonce (fixed by the name, not by the clock)
            h = hashlib.sha256(b''.join(name)).digest()
            signer = {'type': 0, 'nonce': int.from_bytes(h[:8], 'big'), 'time': 1700000000000 + int.from_bytes(h[8:12], 'big')}
        # at most one ParametersSha256DigestComponent, and only when there are parameters (an encoder refuses the rest;
        # such a draw used to be skipped, it is now repaired and kept)
        keep = 1 if (ap is not None or signer is not None) else 0
        name = [c for i, c in enumerate(name) if c[:1] != b'\x02' or sum(1 for d in name[:i] if d[:1] == b'\x02') < keep]
        return K.build_interest(name, app=ap, sig=signer, **ip)
    if kind == 'data':
        mi = dict(content_type=rng.choice([None, 0, 2, 300]), freshness_period=rng.choice([None, 0, 1000, 2 ** 40]),
                  final_block_id=rng.choice([None, T.random_comp(rng)]))
        return K.build_data(name, mi, rng.choice([None, b'', blob()]), signer)
    if kind == 'lp':
        inner = _valid_wire(rng, rng.choice(['interest', 'data']))
        v = {}
        if rng.random() < 0.4:
            v['pit_token'] = K.w_tlv(0x62, bytes(rng.getrandbits(8) for _ in range(rng.choice([0, 4, 8, 32]))))
        if rng.random() < 0.4:
            reason = rng.choice([None, 0, 50, 150, 2 ** 40])
            v['nack'] = K.w_tlv(0x320, b'' if reason is None else K.w_uint(0x321, reason))
        if rng.random() < 0.2:
            v['congestion_mark'] = K.w_uint(0x340, rng.choice([0, 1, 2 ** 20]))
        if rng.random() < 0.1:
            v['frag_index'] = K.w_uint(0x52, 0)
        if rng.random() < 0.1:
            v['frag_count'] = K.w_uint(0x53, 1)
        if rng.random() < 0.2:
            v['non_discovery'] = K.w_tlv(0x34c, b'')
        if rng.random() < 0.15:
            v['incoming_face_id'] = K.w_uint(0x32c, rng.choice([0, 255, 256, 2 ** 32, 2 ** 64 - 1]))
        if rng.random() < 0.15:
            v['next_hop_face_id'] = K.w_uint(0x330, rng.choice([0, 300, 70000]))
        if rng.random() < 0.15:
            cpt = rng.choice([None, 1, 1000])
            v['cache_policy'] = K.w_tlv(0x334, b'' if cpt is None else K.w_uint(0x335, cpt))
        if rng.random() < 0.15:
            # (never both: see ACK_TXSEQ_NOTE)
            if rng.random() < 0.5:
                v['ack'] = K.w_tlv(0x344, T.random_bytes(rng))
            else:
                v['tx_sequence'] = K.w_tlv(0x348, bytes(rng.getrandbits(8) for _ in range(8)))
        if rng.random() < 0.1:
            v['prefix_announcement'] = K.w_tlv(0x350, T.random_bytes(rng))
        if rng.random() < 0.85:
            v['fragment'] = K.w_tlv(0x50, inner)
        order = ['frag_index', 'frag_count', 'pit_token', 'nack', 'incoming_face_id', 'next_hop_face_id', 'cache_policy',
                 'congestion_mark', 'tx_sequence', 'ack', 'non_discovery', 'prefix_announcement', 'fragment']
        return K.w_tlv(0x64, b''.join(v.get(k, b'') for k in order))
    if kind == 'cert':
        from datetime import datetime, timedelta
        s2 = signer or {'type': 0}
        start = datetime(2000 + rng.randint(0, 60), rng.randint(1, 12), rng.randint(1, 28), rng.randint(0, 23), 0, 0)
        # <identity>/KEY/<key id>/self/<version>, MetaInfo {ContentType KEY, FreshnessPeriod 1 h}, the key bits, and a
        # ValidityPeriod { NotBefore NotAfter } of two 15-character ISO 8601 basic-format times inside the SignatureInfo
        cname = name + [K.gen_comp(b'KEY'), T.random_comp(rng), K.gen_comp(b'self')]
        pub = T.random_bytes(rng)
        end = start + timedelta(days=rng.randint(1, 4000))
        ver = 1700000000000 + int.from_bytes(hashlib.sha256(b''.join(cname)).digest()[:4], 'big')
        cname.append(K.gen_comp(ver.to_bytes(8, 'big'), 54))

        def fmt(t):
            return ('%04d%02d%02dT%02d%02d%02d' % (t.year, t.month, t.day, t.hour, t.minute, t.second)).encode()
        validity = K.w_tlv(0xfd, K.w_tlv(0xfe, fmt(start)) + K.w_tlv(0xff, fmt(end)))
        return K.build_data(cname, {'content_type': 2, 'freshness_period': 3600000}, pub, s2, validity)
    raise ValueError(kind)


def _tree(buf, start, end, depth=0):
    """generic TLV tree (list of [off, vs, ve, children|None]) if [start,end) splits exactly into elements"""
    out, off = [], start
    try:
        while off < end:
            t, vs, ve = S.read_elem(buf, off, end)
            kids = _tree(buf, vs, ve, depth + 1) if depth < 4 and ve > vs else None
            out.append([off, vs, ve, kids])
            off = ve
    except S.Reject:
        return None
    return out


def _nodes(tree, acc, parent=None):
    for i, n in enumerate(tree or []):
        acc.append((n, tree, i))
        _nodes(n[3], acc, n)
    return acc


def _mutate(rng, wire):
    kind = rng.choice(['none', 'subst', 'trunc', 'len', 'dup', 'del', 'swap', 'ins_crit', 'ins_noncrit', 'lenbig',
                       'width', 'width', 'nonshort_t', 'nonshort_l', 'nonshort_l', 'type0', 'len9', 'comp_odd', 'comp_odd',
                       'deep', 'bigunk'])
    if kind == 'none' or not wire:
        return wire, 'none'
    if kind == 'subst':
        i = rng.randrange(len(wire))
        return wire[:i] + bytes([rng.getrandbits(8)]) + wire[i + 1:], kind
    if kind == 'trunc':
        return wire[:rng.randrange(len(wire))], kind
    nodes = _nodes(_tree(wire, 0, len(wire)), [])
    if not nodes:
        return wire, 'none'
    n, sibs, i = rng.choice(nodes)
    off, vs, ve = n[0], n[1], n[2]
    if kind in ('len', 'lenbig'):
        # edit the (last byte of the) length field of this element; parents keep their lengths
        p = vs - 1
        d = rng.choice([1, -1, 2, -2]) if kind == 'len' else rng.choice([40, 127, 200])
        return wire[:p] + bytes([(wire[p] + d) % 256]) + wire[p + 1:], kind
    # structural edits keep every enclosing length consistent by rebuilding from the root
    def rebuild(edit_at, new_bytes):
        return _rebuild(wire, _tree(wire, 0, len(wire)), edit_at, new_bytes)
    el = wire[off:ve]
    if kind == 'width':
        leaves = [m for m, _, _ in nodes if m[2] - m[1] in (1, 2, 4, 8)]
        if not leaves:
            return wire, 'none'
        m = rng.choice(leaves)
        t, _ = S.read_num(wire, m[0], m[2])
        w = rng.choice([0, 3, 3, 5, 6, 7, 9, 16])
        body = bytes(rng.getrandbits(8) for _ in range(w))
        return _rebuild(wire, _tree(wire, 0, len(wire)), (m[0], m[2]), T.tl(t) + T.tl(w) + body), kind
    if kind == 'dup':
        return rebuild((off, ve), el + el), kind
    if kind == 'del':
        return rebuild((off, ve), b''), kind
    if kind == 'swap' and i + 1 < len(sibs):
        nx = sibs[i + 1]
        return rebuild((off, nx[2]), wire[nx[0]:nx[2]] + el), kind
    if kind in ('ins_crit', 'ins_noncrit'):
        t = rng.choice([3, 9, 0x1f, 0xff, 0x301]) if kind == 'ins_crit' else rng.choice([0xf0, 0xfe, 0x300, 0x3e8])
        pl = bytes(rng.getrandbits(8) for _ in range(rng.choice([0, 1, 4])))
        return rebuild((off, ve), T.tl(t) + T.tl(len(pl)) + pl + el), kind
    if kind in ('nonshort_t', 'nonshort_l'):
        # the same element with its Type / Length number written in a longer form than necessary
        t, st = S.read_num(wire, off, ve)
        ln = ve - vs
        if kind == 'nonshort_t':
            return rebuild((off, ve), _long_num(rng, t) + wire[off + st:ve]), kind
        return rebuild((off, ve), wire[off:off + st] + _long_num(rng, ln) + wire[vs:ve]), kind
    if kind == 'type0':
        pl = bytes(rng.getrandbits(8) for _ in range(rng.choice([0, 0, 1, 3])))
        new = b'\x00' + T.tl(len(pl)) + pl
        return rebuild((off, ve), (new + el) if rng.random() < 0.7 else (el + new)), kind
    if kind == 'len9':
        # a 9-byte Length: astronomically large, or just past / at the real size; enclosing lengths are kept
        t, st = S.read_num(wire, off, ve)
        big = rng.choice([2 ** 63, 2 ** 64 - 1, 2 ** 32, 2 ** 31, ve - vs + 1, 2 ** 63 - 1])
        new = wire[off:off + st] + b'\xff' + big.to_bytes(8, 'big') + wire[vs:ve]
        if rng.random() < 0.5:
            return wire[:off] + new + wire[ve:], kind          # ancestors not adjusted
        return rebuild((off, ve), new), kind
    if kind == 'comp_odd':
        # inside a Name: a zero-length component, a component of Type 0, of a Type above 65535, of a 3-byte Type
        names = [m for m, _, _ in nodes if wire[m[0]] == 7]
        if not names:
            return wire, 'none'
        m = rng.choice(names)
        try:
            comps = [(a, c) for _, a, _, c in _kids_flat(wire, m[1], m[2])]
        except S.Reject:
            return wire, 'none'
        new = rng.choice([b'\x08\x00', b'\x00\x01a', b'\x00\x00', b'\xfe\x00\x01\x00\x00\x01b', b'\xfd\xff\xff\x01c',
                          b'\xff\x00\x00\x00\x01\x00\x00\x00\x00\x00', b'\x20\x00', b'\x08\xfd\x00\x01d', b'\xfd\x00\x08\x01e'])
        cut = rng.choice([m[1]] + [c for _, c in comps])
        body = wire[m[1]:cut] + new + wire[cut:m[2]]
        return _rebuild(wire, _tree(wire, 0, len(wire)), (m[0], m[2]), b'\x07' + T.tl(len(body)) + body), kind
    if kind in ('deep', 'bigunk'):
        if kind == 'deep':
            x = b''
            for _ in range(rng.choice([5, 30, 120, 400])):
                x = T.tl(rng.choice([0xf0, 0xf0, 0xf1, 0x3e8])) + T.tl(len(x)) + x
            new = x
        else:
            blk = bytes(rng.getrandbits(8) for _ in range(16))
            pl = blk * rng.choice([20, 100, 300, 500])
            new = T.tl(rng.choice([0xf0, 0xfe, 0x3e8])) + T.tl(len(pl)) + pl
        return rebuild((off, ve), (new + el) if rng.random() < 0.5 else (el + new)), kind
    return wire, 'none'


def _kids_flat(buf, start, end):
    out, off = [], start
    while off < end:
        t, vs, ve = S.read_elem(buf, off, end)
        out.append((t, off, vs, ve))
        off = ve
    return out


def _long_num(rng, n):
    forms = [w for w, cap in ((3, 2 ** 16), (5, 2 ** 32), (9, 2 ** 64)) if w > len(T.tl(n)) and n < cap]
    w = rng.choice(forms)
    return {3: b'\xfd', 5: b'\xfe', 9: b'\xff'}[w] + n.to_bytes(w - 1, 'big')


def _rebuild(wire, tree, edit, new):
    """re-encode the tree with [edit[0], edit[1]) replaced by `new`, fixing all ancestor lengths"""
    def enc_level(nodes, start, end):
        out, pos = b'', start
        for off, vs, ve, kids in nodes:
            if (off, ve) == edit:
                out += new
            elif off <= edit[0] and edit[1] <= ve and kids is not None:
                body = enc_level(kids, vs, ve)
                t, _ = S.read_num(wire, off, ve)
                out += T.tl(t) + T.tl(len(body)) + body
            elif off <= edit[0] < ve and edit[1] > ve:
                out += wire[off:ve]          # edit spans siblings: handled by the sibling range below
            else:
                out += wire[off:ve]
            pos = ve
        return out
    # edits spanning two siblings (swap): treat at the level where both live
    def find_level(nodes):
        for k, (off, vs, ve, kids) in enumerate(nodes):
            if off == edit[0]:
                return nodes, k
            if off < edit[0] < ve and kids is not None:
                r = find_level(kids)
                if r:
                    return r
        return None
    lvl = find_level(tree)
    if lvl is not None:
        nodes, k = lvl
        j = k
        while j < len(nodes) and nodes[j][2] < edit[1]:
            j += 1
        if j > k and j < len(nodes) and nodes[j][2] == edit[1]:
            # merge the sibling range into one pseudo node
            merged = [nodes[k][0], nodes[k][1], nodes[j][2], None]
            nodes[k:j + 1] = [merged]
    return enc_level(tree, 0, len(wire))


# NDNLPv2 field table of LpPacket (Type numbers from the NDNLPv2 specification; header fields, Fragment last). The strict
# reading of an LpPacket uses THIS table, not the one found in the source.
# ACK_TXSEQ_NOTE: NDNLPv2 / ndn-cxx order header fields by increasing Type (Ack 0x344 before TxSequence 0x348); the
# library declares tx_sequence before ack, so of a packet carrying both in increasing order it silently drops
# TxSequence. Reported, not judged: the table keeps the library's order for these two and valid LpPackets are generated
# with at most one of them.
SPEC_LP = [('U', 0x52, None), ('U', 0x53, None), ('Y', 0x62, False), ('M', 0x320, False, [('U', 0x321, None)], None),
           ('U', 0x32c, None), ('U', 0x330, None), ('M', 0x334, False, [('U', 0x335, None)], None), ('U', 0x340, None),
           ('Y', 0x348, False), ('Y', 0x344, False), ('B', 0x34c), ('Y', 0x350, False), ('Y', 0x50, False)]

ODD_COMPS = [b'\x08\x00', b'\x00\x01a', b'\xfe\x00\x01\x00\x00\x01b', b'\xfd\xff\xff\x01c', b'\x20\x00', b'\xfd\x00\x08\x01e']

# Field tables of the other three packets, written from the format documents (NDN Packet Format 0.3: Interest, Data,
# MetaInfo, SignatureInfo / InterestSignatureInfo, KeyLocator; NDN Certificate Format 2.0: ValidityPeriod and the
# AdditionalDescription extension inside the certificate's SignatureInfo, in that order) - NOT read from the source.
# The oracle's strict reading uses THESE tables; the source's field order / Type numbers are what is being judged.
# Notes: (1) SignatureNonce is an octet string in the format (1*OCTET); the library reads it as an integer, which is
# compared by value (_diff_val). (2) The format defines SignatureNonce / SignatureTime / SignatureSeqNum for an Interest's
# SignatureInfo only; python-ndn uses one SignatureInfo class for both packets, and a Data carrying these (non-critical)
# elements is outside the Data format - the tables list them for Data too (reported, not judged).
_SPEC_KL = [('N', 7), ('Y', 0x1d, False)]
_SPEC_SIG = [('U', 0x1b, None), ('M', 0x1c, False, _SPEC_KL, None), ('Y', 0x26, False), ('U', 0x28, None), ('U', 0x2a, None)]
_SPEC_META = ('M', 0x14, False, [('U', 0x18, None), ('U', 0x19, None), ('Y', 0x1a, False)], None)
_SPEC_VALIDITY = ('M', 0xfd, False, [('Y', 0xfe, False), ('Y', 0xff, False)], None)
_SPEC_ADD_DESC = ('M', 0x102, False, [('R', ('M', 0x200, False, [('Y', 0x201, False), ('Y', 0x202, False)], None))], None)
SPEC_INTEREST = [('N', 7), ('B', 0x21), ('B', 0x12), ('M', 0x1e, False, [('R', ('N', 7))], None), ('U', 0x0a, 4),
                 ('U', 0x0c, None), ('U', 0x22, 1), ('Y', 0x24, False), ('M', 0x2c, False, _SPEC_SIG, None), ('Y', 0x2e, False)]
SPEC_DATA = [('N', 7), _SPEC_META, ('Y', 0x15, False), ('M', 0x16, True, _SPEC_SIG, None), ('Y', 0x17, False)]
SPEC_CERT = [('N', 7), _SPEC_META, ('Y', 0x15, False),
             ('M', 0x16, True, _SPEC_SIG + [_SPEC_VALIDITY, _SPEC_ADD_DESC], None), ('Y', 0x17, False)]
SPEC = {'interest': SPEC_INTEREST, 'data': SPEC_DATA, 'lp': SPEC_LP, 'cert': SPEC_CERT}


def _keyed(fs, vals):
    """value tuples of a field list -> {Type: value}: what was extracted, independent of the position a field has in
    whichever table produced it (absent fields and empty repetitions are left out)"""
    out = {}
    for s, v in zip(fs, vals):
        if s[0] == 'K' or v is None:
            continue
        if s[0] == 'R':
            if v[1]:
                out[str(s[1][1])] = ['l', [_keyed_val(s[1], x) for x in v[1]]]
            continue
        if s[0] == 'P':
            continue
        out[str(s[1])] = _keyed_val(s, v)
    return out


def _keyed_val(s, v):
    k = v[0]
    if k == 'u':
        return ['u', v[1]]
    if k == 'b':
        return ['b']
    if k == 'y':
        return ['y', bytes(v[1]).hex()]
    if k == 'n':
        return ['n', [bytes(c).hex() for c in v[1]]]
    if k == 'm':
        return ['m', _keyed(s[3], v[1])]
    raise ValueError(v)


def _diff(fs, a, b, path=''):
    """first field of the specification table `fs` on which the reference reading `a` and the extracted fields `b`
    (both in _keyed form) differ, or None. Fields the table does not list are not compared."""
    for s in fs:
        if s[0] in ('K', 'P'):
            continue
        e = s[1] if s[0] == 'R' else s
        k = str(e[1])
        x, y = a.get(k), b.get(k)
        where = f'{path}{e[1]:#x}'
        if s[0] == 'R':
            xs = x[1] if x and x[0] == 'l' else [] if x is None else None
            ys = y[1] if y and y[0] == 'l' else [] if y is None else None
            if xs is None or ys is None or len(xs) != len(ys):
                return where + ' (number of repetitions)'
            for i, (p, q) in enumerate(zip(xs, ys)):
                d = _diff_val(e, p, q, f'{where}[{i}]')
                if d:
                    return d
            continue
        if x is None and y is None:
            continue
        if x is None:
            return where + ' (not in the packet, but extracted)'
        if y is None:
            return where + ' (in the packet, not extracted)'
        d = _diff_val(e, x, y, where)
        if d:
            return d
    return None


def _diff_val(e, x, y, where):
    if e[0] == 'M':
        if x[0] != 'm' or y[0] != 'm':
            return where + ' (kind)'
        return _diff(e[3], x[1], y[1], where + '/')
    if x == y:
        return None
    if x[0] == 'y' and y[0] == 'u' and int.from_bytes(bytes.fromhex(x[1]), 'big') == y[1]:
        return None           # an octet-string field the library reads as an integer: same value
    return where + ' (value)'


def _api_keyed(kind, res):
    """what parse_interest / parse_data hand to the caller (name, InterestParam / MetaInfo, content, SignaturePtrs)"""
    from ndn.encoding import Name
    name, par, content, sp = res
    if isinstance(name, str):
        return None

    def nm(n):
        return ['n', [bytes(c).hex() for c in Name.normalize(n)]]

    def inst(x):
        fs = T.class_schema(type(x))
        return ['m', _keyed(fs, T.from_instance(fs, x))]
    kd = {'7': nm(name)}
    if kind == 'interest':
        if par.can_be_prefix:
            kd['33'] = ['b']
        if par.must_be_fresh:
            kd['18'] = ['b']
        if par.forwarding_hint:
            kd['30'] = ['m', {'7': ['l', [nm(n) for n in par.forwarding_hint]]}]
        for k, v in (('10', par.nonce), ('12', par.lifetime), ('34', par.hop_limit)):
            if v is not None:
                kd[k] = ['u', int(v)]
        ct, si, sv = '36', '44', '46'
    else:
        kd['20'] = inst(par)
        ct, si, sv = '21', '22', '23'
    if content is not None:
        kd[ct] = ['y', bytes(content).hex()]
    if sp.signature_info is not None:
        kd[si] = inst(sp.signature_info)
    if sp.signature_value_buf is not None:
        kd[sv] = ['y', bytes(sp.signature_value_buf).hex()]
    return kd


def _api_reference(kind, ref, api):
    """the strict reading and the tuple API made comparable: parse_interest gives the delegation names (an empty
    ForwardingHint looks like none); parse_data substitutes a default MetaInfo object when the packet has none (its
    contents are then not a field of the packet, and not compared)"""
    ref, api = dict(ref), dict(api)
    if kind == 'interest' and '30' in ref and not ref['30'][1].get('7'):
        del ref['30']
    if kind == 'data' and '20' not in ref:
        api.pop('20', None)
    return ref, api


# ------------------------------------------------------------ packets built by hand from the format documents
UNK_NONCRIT = [0xf0, 0xf2, 0x3e8, 0x7d00, 0x10000]      # even, above 31, in none of the tables
UNK_CRIT = [0xf1, 0x3e9, 0x105]                         # odd: only where the format lets unknown critical elements pass


def _spec_bytes(rng, typ):
    import hashlib
    if typ == 0x1a:      # FinalBlockId holds one name component (any component type)
        return rng.choice([T.random_comp(rng), b'\x08\x00', b'\x32\x03\x01\x02\x03', b'\xfd\xff\xfe\x02ab', b'\x3a\x01\x07',
                           b'\x01\x20' + hashlib.sha256(b'x').digest(), b'\x36\x08' + bytes(8)])
    if typ in (0xfe, 0xff):
        return ('%04d%02d%02dT%02d%02d%02d' % (rng.randint(1970, 2099), rng.randint(1, 12), rng.randint(1, 28),
                                               rng.randint(0, 23), rng.randint(0, 59), rng.randint(0, 59))).encode()
    if typ == 0x1d:
        return bytes(rng.getrandbits(8) for _ in range(32))
    if typ == 0x26:
        return bytes(rng.getrandbits(8) for _ in range(rng.choice([1, 2, 4, 8, 8, 8, 8, 3, 16])))
    if typ in (0x201, 0x202):
        return rng.choice([b'organization', b'email', b'admin@example.org', b'', 'Université'.encode(), T.random_bytes(rng)])
    if typ in (0x17, 0x2e):
        return bytes(rng.getrandbits(8) for _ in range(rng.choice([0, 32, 64, 71])))
    return T.random_bytes(rng)


def _spec_elem(rng, s, p):
    """one element of the table entry `s` as (bytes, value in _keyed form)"""
    k, t = s[0], s[1]
    if k == 'U':
        v = rng.choice(T.UINT_EDGES) if rng.random() < 0.6 else rng.getrandbits(rng.choice([3, 8, 16, 32, 64]))
        if s[2] is not None:
            w = s[2]
            v %= 256 ** w
        else:
            fit = [w for w in (1, 2, 4, 8) if v < 256 ** w]
            w = fit[0] if rng.random() < 0.8 else rng.choice(fit)      # a NonNegativeInteger need not be the shortest
        return T.tl(t) + T.tl(w) + v.to_bytes(w, 'big'), ['u', v]
    if k == 'B':
        return T.tl(t) + b'\x00', ['b']
    if k == 'Y':
        pl = _spec_bytes(rng, t)
        return T.tl(t) + T.tl(len(pl)) + pl, ['y', pl.hex()]
    if k == 'N':
        comps = [T.random_comp(rng) for _ in range(rng.choice([0, 1, 2, 3, 5]))]
        body = b''.join(comps)
        return T.tl(t) + T.tl(len(body)) + body, ['n', [c.hex() for c in comps]]
    if k == 'M':
        fs = s[3]
        if t == 0x1c:       # KeyLocator = Name / KeyDigest
            fs = [rng.choice(fs)]
        chunks, kd = _spec_chunks(rng, fs, s[2], 1.0 if t == 0x1c else p)
        body = b''.join(c[1] for c in chunks)
        return T.tl(t) + T.tl(len(body)) + body, ['m', kd]
    raise ValueError(s)


def _spec_chunks(rng, fs, ic, p, unk=0.15):
    """the elements of one level in the order of the table, each optional one present with probability p, with unknown
    elements a receiver has to skip before / between / after them; returns ([[Type | None, bytes]], keyed values)"""
    chunks, kd = [], {}

    def unknown():
        if rng.random() < unk:
            t = rng.choice(UNK_CRIT) if ic and rng.random() < 0.4 else rng.choice(UNK_NONCRIT)
            pl = bytes(rng.getrandbits(8) for _ in range(rng.choice([0, 1, 4, 9])))
            chunks.append([None, T.tl(t) + T.tl(len(pl)) + pl])
    for i, s in enumerate(fs):
        unknown()
        if s[0] == 'R':
            items = []
            for _ in range(rng.choice([0, 1, 2, 3]) if rng.random() < max(p, 0.5) else 0):
                b, v = _spec_elem(rng, s[1], p)
                chunks.append([s[1][1], b])
                items.append(v)
                unknown()
            if items:
                kd[str(s[1][1])] = ['l', items]
            continue
        if not (s[0] == 'N' and i == 0) and rng.random() >= p:
            continue
        b, v = _spec_elem(rng, s, p)
        chunks.append([s[1], b])
        kd[str(s[1])] = v
    unknown()
    return chunks, kd


def _spec_wire(rng, kind):
    """a packet of this kind written element by element from the specification table (never by the library's encoder):
    (wire, the values written into it)"""
    import hashlib
    p = rng.choice([1.0, 1.0, 0.85, 0.6])
    fs = SPEC[kind]
    chunks, kd = _spec_chunks(rng, fs, kind == 'lp', p)

    def drop(t):
        chunks[:] = [c for c in chunks if c[0] != t]
        kd.pop(str(t), None)
    if kind == 'interest':
        types = [c[0] for c in chunks]
        if 0x24 not in types:
            drop(0x2c), drop(0x2e)       # a signed Interest has ApplicationParameters
        else:
            # ParametersSha256DigestComponent: SHA-256 over everything from ApplicationParameters to the end
            dg = hashlib.sha256(b''.join(c[1] for c in chunks[types.index(0x24):])).digest()
            comps = [bytes.fromhex(c) for c in kd['7'][1]]
            comps.insert(rng.choice([len(comps), len(comps), rng.randint(0, len(comps))]), b'\x02\x20' + dg)
            body = b''.join(comps)
            chunks[types.index(7)][1] = b'\x07' + T.tl(len(body)) + body
            kd['7'] = ['n', [c.hex() for c in comps]]
    if kind == 'lp':
        types = [c[0] for c in chunks]
        if 0x344 in types and 0x348 in types:
            drop(rng.choice([0x344, 0x348]))        # see ACK_TXSEQ_NOTE
        if rng.random() < 0.9:
            drop(0x52), drop(0x53)                  # fragmentation headers: refused by the library by design
        if '80' in kd and rng.random() < 0.8:
            inner = _spec_wire(rng, rng.choice(['interest', 'data']))[0]
            for c in chunks:
                if c[0] == 0x50:
                    c[1] = b'\x50' + T.tl(len(inner)) + inner
            kd['80'] = ['y', inner.hex()]
    body = b''.join(c[1] for c in chunks)
    return T.tl(_OUTER[kind]) + T.tl(len(body)) + body, kd


_OUTER = {'interest': 5, 'data': 6, 'lp': 100, 'cert': 6}



def _gram_elem(rng, s):
    k = s[0]
    if k == 'R':
        return b''.join(_gram_elem(rng, s[1]) for _ in range(rng.choice([0, 1, 2, 3])))
    if k == 'U':
        legal = [s[2]] if s[2] is not None else [1, 1, 2, 4, 8]
        w = rng.choice(legal) if rng.random() < 0.9 else rng.choice([0, 3, 5, 9, 1, 2, 4, 8])
        return T.tl(s[1]) + T.tl(w) + bytes(rng.getrandbits(8) for _ in range(w))
    if k == 'B':
        pl = b'' if rng.random() < 0.93 else b'\x01'
        return T.tl(s[1]) + T.tl(len(pl)) + pl
    if k == 'Y':
        pl = T.random_bytes(rng)
        return T.tl(s[1]) + T.tl(len(pl)) + pl
    if k == 'N':
        comps = [T.random_comp(rng) if rng.random() < 0.9 else rng.choice(ODD_COMPS) for _ in range(rng.choice([0, 1, 2, 4]))]
        body = b''.join(comps)
        return T.tl(s[1]) + T.tl(len(body)) + body
    if k == 'M':
        body = _gram_fields(rng, s[3])
        return T.tl(s[1]) + T.tl(len(body)) + body
    return b''


def _gram_fields(rng, fs):
    """the recognised elements of a field list, each present with probability 0.6, in declared order - then possibly one
    deviation: neighbours swapped, an element repeated, an unknown (critical / non-critical / Type 0) element inserted"""
    items = [x for x in (_gram_elem(rng, s) for s in fs if s[0] != 'K' and rng.random() < 0.6) if x]
    r = rng.random()
    if r < 0.12 and len(items) >= 2:
        i = rng.randrange(len(items) - 1)
        items[i], items[i + 1] = items[i + 1], items[i]
    elif r < 0.2 and items:
        i = rng.randrange(len(items))
        items.insert(rng.randint(i, len(items)), items[i])
    elif r < 0.35:
        t = rng.choice([0xf0, 0xfe, 0x3e8, 0x3e8, 0, 9, 0x1f, 0x301])
        pl = bytes(rng.getrandbits(8) for _ in range(rng.choice([0, 1, 5])))
        items.insert(rng.randint(0, len(items)), T.tl(t) + T.tl(len(pl)) + pl)
    return b''.join(items)


def _src_fields(kind):
    """the field table the source declares for this packet (the grammar / random streams aim at what the decoder
    recognises); when it cannot be read, the table of the format documents - a generator never fails on the library"""
    try:
        return T.class_schema(_kinds()[kind]['cls'])
    except Exception:     # noqa
        return SPEC[kind]


def _grammar_wire(rng, kind):
    body = _gram_fields(rng, _src_fields(kind))
    return T.tl(_OUTER[kind]) + T.tl(len(body)) + body


def _random_wire(rng, kind):
    """uniformly random bytes / a random sequence of TLV-shaped elements with the Types of this packet, up to ~2 kB"""
    if rng.random() < 0.5:
        body = bytes(rng.getrandbits(8) for _ in range(rng.choice([rng.randint(0, 40), rng.randint(0, 300), rng.randint(300, 2500)])))
    else:
        types = []

        def walk(fs):
            for s in fs:
                if s[0] == 'K':
                    continue
                e = s[1] if s[0] == 'R' else s
                types.append(e[1])
                if e[0] == 'M':
                    walk(e[3])
        walk(_src_fields(kind))
        body = b''
        for _ in range(rng.choice([1, 3, 8, 30, 120])):
            t = rng.choice(types) if rng.random() < 0.8 else rng.getrandbits(rng.choice([3, 8, 16]))
            pl = bytes(rng.getrandbits(8) for _ in range(rng.choice([0, 1, 2, 4, 8, 20])))
            ln = len(pl) if rng.random() < 0.9 else rng.getrandbits(8)
            body += T.tl(t) + T.tl(ln) + pl
    return T.tl(_OUTER[kind]) + T.tl(len(body)) + body


def cases(rng, tier):
    n = 4600 if tier == 'quick' else 66000
    for _ in range(n):
        r = rng.random()
        if r < 0.13:
            # hand-built from the format documents, every optional element in specification order; as is (with the values
            # written into it as a second reference) or after one mutation
            kind = rng.choice(['interest', 'data', 'lp', 'cert', 'cert'])
            wire, kd = _spec_wire(rng, kind)
            case = {'kind': kind, 'wire': wire.hex(), 'mut': 'spec'}
            if rng.random() < 0.3:
                try:
                    wire, m2 = _mutate(rng, wire)
                except Exception:     # noqa
                    m2 = 'none'
                if m2 != 'none':
                    yield {'kind': kind, 'wire': wire.hex(), 'mut': 'spec+' + m2}
                    continue
            import json
            case['expect'] = json.dumps(kd, sort_keys=True)
            yield case
            continue
        r = (r - 0.13) / 0.87
        if r < 0.72:
            kind = rng.choice(['interest', 'interest', 'data', 'data', 'lp', 'lp', 'cert'])
            try:
                wire = _valid_wire(rng, kind)
            except Exception:     # noqa - generator hit an encoder limitation; skip
                continue
            try:
                wire, mut = _mutate(rng, wire)
                if rng.random() < 0.12:
                    wire, mut2 = _mutate(rng, wire)       # a second, independent edit
                    mut = mut + '+' + mut2 if mut2 != 'none' else mut
            except Exception:     # noqa
                mut = 'none'
            yield {'kind': kind, 'wire': wire.hex(), 'mut': mut}
        elif r < 0.87:
            kind = rng.choice(['interest', 'data', 'lp', 'lp', 'cert'])
            wire, mut = _grammar_wire(rng, kind), 'grammar'
            if rng.random() < 0.15:
                try:
                    wire, m2 = _mutate(rng, wire)
                    mut = mut + '+' + m2 if m2 != 'none' else mut
                except Exception:     # noqa
                    pass
            yield {'kind': kind, 'wire': wire.hex(), 'mut': mut}
        elif r < 0.94:
            kind = rng.choice(['interest', 'data', 'lp', 'cert'])
            yield {'kind': kind, 'wire': _random_wire(rng, kind).hex(), 'mut': 'random'}
        else:
            comps = _rand_name(rng)
            if rng.random() < 0.3:
                comps.insert(rng.randint(0, len(comps)), rng.choice(ODD_COMPS))
            if rng.random() < 0.1:
                n = rng.choice([252, 253, 300, 3000])
                comps.append(T.tl(8) + T.tl(n) + bytes(rng.getrandbits(8) for _ in range(8)) * (n // 8 + 1))
                comps[-1] = comps[-1][:len(T.tl(8) + T.tl(n)) + n]
            body = b''.join(comps)
            w = b'\x07' + T.tl(len(body)) + body
            w, mut = _mutate(rng, w)
            yield {'kind': 'name', 'wire': w.hex(), 'mut': mut}
    # --- process history: the decoders keep no state, so what a byte string decodes to must not depend on which packets
    # the process has decoded BEFORE.  Every ordered pair (and some triples) of packet kinds, hand-built with every
    # optional element, decoded in that order in a FRESH interpreter (run_impl spawns it); judged packet by packet.
    kinds = ['interest', 'data', 'lp', 'cert']
    seqs = [[a, b] for a in kinds for b in kinds if a != b] + [['data', 'interest', 'cert'], ['lp', 'cert', 'data'],
                                                              ['interest', 'lp', 'data', 'cert'], ['cert', 'data', 'cert']]
    if tier != 'quick':
        seqs = seqs * 6
    import json
    for sq in seqs:
        sub = []
        for kind in sq:
            # a packet the strict reading (the harness's own reader over the format tables) accepts
            for _ in range(40):
                wire, kd = _spec_wire(rng, kind)
                K = _kinds_static(kind)
                try:
                    S.strict_packet(SPEC[kind], wire, K['outer'], K['ic'], K['need_name'])
                except S.Reject:
                    continue
                # ... and that carries its nested models (a SignatureInfo with several elements), so that whatever a
                # decoder class may keep from one packet to the next has something to keep
                need = {'interest': '44', 'data': '22', 'cert': '22'}.get(kind)
                if need is None or (isinstance(kd.get(need), list) and len(kd[need]) > 1 and len(kd[need][1]) >= 2):
                    break
            sub.append({'kind': kind, 'wire': wire.hex(), 'mut': 'spec', 'expect': json.dumps(kd, sort_keys=True),
                        'id': len(sub)})
        # ... followed, in the same process, by the caller editing in place what those decodes returned, library calls
        # that are given decoded values, and further decodes of the same and of related packets (see _carry_steps)
        sub = sub + _carry_steps(rng, sub)
        yield {'kind': 'hist', 'seq': sub, 'mut': 'history', 'wire': ''.join(c.get('wire', '') for c in sub)}


def _packet_name(kind, wire):
    """the components of the Name this packet carries under the harness's own strict reading (an LpPacket: of the
    packet in its Fragment), or None"""
    try:
        if kind == 'name':
            return [bytes(c) for c in S.strict_name(wire, 0, len(wire))]
        K = _kinds_static(kind)
        kd = _keyed(SPEC[kind], S.strict_packet(SPEC[kind], wire, K['outer'], K['ic'], K['need_name']))
        if kind == 'lp':
            inner = bytes.fromhex(kd['80'][1]) if '80' in kd else b''
            return _packet_name({5: 'interest', 6: 'data'}[inner[0]], inner) if inner[:1] in (b'\x05', b'\x06') else None
        return [bytes.fromhex(c) for c in kd['7'][1]]
    except (S.Reject, KeyError, IndexError):
        return None


def _sub_name(wire, comps):
    """the same Interest / Data / certificate with another Name: every other element byte for byte"""
    import pktcommon as K
    t, vs, ve = S.read_elem(wire, 0, len(wire))
    for kt, off, kvs, kve in _kids_flat(wire, vs, ve):
        if kt == 7:
            body = wire[vs:off] + K.w_name(comps) + wire[kve:ve]
            return T.tl(t) + T.tl(len(body)) + body
    return None


def _related(rng, kind, wire, name):
    """packets sharing bytes with an earlier one: the very same wire; the same packet under another Name; the same Name
    in a Data, an Interest, alone (Name.from_bytes), as a KeyLocator / ForwardingHint name of other packets, in a
    certificate's KeyLocator; the packet inside an LpPacket. Only those the strict reading accepts are returned."""
    import pktcommon as K
    out = [(kind, wire, 'same')]
    if name is None:
        return out
    plain = [c for c in name if c[:1] != b'\x02']
    other = [c for c in _rand_name(rng) if c[:1] != b'\x02'] + [K.gen_comp(b'other')]
    sig = {'type': 4, 'key_name': name, 'key': b'key12345'}
    cand = [('name', K.w_name(name), 'name-alone')]
    d_same = K.build_data(name, rng.choice([None, {'freshness_period': 1000}, {'content_type': 0, 'final_block_id': K.gen_comp(b'9', 50)}]),
                          rng.choice([None, b'abc']), rng.choice([None, {'type': 0}]))
    cand.append(('data', d_same, 'data-same-name'))
    cand.append(('interest', K.build_interest(plain, can_be_prefix=rng.random() < 0.5, nonce=rng.getrandbits(32),
                                              app=rng.choice([None, None, b'p'])), 'interest-same-name'))
    cand.append(('data', K.build_data(other, {'content_type': 0}, b'x', sig), 'data-keylocator'))
    cand.append(('interest', K.build_interest(other, forwarding_hint=[name, other], app=b'',
                                              sig=dict(sig, nonce=rng.getrandbits(32), time=1700000000000)), 'interest-hint-keylocator'))
    validity = K.w_tlv(0xfd, K.w_tlv(0xfe, b'20200101T000000') + K.w_tlv(0xff, b'20400101T000000'))
    cname = other + [K.gen_comp(b'KEY'), K.gen_comp(b'\x01'), K.gen_comp(b'self'), K.gen_comp(bytes(8), 54)]
    cand.append(('cert', K.build_data(cname, {'content_type': 2, 'freshness_period': 3600000}, b'pub', sig, validity), 'cert-keylocator'))
    inner = wire if kind in ('interest', 'data') else d_same
    cand.append(('lp', K.w_tlv(0x64, K.w_tlv(0x62, b'\x01\x02') + K.w_tlv(0x50, inner)), 'lp-wrapped'))
    if kind in ('interest', 'data', 'cert'):
        w2 = _sub_name(wire, other + [c for c in name if c[:1] == b'\x02'])
        if w2 is not None:
            cand.append((kind, w2, 'renamed'))
    for k, w, tag in cand:
        try:
            if k == 'name':
                S.strict_name(w, 0, len(w))
            else:
                Ks = _kinds_static(k)
                S.strict_packet(SPEC[k], w, Ks['outer'], Ks['ic'], Ks['need_name'])
            out.append((k, w, tag))
        except S.Reject:
            pass
    return out


def _carry_steps(rng, sub):
    """STATE CARRIED BETWEEN DECODES. The statement judges every accepted packet by its own bytes, so nothing a caller does
    with the values an earlier decode returned - and nothing the library does with them when they are passed back in -
    may change what a later decode extracts. Rounds of: pick an earlier decode; the caller edits everything it returned
    in place (and may reuse the buffer it had passed) and / or hands the decoded name (or the same Name in wire form) and
    the decoded parameters to make_interest / make_data / Name.normalize and edits what comes back; then the same wire
    and packets related to it (_related) are decoded from fresh buffers of every BinaryStr form; now and then a result
    no caller has touched is read again."""
    import pktcommon as K
    known = [(c['id'], c['kind'], bytes.fromhex(c['wire'])) for c in sub]
    known = [(i, k, w, _packet_name(k, w)) for i, k, w in known]
    nxt, touched, steps = len(sub), set(), []
    for _ in range(rng.choice([3, 4, 5])):
        # mostly a decode that carried a Name; from the second round on, half the time one of the later decodes (the
        # ones that were given writable buffers)
        late = [k for k in known if k[0] >= len(sub)]
        named = [k for k in known if k[3] is not None]
        sid, kind, wire, name = rng.choice(late if late and rng.random() < 0.5 else
                                           named if named and rng.random() < 0.85 else known)
        act = rng.choice(['edit', 'edit', 'make', 'make', 'both'])
        if act in ('edit', 'both') or name is None:
            steps.append({'kind': 'edit', 'of': sid, 'seed': rng.getrandbits(30), 'scribble': rng.random() < 0.5})
            touched.add(sid)
        if act in ('make', 'both') and name is not None:
            call = rng.choice(['interest', 'interest', 'data', 'normalize'])
            src = rng.choice(['slot', 'wire', 'wire', 'wire-ba', 'comps'])
            own = rng.random() < 0.4
            steps.append({'kind': 'make', 'call': call, 'src': src, 'of': sid, 'name': K.w_name(name).hex(),
                          'app': rng.choice(['', '73696e63653d30', '73696e63653d30', None]), 'sign': rng.random() < 0.3,
                          'own_param': own, 'then_edit': rng.choice([None, rng.getrandbits(30)])})
            if src == 'slot' or own:
                touched.add(sid)
        rel = _related(rng, kind, wire, name)
        picks = ([rel[0]] if rng.random() < 0.75 or len(rel) == 1 else []) + \
            rng.sample(rel[1:], min(len(rel) - 1, rng.choice([1, 2, 3])))
        rng.shuffle(picks)
        for k, w, tag in picks:
            steps.append({'kind': k, 'wire': w.hex(), 'mut': 'carry:' + tag, 'id': nxt,
                          'buf': rng.choice(['bytes', 'bytes', 'bytearray', 'memoryview'])})
            known.append((nxt, k, w, _packet_name(k, w)))
            nxt += 1
        fresh = [i for i, _, _, _ in known if i not in touched]
        if fresh and rng.random() < 0.6:
            steps.append({'kind': 'recheck', 'of': rng.choice(fresh)})
    return steps


def shrink(case):
    if case['kind'] == 'hist':
        for i in range(len(case['seq'])):
            if len(case['seq']) > 1:
                sq = case['seq'][:i] + case['seq'][i + 1:]
                yield dict(case, seq=sq, wire=''.join(c.get('wire', '') for c in sq))
        return
    w = bytes.fromhex(case['wire'])
    # only truncation-from-the-end style shrinking keeps TLV structure poorly; try removing trailing bytes of the
    # innermost content by re-mutating is not possible deterministically -> try a few generic candidates
    for k in (1, 2, 4, 8, 16):
        if len(w) > k + 2:
            yield dict(case, wire=w[:-k].hex())


# -------------------------------------------------------------------------- implementation
_HIST_CHILD = '''
import sys, json
sys.path.insert(0, %r)
import lib
lib.setup_repo_path()
from props import c07
seq = json.load(sys.stdin)
print('HISTORY-RESULT ' + json.dumps(c07._run_steps(seq)))
'''

STEP_KINDS = ('edit', 'make', 'recheck')


def _run_steps(seq):
    """one process: the steps of a history in order. A decode step is an ordinary case (judged on its own bytes); what it
    returned stays alive under its id. 'edit' = the CALLER changes in place everything a decode handed out (lists,
    writable buffers, attributes of the returned objects) and may reuse the buffer it had passed in; 'make' = the caller
    passes a decoded name / the same Name in wire form / decoded parameters to make_interest, make_data or
    Name.normalize, which may legitimately edit what they were given, and may then edit what came back; 'recheck' =
    what an earlier decode handed out, untouched since by the caller, is read again."""
    slots, touched, out = {}, set(), []
    for i, c in enumerate(seq):
        try:
            if c['kind'] == 'edit':
                out.append(_step_edit(c, slots, touched))
            elif c['kind'] == 'make':
                out.append(_step_make(c, slots, touched))
            elif c['kind'] == 'recheck':
                keep = slots.get(c['of'])
                if keep is None or c['of'] in touched:
                    out.append({'skip': True})
                else:
                    out.append({'recheck': c['of'], 'same': _reobserve(keep) == keep['obs']})
            else:
                keep = {'kind': c['kind']}
                r = run_impl(c, keep)
                keep['obs'] = _reobserve(keep)
                slots[c.get('id', i)] = keep
                out.append(r)
        except BaseException as e:      # noqa - the parent reports it as this step's observation
            out.append({'crash': type(e).__name__ + ': ' + str(e)[:200]})
    return out


def _reobserve(keep):
    """everything the decode of this slot handed to the caller, as text (compared only with itself, earlier)"""
    import json
    try:
        res, kind = keep.get('res'), keep['kind']
        if res is None:
            return 'nothing'
        if kind == 'name':
            return T.value_text(('n', [bytes(c) for c in res]))
        o = [T.values_text(T.from_instance(keep['fs'], keep['inst']))]
        if kind in ('interest', 'data'):
            o.append(json.dumps(_api_keyed(kind, res), sort_keys=True))
            sp = res[3]
            for part in (sp.signature_covered_part, sp.digest_covered_part, [sp.digest_value_buf]):
                o.append([None if x is None else bytes(x).hex() for x in (part or [])])
        return json.dumps(o)
    except Exception as e:      # noqa
        return 'unreadable: ' + type(e).__name__


def _other(v, rnd, field=None):
    """a value of the same family as v that differs from it"""
    from ndn.encoding import TlvModel
    if v is None:
        cls = type(field).__name__
        return {'UintField': 7, 'BoolField': True, 'BytesField': b'\xde\xad', 'NameField': [b'\x08\x03new']}.get(cls)
    if isinstance(v, bool):
        return not v
    if isinstance(v, int):
        return int(v) + 1
    if isinstance(v, str):
        return v + 'x'
    if isinstance(v, (bytes, bytearray, memoryview)):
        return b'\xde\xad\xbe\xef'
    if isinstance(v, (list, TlvModel)) and rnd.random() < 0.3:
        return None
    return v


def _scramble(x, rnd, seen=None, depth=0):
    """the caller edits IN PLACE everything reachable from a value a decoder handed out; returns the number of edits"""
    import dataclasses as dc
    from ndn.encoding import TlvModel
    seen = {} if seen is None else seen
    if x is None or depth > 8 or id(x) in seen or isinstance(x, (bytes, str, int, float)):
        return 0
    seen[id(x)] = x
    if isinstance(x, (bytearray, memoryview)):
        if isinstance(x, memoryview) and (x.readonly or x.ndim != 1):
            return 0
        for i in range(len(x)):
            x[i] ^= 0xFF
        return 1 if len(x) else 0
    if isinstance(x, tuple):
        return sum(_scramble(y, rnd, seen, depth + 1) for y in x)
    if isinstance(x, dict):
        return sum(_scramble(y, rnd, seen, depth + 1) for y in list(x.values()))
    if isinstance(x, list):
        n = sum(_scramble(y, rnd, seen, depth + 1) for y in list(x))
        before = list(x)
        extra = [b'\x08\x03xyz'] if x and isinstance(x[0], list) else b'\x08\x05extra'
        op = rnd.choice(['append', 'append', 'pop', 'insert', 'replace', 'clear', 'extend', 'reverse', 'del-first'])
        if op == 'pop' and x:
            x.pop()
        elif op == 'insert':
            x.insert(0, extra)
        elif op == 'replace' and x:
            x[rnd.randrange(len(x))] = extra
        elif op == 'clear':
            x.clear()
        elif op == 'extend':
            x += [extra, extra]
        elif op == 'reverse':
            x.reverse()
        elif op == 'del-first' and x:
            del x[0]
        if op == 'append' or len(x) == len(before) and all(a is b for a, b in zip(x, before)):
            x.append(extra)
        return n + 1
    if isinstance(x, TlvModel):
        fields = [(f.name, f) for f in type(x)._encoded_fields]
        get = lambda k: x.__dict__.get(k)      # noqa
    elif dc.is_dataclass(x) and not isinstance(x, type):
        fields = [(f.name, None) for f in dc.fields(x)]
        get = lambda k: getattr(x, k, None)    # noqa
    else:
        return 0
    n = 0
    for k, f in fields:
        v = get(k)
        n += _scramble(v, rnd, seen, depth + 1)
        try:
            nv = _other(v, rnd, f)
            if nv is not v:
                setattr(x, k, nv)
                n += 1
        except Exception:      # noqa - a field that cannot be assigned
            pass
    return n


def _step_edit(c, slots, touched):
    import random
    keep = slots.get(c['of'])
    if keep is None:
        return {'skip': True}
    rnd = random.Random(c['seed'])
    touched.add(c['of'])
    seen = {}
    n = _scramble(keep.get('res'), rnd, seen) + _scramble(keep.get('inst'), rnd, seen)
    b = keep.get('buf')
    if c.get('scribble') and isinstance(b, (bytearray, memoryview)) and not (isinstance(b, memoryview) and b.readonly):
        # the receive buffer is used again for something else
        b[:] = bytes(rnd.getrandbits(8) for _ in range(len(b)))
        n += 1
    return {'edited': n}


def _slot_name(keep):
    res = keep.get('res')
    if isinstance(res, tuple):
        return res[0] if isinstance(res[0], list) else None
    if isinstance(res, list):
        return res
    n = getattr(res, 'name', None)
    return n if isinstance(n, list) else None


def _step_make(c, slots, touched):
    import random
    from ndn.encoding import Name, InterestParam, MetaInfo, make_interest, make_data
    keep = slots.get(c['of'])
    wire_name = bytes.fromhex(c['name'])
    src, name = c['src'], None
    if src == 'slot' and keep is not None:
        name = _slot_name(keep)
        if name is not None:
            touched.add(c['of'])
    if name is None:
        name = {'wire-ba': bytearray(wire_name), 'comps': [bytes(x) for x in S.strict_name(wire_name, 0, len(wire_name))]
                }.get(src, wire_name)
    own = None
    if c.get('own_param') and keep is not None and isinstance(keep.get('res'), tuple):
        own = keep['res'][1]
        touched.add(c['of'])
    app = None if c.get('app') is None else bytes.fromhex(c['app'])
    signer = None
    if c.get('sign'):
        import pktcommon
        signer = pktcommon.SynthSigner(32, 32, 0)      # a SHA-256 digest "signature", without importing ndn.security
    ret = None
    try:
        if c['call'] == 'interest':
            ip = own if isinstance(own, InterestParam) else InterestParam(nonce=0x01020304)
            _, ret = make_interest(name, ip, app_param=app, signer=signer, need_final_name=True)
        elif c['call'] == 'data':
            make_data(name, own if isinstance(own, MetaInfo) else MetaInfo(freshness_period=1000), app, signer)
        else:
            ret = Name.normalize(name)
        made = 'ok'
    except Exception as e:      # noqa - what an encoder does with what it is given is not this property's subject
        made = _exc(e)
    if c.get('then_edit') is not None and ret is not None:
        _scramble(ret, random.Random(c['then_edit']))
    return {'made': made}


def _run_history(case):
    import subprocess, sys, os, json
    here = os.path.dirname(os.path.dirname(os.path.abspath(__file__)))
    p = subprocess.run([sys.executable, '-c', _HIST_CHILD % here], input=json.dumps(case['seq']), capture_output=True,
                       text=True, timeout=300)
    for line in p.stdout.splitlines():
        if line.startswith('HISTORY-RESULT '):
            return {'seq': json.loads(line[len('HISTORY-RESULT '):])}
    raise RuntimeError('history child gave no result: ' + (p.stderr or p.stdout)[-400:])


def _in_form(wire, form):
    """the caller's buffer handed to a decoder: BinaryStr = bytes | bytearray | memoryview (a writable one)"""
    if form == 'bytearray':
        return bytearray(wire)
    if form == 'memoryview':
        return memoryview(bytearray(wire))
    return wire


def run_impl(case, keep=None):
    """`keep` (a dict, history steps only) receives what the decoders returned and the buffer they were given, so that
    later steps of the same process can edit them in place; the strict readings always read the case's own bytes"""
    if case['kind'] == 'hist':
        return _run_history(case)
    wire = bytes.fromhex(case['wire'])
    buf = _in_form(wire, case.get('buf'))
    if keep is not None:
        keep['buf'] = buf
    out = {}
    if case['kind'] == 'name':
        from ndn.encoding import Name
        try:
            n = Name.from_bytes(buf)
            if keep is not None:
                keep['res'] = n
            out['dec'] = ['ok', T.value_text(('n', [bytes(c) for c in n]))]
        except Exception as e:   # noqa
            out['dec'] = ['err', _exc(e)]
        try:
            out['strict'] = ['ok', T.value_text(('n', S.strict_name(wire, 0, len(wire))))]
            t, vs, ve = S.read_elem(wire, 0, len(wire))
        except S.Reject as r:
            out['strict'] = ['rej', str(r)]
        return out
    K = _kinds()[case['kind']]
    fs = T.class_schema(K['cls'])
    out['schema_text'] = T.schemas_text(fs)
    try:
        res = K['api'](buf)
        from ndn.encoding.tlv_var import parse_and_check_tl
        inst = res if case['kind'] in ('lp', 'cert') else K['cls'].parse(parse_and_check_tl(buf, K['outer']))
        if keep is not None:
            keep.update(res=res, inst=inst, fs=fs)
        vals = T.from_instance(fs, inst)
        out['dec'] = ['ok', T.values_text(vals)]
        dec_k = _keyed(fs, vals)
        api_k = None
        if case['kind'] in ('interest', 'data'):
            from ndn.encoding import Name
            api_name = res[0]
            out['api_name'] = T.value_text(('n', [bytes(c) for c in Name.normalize(api_name)])) \
                if not isinstance(api_name, str) else 'STR:' + api_name
            api_k = _api_keyed(case['kind'], res)
    except Exception as e:   # noqa
        out['dec'] = ['err', _exc(e)]
    try:
        # the strict reading takes WHICH sub-models may ignore unrecognised critical elements from the packet
        # specification, not from the source (only a Data's / certificate's SignatureInfo, for extensions)
        fs_spec = SPEC_LP if case['kind'] == 'lp' else _spec_flags(case['kind'], fs)
        vals = S.strict_packet(fs_spec, wire, K['outer'], K['ic'], K['need_name'])
        for s, v in zip(fs_spec, vals):
            if s[0] != 'K' and _typ(s) in K['forbid'] and v is not None:
                raise S.Reject('fragmented envelope')
        out['strict'] = ['ok', T.values_text(vals)]
    except S.Reject as r:
        out['strict'] = ['rej', str(r)]
    # THE reading the oracle judges by: the field tables written from the format documents (SPEC), whatever order, Type
    # numbers or flags the source declares ('strict' above follows the source's table and is what the Lean strict decoder
    # is compared with)
    spec_fs = SPEC[case['kind']]
    try:
        vals = S.strict_packet(spec_fs, wire, K['outer'], K['ic'], K['need_name'])
        for s, v in zip(spec_fs, vals):
            if _typ(s) in K['forbid'] and v is not None:
                raise S.Reject('fragmented envelope')
        ref = _keyed(spec_fs, vals)
        out['spec'] = ['ok', T.values_text(vals)]
    except S.Reject as r:
        ref = None
        out['spec'] = ['rej', str(r)]
    if out['dec'][0] == 'ok':
        if ref is not None:
            out['diff'] = _diff(spec_fs, ref, dec_k)
            if api_k is not None:
                out['api_diff'] = _diff(spec_fs, *_api_reference(case['kind'], ref, api_k))
        if case.get('expect'):
            import json
            out['expect_diff'] = _diff(spec_fs, json.loads(case['expect']), dec_k)
    return out


def _typ(s):
    return s[1][1] if s[0] in ('R', 'P') else (None if s[0] == 'K' else s[1])


SPEC_IGNORE_CRITICAL = {('data', 22), ('cert', 22)}


def _spec_flags(kind, fs, top=True):
    out = []
    for s in fs:
        if s[0] == 'M':
            ic = top and (kind, s[1]) in SPEC_IGNORE_CRITICAL
            out.append(('M', s[1], ic, _spec_flags(kind, s[3], False), s[4]))
        elif s[0] == 'R':
            out.append(('R', _spec_flags(kind, [s[1]], False)[0]))
        else:
            out.append(s)
    return out


# ------------------------------------------------------------------------------------- model
def model_line(case, impl):
    if case['kind'] == 'hist':
        return None       # every packet of the sequence is an ordinary case of the other streams; here: oracle only
    w = T.hx(bytes.fromhex(case['wire']))
    if case['kind'] == 'name':
        return f'C07 name {w}'
    K = _kinds()[case['kind']]
    fb = ','.join(str(x) for x in K['forbid']) or '.'
    # `both` = the decoder model's answer followed by the Lean strict decoder's answer
    return f"C07 both {impl['schema_text']} {K['outer']} {1 if K['ic'] else 0} {1 if K['need_name'] else 0} {fb} {w}"


def _strict_canon(tag, detail):
    """accept / reject, fields, and the kind of an overrun - not the wording of other rejections"""
    import re
    if tag == 'ok':
        return ['ok', detail]
    m = re.match(r'(?:overrun-)?([a-z-]+)(?: element overruns its parent)?$', detail)
    if m and (detail.startswith('overrun-') or detail.endswith(' element overruns its parent')):
        return ['rej', 'overrun-' + m.group(1)]
    return ['rej', '*']


def model_obs(answer, case, impl):
    a = answer.split()
    if case['kind'] == 'name':
        return [a[0], a[1]]
    # decoder model vs the code, and Lean strict decoder vs the Python strict reader
    return [a[0], a[1]] + _strict_canon(a[2], a[3])


def impl_obs(impl):
    if 'schema_text' not in impl:
        return impl['dec']
    return impl['dec'] + _strict_canon(impl['strict'][0], impl['strict'][1])


# ------------------------------------------------------------------------------------- oracle
def oracle(case, impl):
    if case['kind'] == 'hist':
        for i, (c, r) in enumerate(zip(case['seq'], impl['seq'])):
            if c['kind'] in ('edit', 'make') or r.get('skip'):
                continue      # what the caller does, and what the encoders do with what they are given: not judged here
            before = ', '.join(x['kind'] for x in case['seq'][:i]) or 'nothing'
            if 'crash' in r:
                return f"packet {i} ({c['kind']}) of a sequence decoded in one fresh process: the decoder run crashed: {r['crash']}"
            if c['kind'] == 'recheck':
                if not r['same']:
                    return (f"step {i}: the fields handed out for the packet decoded as step id {c['of']} (not touched by the "
                            f"caller since) no longer read the same after {before} in a fresh process")
                continue
            why = oracle(c, r)
            if why:
                return f"packet {i} ({c['kind']}), decoded after {before} in a fresh process: {why}"
        return None
    d, s = impl['dec'], impl.get('spec', impl['strict'])
    if d[0] == 'err':
        if d[1] not in DOCUMENTED:
            return f'rejected with an undocumented error class {d[1]}'
        return None
    if s[0] == 'rej':
        return _tie_on_flagged(case, impl) or f'accepted a packet the strict reading rejects: {s[1]}'
    if 'spec' not in impl:
        if d[1] != s[1]:
            return 'accepted, but an extracted field differs from the strict reading'
    elif impl.get('diff'):
        return f"accepted, but an extracted field differs from the strict reading: {impl['diff']}"
    if impl.get('expect_diff'):
        return f"accepted a hand-built packet, but an extracted field differs from what was written into it: {impl['expect_diff']}"
    if impl.get('api_diff'):
        return f"accepted, but a field handed out by parse_{case['kind']} differs from the strict reading: {impl['api_diff']}"
    if 'api_name' in impl and impl['api_name'].startswith('STR:'):
        return 'accepted a packet without Name (a str default was returned as name)'
    return None


def _tie_on_flagged(case, impl):
    """lib.py does not put a case the oracle flags through the model comparison, and the flagged wires are exactly
    the ones on which the decoder and the strict reading differ. So the two ties (decoder model - code, Lean strict
    decoder - Python strict reader) are checked here for them; a disagreement is reported under its own key."""
    if case['kind'] == 'name':
        return None
    try:
        import lib
        d = lib.Driver(PROP)
        if not d.ok:
            return None
        mo = model_obs(d.ask([model_line(case, impl)])[0], case, impl)
    except Exception as e:   # noqa
        return f'model tie on an overrun wire could not be evaluated: {type(e).__name__}'
    io = impl_obs(impl)
    if mo != io:
        return f'model tie broken on an overrun wire: model {mo} != impl {io}'
    return None


def nontrivial(case, impl):
    if case['kind'] == 'hist':
        return True
    return impl['dec'][0] == 'ok' or impl['strict'][0] == 'ok' or case['mut'] not in ('random',)


def tags(case, impl):
    if case['kind'] == 'hist':
        pre = [c for c in case['seq'] if c['kind'] not in STEP_KINDS and not c.get('mut', '').startswith('carry:')]
        t = ['kind:hist', 'history:' + '>'.join(c['kind'] for c in pre)]
        for c, r in zip(case['seq'], impl['seq']):
            if c['kind'] == 'edit':
                t.append('history-step:caller-edit' + (':edits-made' if r.get('edited') else ''))
            elif c['kind'] == 'make':
                t.append('history-step:make-%s:%s:%s' % (c['call'], c['src'], 'ok' if r.get('made') == 'ok' else 'raised'))
            elif c['kind'] == 'recheck':
                t.append('history-step:recheck')
            elif c.get('mut', '').startswith('carry:'):
                t.append('history-step:decode-%s:%s:%s' % (c['mut'][6:], c.get('buf'), r.get('dec', ['?'])[0]))
        return t
    d, s = impl['dec'], impl['strict']
    t = ['kind:' + case['kind'], 'mut:' + case['mut'].split('+')[0], 'dec:' + (d[0] if d[0] == 'ok' else d[1]),
         'strict:' + (s[0] if s[0] == 'ok' else s[1][:30]), 'len:%d' % (len(case['wire']) // 200 * 100)]
    if case['mut'] == 'spec':
        t.append('hand-built:%s:%s' % (case['kind'], 'accepted' if d[0] == 'ok' else d[1]))
        if d[0] == 'ok':
            import json
            for k in json.loads(case['expect']).get({'interest': '44', 'lp': '-'}.get(case['kind'], '22'), [0, {}])[1]:
                t.append('hand-built:%s:signature-info-element:%#x:extracted' % (case['kind'], int(k)))
    return t


def finding_key(case, impl, why):
    import re
    m = re.search(r'rejects: ([a-z-]+) element overruns its parent', why)
    if m:
        # the silent truncation in TlvModel.parse: one key per kind of element that overruns
        return 'overrun-' + m.group(1)
    w = re.sub(r'[^a-zA-Z]+', '-', why).strip('-').lower()
    return (case['kind'] + ':' + w)[:90]


# ------------------------------------------------------------------ generated table (lean/NdnGen/C07.lean)
def extract(repo):
    from props.c08 import _lean_schema
    import py2lean
    py2lean.write_generated(repo)      # lean/NdnGen/TlvVar.lean: tlv_var.py translated from the tree under test
    out = ['import NdnModel.CodecWF', 'import NdnModel.PacketEnc', 'import NdnModel.Cert',
           '/- GENERATED on every run by harness/props/c07.py from the live `_encoded_fields` of the four packet',
           '   classes.  Do not edit. -/',
           'namespace Ndn.Gen.C07', 'open Ndn.Codec', '']
    for k, K in _kinds().items():
        fs = T.class_schema(K['cls'])
        out.append(f"def {k} : List Schema := [{', '.join(_lean_schema(s) for s in fs)}]")
    out.append('')
    out.append('/-- the four packet schemas are in the fragment the decoder theorems quantify over -/')
    out.append('theorem packet_schemas_ok : [interest, data, lp, cert].all pFs = true := by decide')
    out.append('')
    out.append('/-- field order, Type numbers, fixed lengths, marker positions and ignore_critical flags of the three')
    out.append('    network-packet classes are the ones the packet models (and the packet specification) fix -/')
    out.append('theorem schemas_pinned : interest = Ndn.Packet.interestFs ∧ data = Ndn.Packet.dataFs ∧')
    out.append('    cert = Ndn.Cert.certFs := ⟨rfl, rfl, rfl⟩')
    out.append('')
    out.append('end Ndn.Gen.C07')
    return '\n'.join(out) + '\n'
