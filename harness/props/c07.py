"""C07 — packet decoders accept exactly the well-formed packets."""
import struct
import tlvschema as T
import strict_tlv as S

PROP = 'C07'
TITLE = 'Packet decoders accept exactly the well-formed packets'
LEAN_TARGETS = ['NdnProofs.Props.C07', 'NdnGen.C07']
THEOREMS = [
    'Ndn.C07.parse_total', 'Ndn.C07.decodePacket_error_classes', 'Ndn.C07.shipped_decoders_error_classes',
    'Ndn.C07.decodeName_error_classes',
    'Ndn.C07.accepted_has_name', 'Ndn.C07.accepted_outer_exact', 'Ndn.C07.strict_implies_accept_partial',
    'Ndn.C07.overrun_accepted_counterexample', 'Ndn.Gen.C07.packet_schemas_ok', 'Ndn.Gen.C07.schemas_pinned',
    # the strict decoder (NdnModel/CodecStrict.lean) and the exact size of the known finding
    'Ndn.C07.strict_accepts_well_nested', 'Ndn.C07.strict_agrees', 'Ndn.C07.strict_refines',
    'Ndn.C07.strict_error_agrees', 'Ndn.C07.only_overruns_differ', 'Ndn.C07.accept_iff_strict',
    'Ndn.C07.packet_strict_agrees', 'Ndn.C07.packet_strict_refines', 'Ndn.C07.packet_only_overruns_differ',
    'Ndn.C07.packet_strict_accepts_well_nested', 'Ndn.C07.packet_accept_iff_strict',
    'Ndn.C07.shipped_decoders_strict', 'Ndn.C07.shipped_only_overruns_differ',
]
PARTIAL = {
    'Ndn.C07.strict_implies_accept_partial':
        'only the direction "library-encoded (hence strictly well-formed) packet => accepted with equal fields" is a '
        'theorem (C08 round trip instantiated); the converse "accepted => every nested element inside its parent" is '
        'FALSE of the code (known finding overrun-*: TlvModel.parse truncates silently) and its negation is proved '
        '(overrun_accepted_counterexample). What IS proved about the converse, for every byte string: the decoder and '
        'the bounds-checked (strict) decoder agree result for result and error class for error class unless the strict '
        'reading stops at an overrunning element (strict_agrees); strict-accepted <=> accepted with the same fields and '
        'well nested (accept_iff_strict, shipped_decoders_strict); an accepted packet the strict reading does not '
        'accept contains an overrunning byte-string, sub-model, boolean or unrecognised element - the four known-finding '
        'keys (only_overruns_differ). MapField schemas are outside these theorems (no shipped packet has one)',
}
TRUSTED = [
    'C07: the four packet schemas are regenerated from the live classes on every run; Python slicing / struct semantics are CPython',
    'C07: "time proportional to the input" is shown as: the scan loop of a level never exhausts fuel = len+1 (one unit per element); wall-clock is not measured',
]
RULE = ('valid Interest / Data / LpPacket / certificate wires built by the library (all optional-field combinations, signed '
        'and unsigned, tokens, nacks) and Names; each is decoded as is and after one mutation: byte substitution, truncation, '
        'length-field edit (+-1, +-big), element duplicated / deleted / swapped / unknown critical or non-critical element '
        'inserted at a random depth; plus uniformly random byte strings with a plausible outer header. The same wire goes to '
        'the real decoder, to the Lean decoder model, to an independent strict reader (Python) and to the Lean strict decoder; '
        'decoder model = code and Lean strict decoder = Python strict reader (accept / reject, fields, kind of overrun) are '
        'compared on every wire, including the wires flagged as known finding. non-trivial = the mutated wire is accepted '
        'by the decoder or the strict reader, or is a mutation of a valid packet; distinct = distinct wires')
LEVEL_TEXT = ('Lean 4 theorems about the decoder model (generic scan loop + parse_and_check_tl + Name.decode) for ALL byte '
              'strings: decoding terminates within fuel proportional to the input and can only fail with the documented '
              'error classes; an accepted packet has its Name and an exact outer length; library-encoded packets are '
              'accepted with equal fields. A specification-level strict decoder (the same scan loop plus the bounds check '
              'the code lacks) is related to the decoder model for ALL byte strings: what it accepts is well nested '
              '(inductive predicate WellNested / PacketNested), the decoder accepts it with exactly the same fields, both '
              'fail with the same error class otherwise, and the only byte strings on which they differ contain an '
              'overrunning byte-string / sub-model / boolean / unrecognised element (strict-accepted <=> accepted and '
              'well nested). The decoder model is tied to the code by differential execution on mutated packets; an '
              'independent strict reader written in Python is the oracle for "accepts only well-formed", and the Lean '
              'strict decoder is compared with it on every generated wire (accept / reject, fields, kind of overrun).')
LEVEL_NOTE = ('The converse direction (accepted => strictly well nested) is false of the unchanged code and recorded as a known '
              'finding keyed by the kind of element that overruns; the theorems show these four kinds are the whole gap. '
              'The proofs cover the models, the ties (decoder model - code, strict model - Python strict reader) are sampled.')
TECHNIQUE = 'Lean 4 proof (strong induction on fuel over all byte strings) + differential check against the code and a strict reader'
DESIGN_REF = 'DESIGN.md section 7, C07'

DOCUMENTED = {'DecodeError', 'IndexError', 'ValueError', 'struct.error', 'TypeError'}


def _exc(e):
    from ndn.encoding import DecodeError
    if isinstance(e, DecodeError):
        return 'DecodeError'
    if isinstance(e, struct.error):
        return 'struct.error'
    for c in (IndexError, KeyError, ValueError, TypeError, AttributeError, OverflowError):
        if isinstance(e, c):
            return c.__name__
    return type(e).__name__


def _kinds():
    from ndn.encoding import ndn_format_0_3 as f
    from ndn.encoding import ndnlp_v2 as lp
    from ndn.app_support import security_v2 as sv
    return {
        'interest': dict(cls=f.InterestPacketValue, outer=5, ic=False, need_name=True, forbid=[],
                         api=lambda w: f.parse_interest(w)),
        'data': dict(cls=f.DataPacketValue, outer=6, ic=False, need_name=True, forbid=[],
                     api=lambda w: f.parse_data(w)),
        'lp': dict(cls=lp.LpPacketValue, outer=100, ic=True, need_name=False, forbid=[82, 83],
                   api=lambda w: lp.parse_lp_packet_v2(w)),
        'cert': dict(cls=sv.CertificateV2Value, outer=6, ic=False, need_name=True, forbid=[],
                     api=lambda w: sv.parse_certificate(w)),
    }


# ------------------------------------------------------------------------------------- cases
def _rand_name(rng):
    return [T.random_comp(rng) for _ in range(rng.choice([0, 1, 2, 3, 5]))]


def _valid_wire(rng, kind):
    from ndn import encoding as enc
    from ndn.encoding import ndnlp_v2 as lp
    from ndn.security import DigestSha256Signer, HmacSha256Signer
    from ndn.app_support import security_v2 as sv
    signer = rng.choice([None, None, DigestSha256Signer(), HmacSha256Signer('k', b'key12345')])
    name = _rand_name(rng)
    if kind == 'interest':
        ip = enc.InterestParam(can_be_prefix=rng.random() < 0.5, must_be_fresh=rng.random() < 0.5,
                               nonce=rng.choice([None, rng.getrandbits(32)]),
                               lifetime=rng.choice([None, 0, 4000, 70000, 2 ** 33]),
                               hop_limit=rng.choice([None, 0, 255]),
                               forwarding_hint=[_rand_name(rng) for _ in range(rng.choice([0, 0, 1, 2]))])
        ap = rng.choice([None, None, b'', T.random_bytes(rng)])
        if signer is not None and isinstance(signer, DigestSha256Signer):
            signer = DigestSha256Signer(for_interest=True)
        return bytes(enc.make_interest(name, ip, ap, signer=signer))
    if kind == 'data':
        mi = enc.MetaInfo(content_type=rng.choice([None, 0, 2, 300]), freshness_period=rng.choice([None, 0, 1000, 2 ** 40]),
                          final_block_id=rng.choice([None, T.random_comp(rng)]))
        return bytes(enc.make_data(name, mi, rng.choice([None, b'', T.random_bytes(rng)]), signer=signer))
    if kind == 'lp':
        inner = _valid_wire(rng, rng.choice(['interest', 'data']))
        pkt = lp.LpPacket()
        pkt.lp_packet = lp.LpPacketValue()
        v = pkt.lp_packet
        if rng.random() < 0.4:
            v.pit_token = bytes(rng.getrandbits(8) for _ in range(rng.choice([0, 4, 8, 32])))
        if rng.random() < 0.4:
            v.nack = lp.NetworkNack()
            v.nack.nack_reason = rng.choice([None, 0, 50, 150, 2 ** 40])
        if rng.random() < 0.2:
            v.congestion_mark = rng.choice([0, 1, 2 ** 20])
        if rng.random() < 0.1:
            v.frag_index = 0
        if rng.random() < 0.1:
            v.frag_count = 1
        if rng.random() < 0.2:
            v.non_discovery = True
        if rng.random() < 0.85:
            v.fragment = inner
        return bytes(pkt.encode())
    if kind == 'cert':
        from datetime import datetime, timedelta
        s2 = signer or DigestSha256Signer()
        start = datetime(2000 + rng.randint(0, 60), rng.randint(1, 12), rng.randint(1, 28), rng.randint(0, 23), 0, 0)
        _, w = sv.new_cert(name + [sv.KEY_COMPONENT, T.random_comp(rng)], sv.SELF_COMPONENT,
                           T.random_bytes(rng), s2, start, start + timedelta(days=rng.randint(1, 4000)))
        return bytes(w)
    raise ValueError(kind)


def _tree(buf, start, end, depth=0):
    """generic TLV tree (list of [off, vs, ve, children|None]) if [start,end) splits exactly into elements"""
    out, off = [], start
    try:
        while off < end:
            t, vs, ve = S.read_elem(buf, off, end)
            kids = _tree(buf, vs, ve, depth + 1) if depth < 4 and ve > vs else None
            out.append([off, vs, ve, kids])
            off = ve
    except S.Reject:
        return None
    return out


def _nodes(tree, acc, parent=None):
    for i, n in enumerate(tree or []):
        acc.append((n, tree, i))
        _nodes(n[3], acc, n)
    return acc


def _mutate(rng, wire):
    kind = rng.choice(['none', 'subst', 'trunc', 'len', 'dup', 'del', 'swap', 'ins_crit', 'ins_noncrit', 'lenbig',
                       'width', 'width'])
    if kind == 'none' or not wire:
        return wire, 'none'
    if kind == 'subst':
        i = rng.randrange(len(wire))
        return wire[:i] + bytes([rng.getrandbits(8)]) + wire[i + 1:], kind
    if kind == 'trunc':
        return wire[:rng.randrange(len(wire))], kind
    nodes = _nodes(_tree(wire, 0, len(wire)), [])
    if not nodes:
        return wire, 'none'
    n, sibs, i = rng.choice(nodes)
    off, vs, ve = n[0], n[1], n[2]
    if kind in ('len', 'lenbig'):
        # edit the (last byte of the) length field of this element; parents keep their lengths
        p = vs - 1
        d = rng.choice([1, -1, 2, -2]) if kind == 'len' else rng.choice([40, 127, 200])
        return wire[:p] + bytes([(wire[p] + d) % 256]) + wire[p + 1:], kind
    # structural edits keep every enclosing length consistent by rebuilding from the root
    def rebuild(edit_at, new_bytes):
        return _rebuild(wire, _tree(wire, 0, len(wire)), edit_at, new_bytes)
    el = wire[off:ve]
    if kind == 'width':
        leaves = [m for m, _, _ in nodes if m[2] - m[1] in (1, 2, 4, 8)]
        if not leaves:
            return wire, 'none'
        m = rng.choice(leaves)
        t, _ = S.read_num(wire, m[0], m[2])
        w = rng.choice([0, 3, 3, 5, 6, 7, 9, 16])
        body = bytes(rng.getrandbits(8) for _ in range(w))
        return _rebuild(wire, _tree(wire, 0, len(wire)), (m[0], m[2]), T.tl(t) + T.tl(w) + body), kind
    if kind == 'dup':
        return rebuild((off, ve), el + el), kind
    if kind == 'del':
        return rebuild((off, ve), b''), kind
    if kind == 'swap' and i + 1 < len(sibs):
        nx = sibs[i + 1]
        return rebuild((off, nx[2]), wire[nx[0]:nx[2]] + el), kind
    if kind in ('ins_crit', 'ins_noncrit'):
        t = rng.choice([3, 9, 0x1f, 0xff, 0x301]) if kind == 'ins_crit' else rng.choice([0xf0, 0xfe, 0x300, 0x3e8])
        pl = bytes(rng.getrandbits(8) for _ in range(rng.choice([0, 1, 4])))
        return rebuild((off, ve), T.tl(t) + T.tl(len(pl)) + pl + el), kind
    return wire, 'none'


def _rebuild(wire, tree, edit, new):
    """re-encode the tree with [edit[0], edit[1]) replaced by `new`, fixing all ancestor lengths"""
    def enc_level(nodes, start, end):
        out, pos = b'', start
        for off, vs, ve, kids in nodes:
            if (off, ve) == edit:
                out += new
            elif off <= edit[0] and edit[1] <= ve and kids is not None:
                body = enc_level(kids, vs, ve)
                t, _ = S.read_num(wire, off, ve)
                out += T.tl(t) + T.tl(len(body)) + body
            elif off <= edit[0] < ve and edit[1] > ve:
                out += wire[off:ve]          # edit spans siblings: handled by the sibling range below
            else:
                out += wire[off:ve]
            pos = ve
        return out
    # edits spanning two siblings (swap): treat at the level where both live
    def find_level(nodes):
        for k, (off, vs, ve, kids) in enumerate(nodes):
            if off == edit[0]:
                return nodes, k
            if off < edit[0] < ve and kids is not None:
                r = find_level(kids)
                if r:
                    return r
        return None
    lvl = find_level(tree)
    if lvl is not None:
        nodes, k = lvl
        j = k
        while j < len(nodes) and nodes[j][2] < edit[1]:
            j += 1
        if j > k and j < len(nodes) and nodes[j][2] == edit[1]:
            # merge the sibling range into one pseudo node
            merged = [nodes[k][0], nodes[k][1], nodes[j][2], None]
            nodes[k:j + 1] = [merged]
    return enc_level(tree, 0, len(wire))


def cases(rng, tier):
    n = 500 if tier == 'quick' else 15000
    for _ in range(n):
        r = rng.random()
        if r < 0.9:
            kind = rng.choice(['interest', 'interest', 'data', 'data', 'lp', 'lp', 'cert'])
            try:
                wire = _valid_wire(rng, kind)
            except Exception:     # noqa - generator hit an encoder limitation; skip
                continue
            try:
                wire, mut = _mutate(rng, wire)
            except Exception:     # noqa
                mut = 'none'
            yield {'kind': kind, 'wire': wire.hex(), 'mut': mut}
        elif r < 0.95:
            kind = rng.choice(['interest', 'data', 'lp', 'cert'])
            body = bytes(rng.getrandbits(8) for _ in range(rng.randint(0, 40)))
            outer = {'interest': 5, 'data': 6, 'lp': 100, 'cert': 6}[kind]
            yield {'kind': kind, 'wire': (T.tl(outer) + T.tl(len(body)) + body).hex(), 'mut': 'random'}
        else:
            from ndn.encoding import Name
            w = bytes(Name.to_bytes(_rand_name(rng)))
            w, mut = _mutate(rng, w)
            yield {'kind': 'name', 'wire': w.hex(), 'mut': mut}


def shrink(case):
    w = bytes.fromhex(case['wire'])
    # only truncation-from-the-end style shrinking keeps TLV structure poorly; try removing trailing bytes of the
    # innermost content by re-mutating is not possible deterministically -> try a few generic candidates
    for k in (1, 2, 4, 8, 16):
        if len(w) > k + 2:
            yield dict(case, wire=w[:-k].hex())


# -------------------------------------------------------------------------- implementation
def run_impl(case):
    wire = bytes.fromhex(case['wire'])
    out = {}
    if case['kind'] == 'name':
        from ndn.encoding import Name
        try:
            n = Name.from_bytes(wire)
            out['dec'] = ['ok', T.value_text(('n', [bytes(c) for c in n]))]
        except Exception as e:   # noqa
            out['dec'] = ['err', _exc(e)]
        try:
            out['strict'] = ['ok', T.value_text(('n', S.strict_name(wire, 0, len(wire))))]
            t, vs, ve = S.read_elem(wire, 0, len(wire))
        except S.Reject as r:
            out['strict'] = ['rej', str(r)]
        return out
    K = _kinds()[case['kind']]
    fs = T.class_schema(K['cls'])
    out['schema_text'] = T.schemas_text(fs)
    try:
        res = K['api'](wire)
        from ndn.encoding.tlv_var import parse_and_check_tl
        inst = res if case['kind'] in ('lp', 'cert') else K['cls'].parse(parse_and_check_tl(wire, K['outer']))
        out['dec'] = ['ok', T.values_text(T.from_instance(fs, inst))]
        if case['kind'] in ('interest', 'data'):
            from ndn.encoding import Name
            api_name = res[0]
            out['api_name'] = T.value_text(('n', [bytes(c) for c in Name.normalize(api_name)])) \
                if not isinstance(api_name, str) else 'STR:' + api_name
    except Exception as e:   # noqa
        out['dec'] = ['err', _exc(e)]
    try:
        # the strict reading takes WHICH sub-models may ignore unrecognised critical elements from the packet
        # specification, not from the source (only a Data's / certificate's SignatureInfo, for extensions)
        fs_spec = _spec_flags(case['kind'], fs)
        vals = S.strict_packet(fs_spec, wire, K['outer'], K['ic'], K['need_name'])
        for s, v in zip(fs, vals):
            if s[0] != 'K' and _typ(s) in K['forbid'] and v is not None:
                raise S.Reject('fragmented envelope')
        out['strict'] = ['ok', T.values_text(vals)]
    except S.Reject as r:
        out['strict'] = ['rej', str(r)]
    return out


def _typ(s):
    return s[1][1] if s[0] in ('R', 'P') else (None if s[0] == 'K' else s[1])


SPEC_IGNORE_CRITICAL = {('data', 22), ('cert', 22)}


def _spec_flags(kind, fs, top=True):
    out = []
    for s in fs:
        if s[0] == 'M':
            ic = top and (kind, s[1]) in SPEC_IGNORE_CRITICAL
            out.append(('M', s[1], ic, _spec_flags(kind, s[3], False), s[4]))
        elif s[0] == 'R':
            out.append(('R', _spec_flags(kind, [s[1]], False)[0]))
        else:
            out.append(s)
    return out


# ------------------------------------------------------------------------------------- model
def model_line(case, impl):
    w = T.hx(bytes.fromhex(case['wire']))
    if case['kind'] == 'name':
        return f'C07 name {w}'
    K = _kinds()[case['kind']]
    fb = ','.join(str(x) for x in K['forbid']) or '.'
    # `both` = the decoder model's answer followed by the Lean strict decoder's answer
    return f"C07 both {impl['schema_text']} {K['outer']} {1 if K['ic'] else 0} {1 if K['need_name'] else 0} {fb} {w}"


def _strict_canon(tag, detail):
    """accept / reject, fields, and the kind of an overrun - not the wording of other rejections"""
    import re
    if tag == 'ok':
        return ['ok', detail]
    m = re.match(r'(?:overrun-)?([a-z-]+)(?: element overruns its parent)?$', detail)
    if m and (detail.startswith('overrun-') or detail.endswith(' element overruns its parent')):
        return ['rej', 'overrun-' + m.group(1)]
    return ['rej', '*']


def model_obs(answer, case, impl):
    a = answer.split()
    if case['kind'] == 'name':
        return [a[0], a[1]]
    # decoder model vs the code, and Lean strict decoder vs the Python strict reader
    return [a[0], a[1]] + _strict_canon(a[2], a[3])


def impl_obs(impl):
    if 'schema_text' not in impl:
        return impl['dec']
    return impl['dec'] + _strict_canon(impl['strict'][0], impl['strict'][1])


# ------------------------------------------------------------------------------------- oracle
def oracle(case, impl):
    d, s = impl['dec'], impl['strict']
    if d[0] == 'err':
        if d[1] not in DOCUMENTED:
            return f'rejected with an undocumented error class {d[1]}'
        return None
    if s[0] == 'rej':
        return _tie_on_flagged(case, impl) or f'accepted a packet the strict reading rejects: {s[1]}'
    if d[1] != s[1]:
        return 'accepted, but an extracted field differs from the strict reading'
    if 'api_name' in impl and impl['api_name'].startswith('STR:'):
        return 'accepted a packet without Name (a str default was returned as name)'
    return None


def _tie_on_flagged(case, impl):
    """lib.py does not put a case the oracle flags through the model comparison, and the flagged wires are exactly
    the ones on which the decoder and the strict reading differ. So the two ties (decoder model - code, Lean strict
    decoder - Python strict reader) are checked here for them; a disagreement is reported under its own key."""
    if case['kind'] == 'name':
        return None
    try:
        import lib
        d = lib.Driver(PROP)
        if not d.ok:
            return None
        mo = model_obs(d.ask([model_line(case, impl)])[0], case, impl)
    except Exception as e:   # noqa
        return f'model tie on an overrun wire could not be evaluated: {type(e).__name__}'
    io = impl_obs(impl)
    if mo != io:
        return f'model tie broken on an overrun wire: model {mo} != impl {io}'
    return None


def nontrivial(case, impl):
    return impl['dec'][0] == 'ok' or impl['strict'][0] == 'ok' or case['mut'] not in ('random',)


def tags(case, impl):
    d, s = impl['dec'], impl['strict']
    return ['kind:' + case['kind'], 'mut:' + case['mut'], 'dec:' + (d[0] if d[0] == 'ok' else d[1]),
            'strict:' + (s[0] if s[0] == 'ok' else s[1][:30]), 'len:%d' % (len(case['wire']) // 200 * 100)]


def finding_key(case, impl, why):
    import re
    m = re.search(r'rejects: ([a-z-]+) element overruns its parent', why)
    if m:
        # the silent truncation in TlvModel.parse: one key per kind of element that overruns
        return 'overrun-' + m.group(1)
    w = re.sub(r'[^a-zA-Z]+', '-', why).strip('-').lower()
    return (case['kind'] + ':' + w)[:90]


# ------------------------------------------------------------------ generated table (lean/NdnGen/C07.lean)
def extract(repo):
    from props.c08 import _lean_schema
    out = ['import NdnModel.CodecWF', 'import NdnModel.PacketEnc', 'import NdnModel.Cert',
           '/- GENERATED on every run by harness/props/c07.py from the live `_encoded_fields` of the four packet',
           '   classes.  Do not edit. -/',
           'namespace Ndn.Gen.C07', 'open Ndn.Codec', '']
    for k, K in _kinds().items():
        fs = T.class_schema(K['cls'])
        out.append(f"def {k} : List Schema := [{', '.join(_lean_schema(s) for s in fs)}]")
    out.append('')
    out.append('/-- the four packet schemas are in the fragment the decoder theorems quantify over -/')
    out.append('theorem packet_schemas_ok : [interest, data, lp, cert].all pFs = true := by decide')
    out.append('')
    out.append('/-- field order, Type numbers, fixed lengths, marker positions and ignore_critical flags of the three')
    out.append('    network-packet classes are the ones the packet models (and the packet specification) fix -/')
    out.append('theorem schemas_pinned : interest = Ndn.Packet.interestFs ∧ data = Ndn.Packet.dataFs ∧')
    out.append('    cert = Ndn.Cert.certFs := ⟨rfl, rfl, rfl⟩')
    out.append('')
    out.append('end Ndn.Gen.C07')
    return '\n'.join(out) + '\n'
