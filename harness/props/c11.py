"""C11 - a compiled trust schema matches exactly the names its source text describes
(src/ndn/app_support/light_versec/{compiler,checker,parser,grammar,binary}.py, docs/src/lvs/lvs.rst)."""
import lvs_common as L

from props import lvs_extract

PROP = 'C11'
TITLE = 'A compiled trust schema matches exactly the names its source text describes'
LEAN_TARGETS = ['NdnProofs.Props.C11', 'NdnProofs.Props.C11Tables']
THEOREMS = [
    'Ndn.C11.matchIter_eq_matchTree', 'Ndn.C11.matchIter_no_exception', 'Ndn.C11.matchTree_sound', 'Ndn.C11.matchIter_sound',
    'Ndn.C11.matchTree_iff_Sem', 'Ndn.C11.compile_correct_partial', 'Ndn.C11.compiled_match_iff', 'Ndn.C11.compiled_vdet',
    'Ndn.C11.tree_eq_chains', 'Ndn.C11.checker_reports_iff_chain', 'Ndn.C11.merge_key_test_sound', 'Ndn.C11.compile_split',
    'Ndn.C11.matchNames_spec',
    'Ndn.C11.compile_correct', 'Ndn.C11.compile_correct_keytest', 'Ndn.C11.compile_correct_named', 'Ndn.C11.chains_are_expansions',
    'Ndn.C11.chain_accepts_iff_src', 'Ndn.C11.srcMatch_computes',
    'Ndn.C11.keyInj_of_wf', 'Ndn.C11.compile_correct_wf', 'Ndn.C11.compile_correct_named_wf', 'Ndn.C11.checker_reports_iff_chain_wf',
    'Ndn.C11.merge_key_test_holds', 'Ndn.C11.keyInj_counterexample',
    # generated tables (lean/NdnGen) pinned to the model
    'Ndn.C11.pass_order_table', 'Ndn.C11.merge_key_source_table', 'Ndn.C11.merge_key_model_table', 'Ndn.C11.fn_name_table',
    'Ndn.C11.generate_node_table', 'Ndn.C11.matcher_tests_table', 'Ndn.C11.match_frontend_table',
]
PARTIAL = {
    'Ndn.C11.compile_correct_partial':
        'compile_correct_partial is the compiled-model layer only; the full statement is now proved as compile_correct (source semantics '
        'of lvs.rst = what Checker.match reports on the compiled model): the source-level semantics is written in Lean from the document '
        '(NdnModel/Lvs/SrcSem.lean: Expands = embedded rules replaced by any of their definitions, constraint sets and repeated '
        'definitions as alternatives, constraints inherited; Flat.run = left-to-right matching, named patterns bind or repeat, a '
        'temporary pattern local to its occurrence carrying its own constraints, options evaluated at the first occurrence against the '
        'bindings so far), and every compiler layer is proved against it: pattern numbering (genPatternNumbers_num), DNF replication and '
        'reference inlining with _fresh_temp_tags as an injective renaming into unused numbers (replicateLoop_sem, chains_are_expansions: '
        'chains = expansions of the definitions, rule by rule), a chain accepts what its expansion matches (chain_accepts_iff_src), '
        'node merging (tree_eq_chains), the iterative search (compiled_match_iff). The former hypothesis KeyInj (pattern_movement\'s merge '
        'key, a string, determines tag and constraints on the chains of the schema) is now a theorem for every schema the parser can '
        'produce (keyInj_of_wf: decimal numbers, hex literals and the separators parse back uniquely as soon as no user-function name '
        'contains "(" "," "}" - the grammar gives "$" + C identifier, and this is part of Schema.WF; keyInj_counterexample: without it '
        'the key is not injective), so compile_correct_wf / compile_correct_named_wf have no hypothesis on the key; compile_correct, '
        'compile_correct_keytest and merge_key_test_sound are kept. The computable test keyInjB, which the Lean driver still evaluates '
        'on every generated schema, is proved true on every well-formed schema (merge_key_test_holds): a false answer is a '
        'model/implementation alarm. '
        'Temporary rules are judged under the identifier pass 1 gives them (#_x#k); for every other rule the statement holds for the text '
        'exactly as written (compile_correct_named). The compiler model itself is tied to compile_lvs by differential execution on every '
        'run (node pools compared), and the Lean source semantics is tied to the code independently of the theorems: its executable form '
        '(srcMatch, proved to compute SrcMatches: srcMatch_computes) is compared on every generated schema and name with the real '
        'Checker.match and with the Python transcription of lvs.rst.',
}
TRUSTED = [
    'C11: that NdnModel/Lvs/SrcSem.lean (120 lines: Expands, Flat.run, SrcMatches) says what docs/src/lvs/lvs.rst says - it is read '
    'against the document, and run against the real Checker.match and against an independently written Python transcription of the '
    'document (lvs_common.Spec) on every generated schema and name',
    'C11: Schema.WF is what grammar.py guarantees of an AST (read against the grammar: STR components are encoded, hence non-empty; '
    'FN_IDENT = "$" CNAME, hence non-empty and without "(" "," "}"); the schema generator only emits such ASTs',
    'C11: save/load is the TLV codec (C08); the harness compares the model object and the match results before and after',
    'C11: lark (text -> AST) and the pretty-printer of the schema generator; the Lean compiler model and the Lean source semantics '
    'receive the AST the generator pretty-prints (literal components as the bytes Component.from_str gives)',
    "C11: lean/NdnGen/C11.lean is regenerated on every run by harness/props/lvs_extract.py (live constants of the imported modules; control-flow facts as normalised source text, ast.unparse) and pinned to the model by the *_table theorems (NdnProofs/Props/C11Tables.lean, closed by evaluation): the order of the compiler passes and the model header, every piece and the control-flow skeleton of pattern_movement's merge key (the model's argStr/optStr/termStr/pmoveB are proved to print exactly the generated separators, and FnNameOK is stated with them), the grammar's identifier terminals, the tests of _match / _check_cons, the digest type Checker.match strips (proved to be what stripDigest strips), the #_ prefix. Trusted: the extractor; a pinned TEXT (a test, a call) ties the model to the source only as far as the doc comment of the theorem reads it correctly - the behaviour itself is still tied by the correspondence run",
]
RULE = ('generated schemas (rule references incl. the same rule twice in one name, nested references, redefinitions, temporary rules '
        'and patterns, constraints on temporaries / inherited named patterns / patterns of other rules, multi-option and multi-set '
        'constraints, $eq, $eq_type and a scripted user function; hardening motifs: a rule defined 2-3 times whose later definitions carry '
        'the temporaries / constraints / references / signers and which is referred to 2-3 times from one name, one rule referred to '
        'three times, references nested two deep with a constraint added at every level, a temporary rule identifier defined twice); '
        'some names carry a parameters-digest or implicit-digest component at the end or inside (only a LAST implicit digest is ignored); '
        'names = instances and near-instances (one component changed, one '
        'component dropped/added) of every alternative plus random names up to length 5 over the alphabet {every literal of the schema} '
        '+ two fresh components (one generic, one typed); thorough: additionally all names up to length 3. Compared: ordered match '
        'lists (rule names, bindings) of the Lean matcher on the exported node pool vs the real Checker, before and after save/load; '
        'the set of (rule, bindings) the Lean SOURCE-LEVEL semantics (srcMatch on the AST, no compiled model) gives for every name vs the set '
        'the real Checker reports and vs the set the Python oracle gives; '
        '9%: other texts (the same text once / twice, a nearby text, a text that raises, a text the grammar refuses) are compiled in the process BEFORE the judged compilation; 9%: every name is put to both checkers a second time after searches abandoned at their first result and after check() calls (the second pass is reported when it differs). '
        'oracle: the set of (rule, bindings) equals the source-level semantics. non-trivial = some name matches and some does not; '
        'distinct = distinct (schema, names)')


def extract(repo):
    """lean/NdnGen/C11.lean: tables read from the Light VerSec sources (harness/props/lvs_extract.py)"""
    return lvs_extract.generate_c11(repo)


def cases(rng, tier):
    n = 360 if tier == 'quick' else 8000
    k = 22 if tier == 'quick' else 40
    fns = L.spec_fns(L.FN_NAMES)
    for i in range(n):
        schema = L.gen_schema(rng, signing=rng.random() < 0.3)
        spec = L.Spec(schema, fns)
        if spec.static_errors():
            continue
        asym = L.asym_variant(rng, schema) if rng.random() < 0.1 else None
        if asym is not None:
            # an argument-order-sensitive user function (unknown to the Lean model): judged by the oracle only
            schema, spec = asym, L.Spec(asym, L.spec_fns(L.FN_NAMES + ['$first']))
        names = L.gen_names(rng, schema, spec, k)
        if tier != 'quick' and i % 10 == 0:
            import itertools
            alpha = L.alphabet(schema)
            for ln in (1, 2, 3):
                for t in itertools.product(alpha, repeat=ln):
                    if list(t) not in names:
                        names.append(list(t))
        case = {'schema': schema, 'names': names, 'digest': rng.random() < 0.1}
        if asym is not None:
            case['oracle_only'] = True
        r = rng.random()
        if r < 0.09:
            # state carried between compilations: texts compiled in this process BEFORE the one that is judged - the same
            # text (once / twice), a nearby text over the same identifiers, a text that raises, a text the grammar refuses
            sib = L.sibling_schema(rng, schema)
            q = rng.random()
            case['before'] = ([['self']] if q < 0.4 else [['self'], ['self']] if q < 0.5 else
                              [['self'], ['text', L.broken_schema(rng, schema), 'bad']] if q < 0.65 else
                              [['text', L.broken_schema(rng, schema), 'bad']] if q < 0.75 else
                              [['raw', rng.choice(L.RAW_TEXTS)], ['self']] if q < 0.8 or sib is None else
                              [['text', sib, 'sibling']] if q < 0.9 else [['self'], ['text', sib, 'sibling']])
        elif r < 0.18:
            # state carried between searches: every name is put to both checkers a second time, after searches that were
            # abandoned at their first result and after check() calls (which return from inside two nested searches)
            case['again'] = True
        yield case


def shrink(case):
    nm = case['names']
    if len(nm) > 1:
        for i in range(len(nm)):
            yield dict(case, names=[nm[i]])
    for s in L.shrink_schema(case['schema']):
        yield dict(case, schema=s)
    for i, n in enumerate(nm):
        if len(n) > 1:
            for j in range(len(n)):
                yield dict(case, names=nm[:i] + [n[:j] + n[j + 1:]] + nm[i + 1:])
    if case['digest']:
        yield dict(case, digest=False)


def _rule_set(outs, symbols):
    """{(rule id, bindings by identifier)} of the named nodes reported; `#_x#3` (a temporary rule) -> `#_x`"""
    res = set()
    for names, ctx in outs:
        for rn in names:
            if rn.startswith('#_') and rn.count('#') == 1:
                continue            # a node that ends no rule
            rid = '#' + rn.split('#')[1]
            res.add((rid, tuple(sorted((symbols.get(t, str(t)), v) for t, v in ctx))))
    return res


def _canon_set(st):
    """a set of (rule id, ((identifier, hex), ...)) as a sorted JSON list"""
    return sorted([rid, [list(kv) for kv in b]] for rid, b in st)


def _parse_src(r):
    """one `src-match` answer of the Lean driver -> canonical set (temporary rules `#_x#3` -> `#_x`, as for the checker)"""
    if r.startswith('E~'):
        return 'E:' + r[2:]
    assert r.startswith('S~'), r[:40]
    st = set()
    if r[2:] != '.':
        for m in r[2:].split(';'):
            rid, ctx = m.split('@')
            b = () if ctx == '.' else tuple(sorted(tuple(kv.split('=')) for kv in ctx.split(',')))
            st.add(('#' + rid.split('#')[1], b))
    return _canon_set(st)


def run_impl(case):
    Component, Name, compile_lvs, Checker, SemanticError, LvsModelError, DFN, bny = L.mods()
    fns = L.user_fns(L.FN_NAMES + (['$first'] if case.get('oracle_only') else []))
    spec = L.Spec(case['schema'], fns)
    res = {'token': None, 'ctoken': None, 'symbols': None}
    if case.get('before'):
        def _quiet(sch):
            try:
                compile_lvs(L.pp(sch))
            except Exception:           # noqa
                pass
        L.run_session_prefix(case['before'], case['schema'], _quiet, compile_lvs)
    try:
        model = compile_lvs(L.pp(case['schema']))
    except Exception as e:              # noqa
        res['compile'] = res['build'] = type(e).__name__
        return res
    res['compile'] = 'ok'
    res['ctoken'] = L.enc_model(model)          # the node pool as it leaves the compiler
    res['symbols'] = L.enc_symbols(model)
    try:
        ck = Checker(model, fns)
        ck2 = Checker.load(ck.save(), fns)
    except Exception as e:              # noqa
        res['build'] = type(e).__name__
        return res
    res['build'] = 'ok'
    res['token'] = L.enc_model(ck.model)
    res['same_model_after_reload'] = L.enc_model(ck2.model) == res['token']
    L.cap_steps(ck)
    L.cap_steps(ck2)
    names = [L.name_bytes(n, case['digest']) for n in case['names']]
    first = _pass(res, ck, ck2, names, spec)
    if case.get('again'):
        for nb in names:
            for c in (ck, ck2):
                try:
                    next(iter(c.match(list(nb))), None)
                except Exception:       # noqa
                    pass
        for p in names[:6]:
            for k in names[:6]:
                L.impl_check(ck, p, k)
                L.impl_check(ck2, p, k)
        res2 = {}
        # both passes are judged by the same oracle: the second one is reported when it differs from the first
        if _pass(res2, ck, ck2, names, spec) != first:
            res.update(res2)
            res['second_pass_differs'] = True
    return res


def _pass(res, ck, ck2, names, spec):
    """every name put to the checker and to the reloaded one; fills `res`, returns what was observed"""
    res['matches'], res['matches_reloaded'], res['verdict'] = [], [], []
    res['checker_sets'], res['spec_sets'] = [], []      # per name: canonical set of (rule, bindings), or 'skipped'
    for nb in names:
        outs, exc = L.impl_match(ck, nb)
        outs2, exc2 = L.impl_match(ck2, nb)
        res['matches'].append([outs, exc])
        res['matches_reloaded'].append([outs2, exc2])
        # the oracle's comparison is made here, because sets of tuples are not JSON
        if exc is not None:
            res['verdict'].append('raised:' + exc)
            res['checker_sets'].append('skipped')
            res['spec_sets'].append('skipped')
            continue
        try:
            exp = spec.match(L.strip_digest(nb))
        except Exception as e:          # noqa (a user function raised)
            res['verdict'].append('spec-raised:' + type(e).__name__)
            res['checker_sets'].append('skipped')
            res['spec_sets'].append('skipped')
            continue
        got = _rule_set(outs, ck._symbols)
        res['checker_sets'].append(_canon_set(got))
        res['spec_sets'].append(_canon_set(exp))
        if got == exp:
            res['verdict'].append('match' if exp else 'nomatch')
        else:
            extra = sorted(got - exp)
            miss = sorted(exp - got)
            res['verdict'].append('DIFF extra=%s missing=%s' % (extra[:3], miss[:3]))
    return [res['matches'], res['matches_reloaded'], res['verdict']]


def model_line(case, impl):
    if case.get('oracle_only'):
        return None
    # the Lean side starts from the schema AST: compiler model -> loader model -> matcher model; and, separately, the
    # source-level semantics evaluated on the AST (no compiled model involved)
    names = [L.name_bytes(n, case['digest']) for n in case['names']]
    return 'C11 csrc %s %s %s' % (L.enc_schema(case['schema']), L.enc_env(L.FN_NAMES), '/'.join(L.enc_name(n) for n in names))


def model_obs(answer, case, impl):
    parts = answer.split(' ')
    if parts[0] == 'cerr':
        return {'compile': parts[1]}
    assert parts[0] == 'ok' and len(parts) >= 5, answer[:100]
    # KeyInj of the node-merging theorem, evaluated by the model (keyInjB).  Proved true for every schema the parser can produce
    # (merge_key_test_holds), so a '0' here means the model was given an AST outside Schema.WF or the model of the key text is
    # wrong: it is compared with the constant True below and reported as a model/implementation disagreement.
    key_injective = parts[3] == '1'
    parts = parts[:3] + parts[4:]
    # identical node pools: everything is compared exactly (incl. the order of the matches); pools that are
    # equal only up to the numbering of nodes / tags: canonical forms and sorted match lists
    exact = parts[1] == impl['ctoken'] and parts[2] == impl['symbols']
    impl['_exact'] = exact
    obs = {'compile': 'ok', 'node_pool': parts[1] if exact else L.canon_pool(parts[1], parts[2]),
           'symbols': parts[2] if exact else ','.join(sorted(parts[2].split(','))), 'merge_key_injective': key_injective}
    if parts[3] != 'accepted':
        obs['build'] = parts[3]
        return obs
    obs['build'] = 'ok'
    out = []
    for r in parts[4].split('/'):
        if r.startswith('E~'):
            out.append([[], r[2:]])
            continue
        pm = L.parse_match_answer(r)
        out.append([[[o[0], o[2]] for o in pm['outs']], pm['err'] if pm['halted'] else 'NONTERMINATION'])
    obs['matches'] = out if exact else L.canon_matches(out, parts[2])
    # the source-level semantics of the Lean model, name by name; a name on which the real checker (or a user function
    # under the Python oracle) raised is not compared
    src = [_parse_src(r) for r in parts[5].split('/')]
    skip = impl.get('checker_sets') or []
    src = ['skipped' if i < len(skip) and skip[i] == 'skipped' else s for i, s in enumerate(src)]
    obs['source_semantics_vs_checker'] = src
    obs['source_semantics_vs_oracle'] = src
    return obs


def impl_obs(impl):
    if impl['compile'] != 'ok':
        return {'compile': impl['compile']}
    exact = impl.get('_exact', True)
    obs = {'compile': 'ok', 'node_pool': impl['ctoken'] if exact else L.canon_pool(impl['ctoken'], impl['symbols']),
           'symbols': impl['symbols'] if exact else ','.join(sorted(impl['symbols'].split(','))), 'build': impl['build'],
           'merge_key_injective': True}        # a theorem for every parsed schema (keyInj_of_wf); anything else is an alarm
    if impl['build'] == 'ok':
        obs['matches'] = impl['matches'] if exact else L.canon_matches(impl['matches'], impl['symbols'])
        obs['source_semantics_vs_checker'] = impl['checker_sets']
        obs['source_semantics_vs_oracle'] = impl['spec_sets']
    return obs


def _uses_eqtype_pattern(schema):
    for r in schema['rules']:
        for cs in r['cons']:
            for t in cs:
                for o in t['opts']:
                    if o[0] == 'fn' and o[1] == '$eq_type' and any(a[0] == 'pat' for a in o[2]):
                        return True
    return False


def oracle(case, impl):
    if impl['build'] != 'ok':
        return None                     # whether a schema must compile is property C13
    if not impl['same_model_after_reload']:
        return 'the model differs after save/load'
    tolerant = _uses_eqtype_pattern(case['schema'])
    for i, v in enumerate(impl['verdict']):
        if v.startswith('DIFF'):
            return f'name {i}: reported matches differ from the rules as written: {v[5:]}'
        if v.startswith('raised:') and not (tolerant and v == 'raised:TypeError'):
            return f'name {i}: match raised {v[7:]}'
        if impl['matches'][i] != impl['matches_reloaded'][i]:
            return f'name {i}: match results differ after save/load'
    return None


def nontrivial(case, impl):
    v = impl.get('verdict') or []
    return 'match' in v and 'nomatch' in v


def tags(case, impl):
    t = ['build:' + impl['build']]
    for v in impl.get('verdict') or []:
        t.append('name:' + v.split(' ')[0])
    for n in case['names']:
        t.append('len:%d' % len(n))
    twice = any(sum(1 for c in r['name'] if c[0] == 'ref') >= 2 for r in case['schema']['rules'])
    if twice:
        t.append('schema:two-references-in-one-name')
    ids = [r['id'] for r in case['schema']['rules']]
    if len(set(ids)) < len(ids):
        t.append('schema:redefinition')
    if case.get('oracle_only'):
        t.append('schema:order-sensitive-user-function(oracle only)')
    if case.get('before'):
        t.append('compiled-before:' + L.session_shape(case['before']))
    if case.get('again'):
        t.append('searched-again-after-abandoned-searches-and-checks' + (':DIFFERS' if impl.get('second_pass_differs') else ''))
    for m, tg in (('#r2', 'later-definition-carries-constraints-referred-twice'), ('#u3', 'triple-or-nested-reference'), ('#_d', 'temporary-rule-id-twice')):
        if m in ids:
            t.append('motif:' + tg)
    return t


def finding_key(case, impl, why):
    if 'save/load' in why:
        return 'differs-after-save-load'
    if 'raised' in why:
        return 'match-raises'
    if 'extra=[]' in why:
        return 'misses-match-of-rule-as-written'
    return 'reports-match-not-in-rule-as-written'


LEVEL_TEXT = ('Lean 4 theorems from the source text to the answers of Checker.match: a source-level semantics transcribed from '
              'docs/src/lvs/lvs.rst (Expands / Flat.run / SrcMatches) and a hand-written model of the whole compiler (the passes of '
              'compiler.py as written) and of Checker._match/match. compile_correct: on the compiled model the iterative back-tracking search '
              'reports rule r with bindings s for a name iff the name matches r as written with bindings s - proved layer by layer: pattern '
              'numbering, DNF replication / reference inlining with fresh temporaries (chains = expansions of the definitions), a chain '
              'accepts what its expansion matches, node merging (the merge key is proved injective for every parsed schema, keyInj_of_wf; the '
              'driver still evaluates the test on every schema as a cross-check), '
              'the compiled tree\'s path semantics, the iterative search = the recursive one. Tied to the code on every run by '
              'differential execution (schema AST -> Lean compiler vs real compile_lvs: node pools compared; Lean loader + matcher on the '
              'Lean-compiled pool vs real Checker; the Lean source semantics evaluated on the AST vs the real Checker.match and vs the Python '
              'oracle) and by a source-level oracle transcribed independently from the document.'
              " The compiler's pass order, the pieces of the merge key (separators and v=/t= prefixes, proved to be what the model prints), the grammar terminals, the tests of Checker._match/_check_cons and the digest type stripped by Checker.match are regenerated from the source on every run (lean/NdnGen/C11.lean) and pinned by theorems closed by evaluation (NdnProofs/Props/C11Tables.lean).")
LEVEL_NOTE = ('compile_correct_wf is proved for the model for every schema the parser can produce (the merge-key hypothesis KeyInj is a '
              'theorem, keyInj_of_wf). Proof is about the model; model=code is sampled.')
TECHNIQUE = 'Lean 4 proof (source-level semantics as an inductive relation; refinement through the compiler passes: numbering, replication with an alpha-renaming invariant for fresh temporaries, node merging = union of chains by induction on the generated tree; simulation of the iterative search; soundness/completeness w.r.t. a path semantics) + model/implementation correspondence check (compiler, loader, matcher) + source-level oracle'
DESIGN_REF = 'DESIGN.md section 7, C11; finding F8'
