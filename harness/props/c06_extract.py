"""AST extraction of the `except (...)` tuples and guards of the receive pipeline (used by c06.py, c10.py).

Nothing here executes the source: it is parsed with `ast`.  Output = text of lean/NdnGen/C06.lean."""
import ast, os

CLASS_MAP = {
    'DecodeError': ['decodeError'], 'TypeError': ['typeError'], 'ValueError': ['valueError'],
    'struct.error': ['structError'], 'error': ['structError'], 'IndexError': ['indexError'],
    'KeyError': ['keyError'], 'LookupError': ['indexError', 'keyError'],
    'AttributeError': ['attributeError'], 'UnicodeDecodeError': ['unicodeError', ], 'OverflowError': ['overflowError'],
    'InvalidStateError': ['invalidState'],
}
ALL = ['indexError', 'structError', 'valueError', 'typeError', 'keyError', 'decodeError', 'invalidState',
       'attributeError', 'unicodeError', 'overflowError', 'other']


def _cls_name(n):
    if isinstance(n, ast.Name):
        return n.id
    if isinstance(n, ast.Attribute):
        if isinstance(n.value, ast.Name) and n.value.id == 'struct':
            return 'struct.error'
        return n.attr
    return '?'


def _handler_classes(tr):
    out = []
    for h in tr.handlers:
        if h.type is None:
            out += ALL
            continue
        ts = h.type.elts if isinstance(h.type, ast.Tuple) else [h.type]
        for t in ts:
            nm = _cls_name(t)
            if nm in ('Exception', 'BaseException'):
                out += ALL
            else:
                out += CLASS_MAP.get(nm, ['other'])
    res = []
    for x in out:
        if x not in res:
            res.append(x)
    return res


def _func(tree, cls, name):
    for n in ast.walk(tree):
        if isinstance(n, ast.ClassDef) and n.name == cls:
            for f in n.body:
                if isinstance(f, (ast.FunctionDef, ast.AsyncFunctionDef)) and f.name == name:
                    return f
    raise LookupError(f'{cls}.{name} not found')


def _callee(c):
    f = c.func
    return f.attr if isinstance(f, ast.Attribute) else (f.id if isinstance(f, ast.Name) else '?')


def _walk(node, ctx, out):
    """collect (call name, innermost enclosing Try whose *body* contains it, list of enclosing (If, in_body))"""
    if isinstance(node, ast.Call):
        tries = [c for c in ctx if isinstance(c, ast.Try)]
        ifs = [c for c in ctx if isinstance(c, tuple)]
        out.append((_callee(node), node, tries[-1] if tries else None, ifs))
    if isinstance(node, ast.Subscript) and isinstance(node.ctx, ast.Load):
        tries = [c for c in ctx if isinstance(c, ast.Try)]
        out.append(('[]', node, tries[-1] if tries else None, []))
    if isinstance(node, ast.Try):
        for s in node.body:
            _walk(s, ctx + [node], out)
        for h in node.handlers:
            for s in h.body:
                _walk(s, ctx, out)
        for s in node.orelse + node.finalbody:
            _walk(s, ctx, out)
        return
    if isinstance(node, ast.If):
        _walk(node.test, ctx, out)
        for s in node.body:
            _walk(s, ctx + [(node, True)], out)
        for s in node.orelse:
            _walk(s, ctx + [(node, False)], out)
        return
    if isinstance(node, (ast.FunctionDef, ast.AsyncFunctionDef, ast.Lambda)) and ctx:
        return            # nested definitions are not part of the pipeline
    for c in ast.iter_child_nodes(node):
        _walk(c, ctx + [None] if False else ctx, out)


def _mentions(node, ident):
    return any((isinstance(n, ast.Name) and n.id == ident) or (isinstance(n, ast.Attribute) and n.attr == ident)
               for n in ast.walk(node))


def guards_of(path, table_attr):
    tree = ast.parse(open(path).read())
    rec = _func(tree, 'NDNApp', '_receive')
    found = []
    for s in rec.body:
        _walk(s, [rec], found)
    g = {'caughtLp': [], 'caughtFragTl': [], 'caughtNackInterest': [], 'caughtInterest': [], 'caughtData': [],
         'fragNoneGuard': False, 'usesPitToken': False, 'caughtNackLookup': [], 'nackByDigest': False}
    g.update(done_guards(path))
    tl_line = None
    for name, node, tr, ifs in found:
        caught = _handler_classes(tr) if tr is not None else []
        if name in ('parse_lp_packet_v2', 'parse_lp_packet'):
            g['caughtLp'] = caught
        elif name == 'parse_tl_num':
            g['caughtFragTl'] = caught
            tl_line = node.lineno
        elif name == 'parse_interest':
            in_nack = any(b and _mentions(i.test, 'nack_reason') for i, b in ifs)
            g['caughtNackInterest' if in_nack else 'caughtInterest'] = caught
        elif name == 'parse_data':
            g['caughtData'] = caught
        elif name == '_on_interest':
            g['usesPitToken'] = any(_mentions(a, 'pit_token') for a in list(node.args) + [k.value for k in node.keywords])
    # explicit None guard before parse_tl_num: `if <x> is None: ... return` (or `if not <x>`) at a smaller line number
    if tl_line is not None:
        for n in ast.walk(rec):
            if isinstance(n, ast.If) and n.lineno < tl_line and any(isinstance(s, ast.Return) for s in n.body):
                t = n.test
                is_none = (isinstance(t, ast.Compare) and len(t.ops) == 1 and isinstance(t.ops[0], ast.Is)
                           and isinstance(t.comparators[0], ast.Constant) and t.comparators[0].value is None)
                if is_none and (_mentions(t, 'fragment') or _mentions(t, 'data')):
                    g['fragNoneGuard'] = True
    nk = _func(tree, 'NDNApp', '_on_nack')
    g['nackByDigest'] = _mentions(nk, 'TYPE_IMPLICIT_SHA256')
    found = []
    for s in nk.body:
        _walk(s, [nk], found)
    for name, node, tr, ifs in found:
        if name == '[]' and _mentions(node.value, table_attr):
            g['caughtNackLookup'] = _handler_classes(tr) if tr is not None else []
        if name == 'get' and _mentions(node.func, table_attr):
            g['caughtNackLookup'] = ['keyError']
    return g


def done_guards(path):
    """the "future already done" guards of the InterestTreeNode this front-end uses (appv2.py defines its own, app.py
    imports the one of name_tree.py): recognised shapes only (props/pit_extract.py), anything else counts as absent"""
    from props import pit_extract as px
    tree = ast.parse(open(path).read())
    cls, entry = px.find_class(tree, 'InterestTreeNode'), px.find_class(tree, 'PendingIntEntry')
    if cls is None:
        nt = ast.parse(open(os.path.join(os.path.dirname(path), 'name_tree.py')).read())
        cls, entry = px.find_class(nt, 'InterestTreeNode'), None
    if cls is None:
        return {'nackDoneGuard': False, 'satisfyDoneGuard': False}
    sh = px.node_shape(cls, entry)
    nack = sh['nackFails'].startswith('E.implicit_sha256 == implicit_sha256 and (not E.future.done()) => ')
    if sh['satisfyDone'] == 'n/a':
        sat = sh['satisfyHands'] == '{if not E.future.done(): E.future.set_result(data)}'
    else:
        sat = sh['satisfyDone'] in ('if self.future.cancelled() or self.future.done(): return', 'if self.future.done(): return') \
            and 'create_task(E.satisfy(data))' in px.strip_mod(sh['satisfyHands'])
    return {'nackDoneGuard': nack, 'satisfyDoneGuard': sat}


def udp_caught(path):
    tree = ast.parse(open(path).read())
    for n in ast.walk(tree):
        if isinstance(n, ast.FunctionDef) and n.name == 'datagram_received':
            found = []
            for s in n.body:
                _walk(s, [n], found)
            guard_empty = False
            for name, node, tr, ifs in found:
                if name == 'parse_tl_num':
                    return _handler_classes(tr) if tr is not None else []
    raise LookupError('datagram_received not found')


# classes that can come out of `await reader.readexactly(n)` (lean/NdnModel/StreamReader.lean : RdErr)
STREAM_ALL = ['incompleteRead', 'connectionReset', 'other']
STREAM_CLASS_MAP = {
    'IncompleteReadError': ['incompleteRead'], 'EOFError': ['incompleteRead'],
    'ConnectionResetError': ['connectionReset'], 'ConnectionError': ['connectionReset'],
    'OSError': ['connectionReset', 'other'], 'IOError': ['connectionReset', 'other'],
    'EnvironmentError': ['connectionReset', 'other'],
    'Exception': STREAM_ALL, 'BaseException': STREAM_ALL,
}


def stream_caught(path):
    """classes named by the `except` clause(s) of the `try` in StreamFace.run that protects the framing reads
    (read_tl_num_from_stream / readexactly) AND whose handler ends the loop through `self.shutdown()` (or
    `self.running = False`); a handler that does neither does not end the task and is not counted"""
    tree = ast.parse(open(path).read())
    run = _func(tree, 'StreamFace', 'run')
    found = []
    for s in run.body:
        _walk(s, [run], found)
    tries = []
    for name, node, tr, ifs in found:
        if name in ('read_tl_num_from_stream', 'readexactly') and tr is not None and tr not in tries:
            tries.append(tr)
    # every framing read must sit in the same try
    reads = [(name, tr) for name, node, tr, ifs in found if name in ('read_tl_num_from_stream', 'readexactly')]
    if not reads or any(tr is None for _, tr in reads) or len(tries) != 1:
        return []
    out = []
    for h in tries[0].handlers:
        ends = any((isinstance(n, ast.Call) and _callee(n) == 'shutdown') or
                   (isinstance(n, ast.Assign) and any(isinstance(t, ast.Attribute) and t.attr == 'running' for t in n.targets)
                    and isinstance(n.value, ast.Constant) and n.value.value is False)
                   for b in h.body for n in ast.walk(b))
        if not ends:
            continue
        if h.type is None:
            out += STREAM_ALL
            continue
        ts = h.type.elts if isinstance(h.type, ast.Tuple) else [h.type]
        for t in ts:
            out += STREAM_CLASS_MAP.get(_cls_name(t), [])
    res = []
    for x in out:
        if x not in res:
            res.append(x)
    return res


def lean_list(xs):
    return '[' + ', '.join('.' + x for x in xs) + ']'


def generate(repo, consts):
    src = os.path.join(repo, 'src', 'ndn')
    out = ['import NdnModel.Receive', 'import NdnModel.StreamReader',
           '/- GENERATED by harness/props/c06_extract.py from src/ndn/appv2.py, src/ndn/app.py, '
           'src/ndn/name_tree.py, src/ndn/transport/udp_face.py, src/ndn/transport/stream_face.py (ast) and the live TypeNumber/LpTypeNumber '
           'constants. Do not edit. -/',
           'namespace Ndn.Gen.C06', 'open Ndn Ndn.Recv', '']
    for tag, f, attr in (('v2', 'appv2.py', '_pit'), ('v1', 'app.py', '_int_tree')):
        g = guards_of(os.path.join(src, f), attr)
        out.append(f'def {tag} : Guards where')
        out.append(f"  lpType := {consts['lp']}")
        out.append(f"  interestType := {consts['interest']}")
        out.append(f"  dataType := {consts['data']}")
        for k in ('caughtLp', 'caughtFragTl', 'caughtNackInterest', 'caughtInterest', 'caughtData', 'caughtNackLookup'):
            out.append(f'  {k} := {lean_list(g[k])}')
        out.append(f"  fragNoneGuard := {'true' if g['fragNoneGuard'] else 'false'}")
        out.append(f"  usesPitToken := {'true' if g['usesPitToken'] else 'false'}")
        out.append(f"  nackByDigest := {'true' if g['nackByDigest'] else 'false'}")
        out.append(f"  nackDoneGuard := {'true' if g['nackDoneGuard'] else 'false'}")
        out.append(f"  satisfyDoneGuard := {'true' if g['satisfyDoneGuard'] else 'false'}")
        out.append('')
    out.append(f"def udpCaught : List PyErr := {lean_list(udp_caught(os.path.join(src, 'transport', 'udp_face.py')))}")
    sc = stream_caught(os.path.join(src, 'transport', 'stream_face.py'))
    out.append('def streamCaught : List Ndn.StreamReader.RdErr := ' + lean_list(sc))
    out += ['', 'end Ndn.Gen.C06', '']
    return '\n'.join(out)
