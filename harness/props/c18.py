"""C18 — state-vector sync (src/ndn/app_support/svs/sync.py)."""
import random
import vloop

PROP = 'C18'
TITLE = 'State-vector sync merges monotonically and announces exactly when needed'
LEAN_TARGETS = ['NdnProofs.Props.C18']
THEOREMS = [
    'Ndn.C18.local_is_max', 'Ndn.C18.rejected_unchanged', 'Ndn.C18.local_monotone', 'Ndn.C18.run_monotone',
    'Ndn.C18.overclaim_ignored_entirely', 'Ndn.C18.callback_iff_raised',
    'Ndn.C18.publish_increments_and_emits_full', 'Ndn.C18.suppression_emit_iff', 'Ndn.C18.steady_timer_emits',
    # byte-level half: the vector as the bytes of the name component (composition with the TLV codec, C08/C07)
    'Ndn.C18.vector_roundtrip', 'Ndn.C18.stepBytes_spec', 'Ndn.C18.stepB_refines', 'Ndn.C18.run_monotone_bytes',
    'Ndn.C18.local_is_max_bytes', 'Ndn.C18.callback_iff_raised_bytes', 'Ndn.C18.emits_are_local',
    'Ndn.C18.publish_emits_decodable', 'Ndn.C18.vector_received', 'Ndn.C18.emitted_vector_is_received',
    'Ndn.C18.encodeVector_fails_only_oversize', 'Ndn.C18.source_tables_pinned',
    # well-formedness of the local vector is an invariant of the byte-level handler (decoder output is well-formed, C08.parse_wf)
    'Ndn.Svs.decodeVector_entries_wf', 'Ndn.Svs.step_wfVec', 'Ndn.C18.local_wf_invariant', 'Ndn.C18.reachable_wf',
    'Ndn.C18.reachable_step', 'Ndn.C18.vector_roundtrip_reachable', 'Ndn.C18.publish_emits_decodable_reachable',
    'Ndn.C18.emitted_vector_is_received_reachable', 'Ndn.C18.timer_emits_decodable_reachable',
    'Ndn.C18.local_vector_received_reachable', 'Ndn.C18.reachable_loc_ne_nil',
    'Ndn.C18.encodeVector_reachable_fails_only_oversize',
]
PARTIAL = {}
TRUSTED = [
    'C18: time is abstracted - the timer expiry is an event of the model; asyncio wait_for/Event semantics are exercised only by the correspondence (virtual-time loop)',
    'C18: a received vector enters the model as the bytes of the name component name[-2]; the model decodes them with the generic TLV decoder (Ndn.Codec.parse, the function the C07/C08 theorems are about) over the StateVecWrapper schema regenerated from the live class, and catches the classes of the regenerated `except` clause; the name-length test before it (len(name) == len(prefix) + 2) is an event of its own (undecodable); the component is one complete TLV element, as Name.decode delivers it (on other byte strings the error log of the handler, Name.to_str(name) evaluated inside the except clause, can itself raise ValueError)',
    'C18: a vector with repeated node ids denotes the dict built from its entries (last entry wins); an entry whose name is empty is skipped like one without a name',
]
RULE = ('histories of 1..14 events over 4 node ids: received vectors (newer/older/incomparable/unknown nodes/'
        'over-claiming/duplicate ids/entries without NodeId or SeqNo/empty/undecodable bytes/wrong name length; every vector '
        'is handed to the model as the component bytes, and a separate stream mutates valid encodings: unknown critical / '
        'non-critical elements, illegal integer widths, non-minimal Type/Length, truncation, swapped fields, empty or '
        'mistyped names, other outer types, random bytes; always one complete TLV element), '
        'publications and timer expiries; a targeted stream: the own node id repeated in one vector (over-claiming first / '
        'last / in the middle), sequence numbers up to 2^64-1, stop/start cycles, a vector or a publication arriving at the '
        'instant the timer is due, over-claiming vectors inside a suppression period; non-trivial = the history contains at least one accepted vector that '
        'raises an entry or an emission decision taken in suppression; distinct = distinct event lists')

BASE = '/sync'
NODES = ['/n0', '/n1', '/n2', '/n3']


def _imports():
    from ndn import encoding as enc
    from ndn.app_support.svs import sync as svs_sync
    from ndn.app_support.svs.tlv import StateVec, StateVecWrapper, StateVecEntry
    return enc, svs_sync, StateVec, StateVecWrapper, StateVecEntry


def extract(repo):
    from props import c18_bytes
    return c18_bytes.extract_text(repo)


# ------------------------------------------------------------------------------------- cases
def _vector(rng, seqs_hint):
    k = rng.choice([1, 1, 2, 2, 3, 4])
    es = []
    for _ in range(k):
        r = rng.random()
        nid = rng.choice(NODES)
        base = seqs_hint.get(nid, 0)
        seq = min(2**64 - 1, max(0, base + rng.choice([-2, -1, 0, 0, 1, 1, 2, 5])))
        if rng.random() < 0.04:
            seq = rng.choice(BIG_SEQS)          # sequence numbers needing 5- and 9-byte integers
        if r < 0.05:
            es.append([None, seq])
        elif r < 0.10:
            es.append([nid, None])
        else:
            es.append([nid, seq])
            if rng.random() < 0.7:
                seqs_hint[nid] = max(base, seq)
    return es


def _exhaustive(max_len):
    """every history of up to max_len events over a small alphabet chosen to hit each branch of the handler:
    newer / older / unknown-node / over-claiming / two-entry vectors, publish, timer"""
    import itertools
    alphabet = [['r', [['/n1', 2]]], ['r', [['/n1', 1]]], ['r', [['/n2', 1], ['/n1', 3]]], ['r', [['/n0', 9]]],
                ['r', [['/n1', 1], ['/n0', 1]]], ['p'], ['t']]
    for n in range(1, max_len + 1):
        for evs in itertools.product(alphabet, repeat=n):
            yield {'seq0': 1, 'events': [list(e) for e in evs]}


BIG_SEQS = [2**32 - 1, 2**32, 2**32 + 1, 2**63, 2**64 - 2, 2**64 - 1]


def _targeted():
    """dimensions the random stream reaches rarely or never: the own node id repeated inside one vector (over-claiming in
    the first / last / middle entry, with raising entries before and after), sequence numbers >= 2^32, stop/start cycles
    (a restart must keep the vector, the state and a single timer), a vector or a publication arriving at the very instant
    the timer is due, over-claiming vectors in steady state and inside a suppression period followed by the timer"""
    me, a, b = NODES[0], NODES[1], NODES[2]
    for seq0 in (0, 2):
        over, ok = seq0 + 1, seq0
        dups = [[[me, ok], [me, over]], [[me, over], [me, ok]], [[a, 4], [me, over], [b, 3], [me, ok]],
                [[me, ok], [a, 4], [me, ok]], [[a, 4], [me, ok], [a, 2]], [[a, 2], [a, 4], [me, over]],
                [[me, over], [a, 4]], [[a, 4], [me, over]]]
        for v in dups:
            yield {'seq0': seq0, 'events': [['r', v], ['t'], ['p'], ['r', [[a, 1]]], ['r', v], ['t']]}
            yield {'seq0': seq0, 'events': [['r', [[a, 9], [b, 9]]], ['t'], ['r', [[a, 1]]], ['r', v], ['t']]}
        # an over-claiming vector inside a suppression period must not count as heard
        yield {'seq0': seq0, 'events': [['r', [[a, 9], [b, 9]]], ['t'], ['r', [[a, 1]]], ['r', [[a, 9], [b, 9], [me, over]]], ['t']]}
        yield {'seq0': seq0, 'events': [['r', [[a, 9]]], ['t'], ['r', [[me, over], [a, 9]]], ['t'], ['r', [[a, 9], [me, ok]]], ['t']]}
        for big in BIG_SEQS:
            yield {'seq0': seq0, 'events': [['r', [[a, big]]], ['r', [[a, big - 1], [b, 1]]], ['t'], ['r', [[a, big]]], ['t']]}
            yield {'seq0': seq0, 'events': [['r', [[a, 2**32 - 2]]], ['r', [[a, big]]], ['r', [[a, 5]]], ['t'], ['p']]}
            yield {'seq0': seq0, 'events': [['r', [[me, big]]], ['t'], ['p'], ['t']]}
        yield {'seq0': seq0, 'events': [['ss'], ['p'], ['t'], ['ss'], ['ss'], ['p'], ['r', [[a, 3]]], ['t']]}
        yield {'seq0': seq0, 'events': [['r', [[a, 3]]], ['t'], ['r', [[a, 1]]], ['ss'], ['t'], ['p'], ['t']]}
        yield {'seq0': seq0, 'events': [['r', [[a, 3]]], ['ss'], ['r', [[a, 1]]], ['r', [[a, 3]]], ['ss'], ['t'], ['t']]}
        yield {'seq0': seq0, 'events': [['p'], ['ss'], ['r', [[me, seq0]]], ['t'], ['ss'], ['p']]}
        for first in (['r', [[a, 3]]], ['r', [[a, 3]]], ['p']):
            for at in (['r@', [[a, 1]]], ['r@', [[a, 3]]], ['r@', [[a, 5]]], ['r@', [[me, seq0 + 5]]], ['r@', []], ['p@']):
                yield {'seq0': seq0, 'events': [first, ['t'], at, ['t'], ['p'], ['t']]}
                yield {'seq0': seq0, 'events': [first, ['t'], ['r', [[a, 1]]], at, ['t'], ['r', [[b, 1]]], at, ['t']]}


def cases(rng, tier):
    yield from _targeted()
    if tier == 'thorough':
        # exhaustive small scope first (7 + 49 + 343 + 2401 + 16807 histories), then the random stream
        yield from _exhaustive(5)
    yield from _byte_cases(rng, 150 if tier == 'quick' else 6000)
    n = 400 if tier == 'quick' else 12000
    for _ in range(n):
        seq0 = rng.choice([0, 0, 1, 3, 7])
        hint = {'/n0': seq0}
        evs = []
        for _ in range(rng.randint(1, 14)):
            r = rng.random()
            if r < 0.55:
                evs.append(['r', _vector(rng, hint)])
            elif r < 0.70:
                evs.append(['p'])
                hint['/n0'] = hint.get('/n0', 0) + 1
            elif r < 0.86:
                evs.append(['t'])
            elif r < 0.88:
                evs.append(['ss'])
            elif r < 0.90:
                evs.append(['r@', _vector(rng, hint)] if rng.random() < 0.7 else ['p@'])
                if evs[-1][0] == 'p@':
                    hint['/n0'] = hint.get('/n0', 0) + 1
            elif r < 0.93:
                evs.append(['r', []])
            elif r < 0.97:
                evs.append(['raw', bytes(rng.randrange(256) for _ in range(rng.randint(0, 8))).hex()])
            elif r < 0.975:
                from props import c18_bytes
                b, _tag = c18_bytes.component(rng, _vector(rng, hint))
                evs.append(['comp', b.hex(), _tag])
            else:
                evs.append(['badlen'])
        yield {'seq0': seq0, 'events': evs}


def _byte_cases(rng, n):
    """histories in which most received vectors are (mutated) component bytes"""
    from props import c18_bytes
    for _ in range(n):
        seq0 = rng.choice([0, 1, 3])
        hint = {'/n0': seq0}
        evs = []
        for _ in range(rng.randint(1, 8)):
            r = rng.random()
            if r < 0.7:
                b, _tag = c18_bytes.component(rng, _vector(rng, hint))
                evs.append(['comp', b.hex(), _tag])
            elif r < 0.8:
                evs.append(['r', _vector(rng, hint)])
            elif r < 0.9:
                evs.append(['p'])
                hint['/n0'] = hint.get('/n0', 0) + 1
            else:
                evs.append(['t'])
        yield {'seq0': seq0, 'events': evs}


def shrink(case):
    evs = case['events']
    for i in range(len(evs)):
        yield {'seq0': case['seq0'], 'events': evs[:i] + evs[i + 1:]}
    for i, e in enumerate(evs):
        if e[0] in ('r', 'r@') and len(e[1]) > 1:
            for j in range(len(e[1])):
                yield {'seq0': case['seq0'], 'events': evs[:i] + [[e[0], e[1][:j] + e[1][j + 1:]]] + evs[i + 1:]}
        if e[0] in ('r@', 'p@'):
            yield {'seq0': case['seq0'], 'events': evs[:i] + [[e[0][0]] + e[1:]] + evs[i + 1:]}
    if case['seq0'] > 0:
        yield {'seq0': 0, 'events': evs}


# -------------------------------------------------------------------------------- implementation
class _FakeApp:
    def __init__(self):
        self.sent = []

    def attach_handler(self, *a, **k):
        pass

    def detach_handler(self, *a, **k):
        pass

    def express(self, name, validator, **kw):
        self.sent.append(name)


def _canon_vec(d):
    return sorted([k.hex(), v] for k, v in d.items())


def run_impl(case):
    enc, svs_sync, StateVec, StateVecWrapper, StateVecEntry = _imports()
    rng = random.Random(1234)
    loop = vloop.new_loop()
    loop._vt = 1000.0

    class _T:
        time = staticmethod(lambda: loop.time())

    class _S:
        randbits = staticmethod(lambda n: rng.getrandbits(n))
    old = (svs_sync.time, svs_sync.secrets)
    svs_sync.time, svs_sync.secrets = _T, _S
    try:
        missing = []
        app = _FakeApp()
        inst = svs_sync.SvsInst(BASE, NODES[0], lambda i: missing.append(1), None, None,
                                last_used_seq_num=case['seq0'])
        loop.call_now(inst.start, app)
        app.sent.clear()
        base = enc.Name.normalize(BASE)
        self_id = enc.Name.to_bytes(NODES[0])
        trace = []

        def _begin(kind):
            missing.clear()
            app.sent.clear()
            return {'ev': kind, 'state_before': inst.state.name, 'self_seq_before': inst.self_seq,
                    'local_before': _canon_vec(inst.local_sv)}

        def _finish(rec, exc):
            rec['raised'] = exc
            rec['missing'] = len(missing)
            emitted = []
            for nm in app.sent:
                v = StateVecWrapper.parse(nm[-1]).val
                emitted.append(sorted([bytes(enc.Name.to_bytes(e.node_id)).hex(), e.seq_no] for e in (v.entries if v else [])))
            rec['emitted'] = emitted
            rec['local'] = _canon_vec(inst.local_sv)
            rec['state'] = inst.state.name
            rec['self_seq'] = inst.self_seq
            trace.append(rec)

        for ev in case['events']:
            # 'r@' / 'p@': the vector / publication arrives at the very instant the timer is due (clock moved without
            # letting the timer task run; the handler is called directly, then the loop settles)
            kind, exact = ev[0].rstrip('@'), ev[0].endswith('@')
            rec = _begin(kind)
            exc = None
            if exact:
                rec['exact'] = True
                loop._vt = max(inst.next_sync_timing, loop.time())
            if kind in ('r', 'raw', 'badlen', 'comp'):
                if kind == 'comp':
                    comp = bytes.fromhex(ev[1])
                elif kind == 'r':
                    pkt = StateVecWrapper()
                    pkt.val = StateVec()
                    pkt.val.entries = []
                    for nid, seq in ev[1]:
                        e = StateVecEntry()
                        e.node_id = nid
                        e.seq_no = seq
                        pkt.val.entries.append(e)
                    comp = bytes(pkt.encode())
                elif ev[0] == 'raw':
                    comp = enc.Component.from_bytes(bytes.fromhex(ev[1]), 0xc9)
                else:
                    comp = enc.Component.from_bytes(b'', 0xc9)
                name = base + [comp, enc.Component.from_bytes(b'\x00' * 32, 2)]
                if ev[0] == 'badlen':
                    name = base + [comp]
                # the model gets the bytes of the component and decodes them itself; what the library's own decoder
                # makes of them is kept as a cross-check of the model's decoder and for the oracle
                from props import c18_bytes
                dec = None
                if ev[0] != 'badlen':
                    rec['comp'] = bytes(comp).hex()
                    rec['lib_view'], dec = c18_bytes.lib_view(bytes(comp), StateVecWrapper, enc.Name)
                rec['decoded'] = dec
                try:
                    if exact:
                        inst.sync_handler(name, None, None, None)
                    else:
                        loop.call_now(inst.sync_handler, name, None, None, None)
                except Exception as e:           # noqa
                    exc = c18_bytes.exc_name(e)
                if exact:
                    # whether the timer still expired at this instant is read off its observable effects: a timer in
                    # steady state emits, a timer in suppression returns to steady state
                    _finish(rec, exc)
                    rec = _begin('t')
                    rec['exact'] = True
                    loop.settle()
                    if app.sent or (rec['state_before'] == 'SyncSuppression' and inst.state.name == 'SyncSteady'):
                        _finish(rec, None)
                    continue
            elif kind == 'p':
                if exact:
                    inst.new_data()
                    loop.settle()
                else:
                    loop.call_now(inst.new_data)
            elif kind == 't':
                loop.advance(max(inst.next_sync_timing, loop.time()) + 1e-3)
            elif kind == 'ss':
                # stop, let the timer task finish, start again (stop immediately followed by start is kept out: see report)
                loop.call_now(inst.stop)
                loop.call_now(inst.start, app)
            _finish(rec, exc)
        inst.stop()
        return {'self_id': bytes(self_id).hex(), 'trace': trace, 'loop_errors': loop.errors}
    finally:
        svs_sync.time, svs_sync.secrets = old
        loop.shutdown()


# ------------------------------------------------------------------------------------- model
def model_line(case, impl):
    toks = []
    for rec in impl['trace']:
        if rec['ev'] == 'ss':
            continue            # a restart is not an event of the model: it must change nothing the model can see
        if rec['ev'] in ('r', 'raw', 'badlen', 'comp'):
            if rec.get('comp') is not None:
                # the real encoded component; `=<lib>` lets the driver compare its own decoder with the library's
                toks.append('b:' + (rec['comp'] or '-') + '=' + rec['lib_view'])
            else:
                toks.append('u')
        else:
            toks.append(rec['ev'])
    return f"C18 {impl['self_id']} {case['seq0']} {';'.join(toks) if toks else '.'}"


def _pvec(s):
    if s == '.':
        return []
    return sorted([a.split(':')[0], int(a.split(':')[1])] for a in s.split(','))


def model_obs(answer, case, impl):
    assert answer.startswith('ok'), answer
    out = []
    for tok in answer.split()[1:]:
        tok, _, em = tok.partition('#')
        outs, loc = tok.split('@')
        o = []
        if outs.startswith('!'):
            o = [['X', outs[1:]]]
        elif outs != '-':
            for x in outs.split('+'):
                o.append('M' if x == 'M' else ['E', _pvec(x[2:-1])])
        # what the model's encoder put into the name component, read back by the library's decoder (entry order
        # inside the component is not part of the property: compared as sorted vectors)
        from props import c18_bytes
        out.append([o, _pvec(loc), [c18_bytes.read_back(h) for h in em.split(',')] if em else []])
    return out


def impl_obs(impl):
    out = []
    for rec in impl['trace']:
        if rec['ev'] == 'ss':
            continue
        o = ['M'] * rec['missing'] + [['E', v] for v in rec['emitted']]
        if rec.get('raised') and rec.get('comp') is not None:
            o = [['X', rec['raised']]] + o      # the handler raised: the model names the class that propagates
        # the model lists the callback after state update but emissions are separate events; order M then E
        # third item: the vectors carried by the emitted name components (the model's come from its own encoder)
        out.append([o, rec['local'], rec['emitted']])
    return out


# ------------------------------------------------------------------------------------- oracle
def _spec_vec(dec):
    """the vector a list of decoded entries denotes: entries lacking NodeId or SeqNo are not part of it;
    repeated ids: last wins"""
    d = {}
    for i, q in dec:
        if i is None or q is None or i == '':
            continue
        d[i] = q
    return d


def oracle(case, impl):
    """the property statement, evaluated on the implementation's observable behaviour"""
    self_id = impl['self_id']
    heard = None
    for k, rec in enumerate(impl['trace']):
        before = dict((a, b) for a, b in rec['local_before'])
        after = dict((a, b) for a, b in rec['local'])
        for i, q in before.items():
            if after.get(i, 0) < q:
                return f'event {k}: local vector decreased at {i}'
        if rec['ev'] in ('r', 'raw', 'badlen', 'comp'):
            dec = rec['decoded']
            accepted = isinstance(dec, list) and len(dec) > 0
            vec = {}
            if accepted:
                for i, q in dec:
                    if i == self_id and q is not None and q > rec['self_seq_before']:
                        accepted = False
                vec = _spec_vec(dec)
            if accepted:
                exp = dict(before)
                for i, q in vec.items():
                    if exp.get(i, 0) < q:
                        exp[i] = q
                # entries equal to 0 may or may not be materialised; compare as total functions
                keys = set(exp) | set(after)
                if any(exp.get(i, 0) != after.get(i, 0) for i in keys):
                    return f'event {k}: local vector is not the entry-wise maximum of previous and received vector'
                raised = any(before.get(i, 0) < q for i, q in vec.items())
            else:
                if before != after:
                    return f'event {k}: a vector that is not accepted changed the local vector'
                if rec['state'] != rec['state_before']:
                    return f'event {k}: a vector that is ignored started or ended a suppression period'
                raised = False
            if (rec['missing'] > 0) != raised:
                return f'event {k}: missing-data callback fired={rec["missing"]} but vector raised an entry={raised}'
            if rec['missing'] > 1:
                return f'event {k}: callback fired more than once'
            if rec['emitted']:
                return f'event {k}: sync Interest emitted while handling a received vector'
            if accepted:
                if rec['state_before'] == 'SyncSteady' and rec['state'] == 'SyncSuppression':
                    heard = [vec]
                elif rec['state_before'] == 'SyncSuppression' and heard is not None:
                    heard.append(vec)
        elif rec['ev'] == 'p':
            heard = None
            if rec['self_seq'] != rec['self_seq_before'] + 1:
                return f'event {k}: publish did not increase the sequence number by one'
            if after.get(self_id) != rec['self_seq']:
                return f'event {k}: local vector does not carry the new sequence number'
            if rec['emitted'] != [rec['local']]:
                return f'event {k}: publish did not promptly emit exactly one sync Interest with the full vector'
        elif rec['ev'] == 'ss':
            if before != after or rec['self_seq'] != rec['self_seq_before']:
                return f'event {k}: stopping and starting again changed the local vector'
            if rec['missing']:
                return f'event {k}: missing-data callback fired without a received vector'
            if rec['state'] != rec['state_before']:
                heard = None
        elif rec['ev'] == 't':
            if rec['state_before'] == 'SyncSuppression' and heard is not None:
                merged = {}
                for v in heard:
                    for i, q in v.items():
                        merged[i] = max(merged.get(i, 0), q)
                need = any(merged.get(i, 0) < q for i, q in after.items())
                if need != (len(rec['emitted']) > 0):
                    return (f'event {k}: after suppression emitted={len(rec["emitted"]) > 0} but local newer than '
                            f'merge of heard vectors={need}')
            for v in rec['emitted']:
                if v != rec['local']:
                    return f'event {k}: emitted vector is not the full local vector'
            heard = None
    if impl['loop_errors']:
        return f'background task error: {impl["loop_errors"][:2]}'
    return None


def nontrivial(case, impl):
    for rec in impl['trace']:
        if rec['missing'] or (rec['ev'] == 't' and rec['state_before'] == 'SyncSuppression'):
            return True
    return False


def tags(case, impl):
    t = []
    for rec in impl['trace']:
        t.append('ev:' + rec['ev'])
        if rec.get('raised'):
            t.append('handler-raised:' + rec['raised'])
        if rec['missing']:
            t.append('callback')
        if rec['ev'] == 't':
            t.append('timer-in-' + rec['state_before'] + ('-emit' if rec['emitted'] else '-silent'))
        if rec['ev'] in ('r', 'raw', 'comp') and not isinstance(rec.get('decoded'), list):
            t.append('undecodable')
        if rec['ev'] == 'comp':
            t.append('comp-accepted' if rec['missing'] or rec['local'] != rec['local_before'] else 'comp-no-change')
    for e in case['events']:
        if e[0] == 'comp' and len(e) > 2:
            t.append('mut:' + e[2])
    t.append('len:%d' % len(case['events']))
    return t


def finding_key(case, impl, why):
    import re
    w = re.sub(r'event \d+: ', '', why)
    w = re.sub(r'[^a-zA-Z]+', '-', w).strip('-').lower()
    return w[:60]

LEVEL_TEXT = ('Lean 4 theorems over a hand-written model of SvsInst (sync_handler, aggregate, on_timer decision, new_data): '
              'entry-wise-max merge, monotonicity over all histories, over-claim ignored, callback iff raised, publish emits, '
              'suppression emission iff local newer than merge of heard vectors (invariant over every event history). '
              'Byte-level half, by composition with the proved generic TLV codec (C08 round trip, C07 decoder totality): '
              'the handler on the bytes of the name component is the model on the decoded entries for every byte string, '
              'with the exact classes it catches (regenerated from the except clause) and those that propagate; what a node '
              'emits after publishing decodes at the peer to exactly its local vector; feeding node A\'s emitted bytes to '
              'node B raises B\'s entries to at least A\'s. Well-formedness of the local vector (node ids = encoded non-empty '
              'names of single-TLV components, sequence numbers < 2^64) - the hypothesis of these encode-side theorems - is '
              'proved to be an invariant over every history of arbitrary received bytes (< 2^64 long), publications and timer '
              'expiries from start() (the decoder only delivers well-formed entries: C08.parse_wf), so the *_reachable '
              'versions need no such hypothesis; the one bound left is own sequence number + 1 < 2^64 before a publication. '
              'The model is tied to the code on every run by differential execution of the compiled model against the real '
              'SvsInst on a virtual-time asyncio loop, plus the property oracle evaluated on the implementation.')
LEVEL_NOTE = ('Proof is about the model; model=code is sampled (differential testing), not proved. Timer expiry is an abstract '
              'event. Received vectors reach the model as component bytes (decoded by the model\'s own generic decoder, compared '
              'with the library\'s on every case); the components the model\'s encoder emits are read back by the library\'s decoder.')
TECHNIQUE = 'Lean 4 proof (induction over event histories, ghost-state invariant) + model/implementation correspondence check'
DESIGN_REF = 'DESIGN.md section 7, C18'
