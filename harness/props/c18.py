"""C18 — state-vector sync (src/ndn/app_support/svs/sync.py)."""
import random
import vloop

PROP = 'C18'
TITLE = 'State-vector sync merges monotonically and announces exactly when needed'
LEAN_TARGETS = ['NdnProofs.Props.C18']
THEOREMS = [
    'Ndn.C18.local_is_max', 'Ndn.C18.rejected_unchanged', 'Ndn.C18.local_monotone', 'Ndn.C18.run_monotone',
    'Ndn.C18.overclaim_ignored_entirely', 'Ndn.C18.callback_iff_raised',
    'Ndn.C18.publish_increments_and_emits_full', 'Ndn.C18.suppression_emit_iff', 'Ndn.C18.steady_timer_emits',
]
PARTIAL = {}
TRUSTED = [
    'C18: time is abstracted - the timer expiry is an event of the model; asyncio wait_for/Event semantics are exercised only by the correspondence (virtual-time loop)',
    'C18: vectors enter the model after StateVecWrapper.parse (the TLV codec is property C08); a vector with repeated node ids denotes the dict built from its entries (last entry wins)',
]
RULE = ('histories of 1..14 events over 4 node ids: received vectors (newer/older/incomparable/unknown nodes/'
        'over-claiming/duplicate ids/entries without NodeId or SeqNo/empty/undecodable bytes/wrong name length), '
        'publications and timer expiries; non-trivial = the history contains at least one accepted vector that '
        'raises an entry or an emission decision taken in suppression; distinct = distinct event lists')

BASE = '/sync'
NODES = ['/n0', '/n1', '/n2', '/n3']


def _imports():
    from ndn import encoding as enc
    from ndn.app_support.svs import sync as svs_sync
    from ndn.app_support.svs.tlv import StateVec, StateVecWrapper, StateVecEntry
    return enc, svs_sync, StateVec, StateVecWrapper, StateVecEntry


# ------------------------------------------------------------------------------------- cases
def _vector(rng, seqs_hint):
    k = rng.choice([1, 1, 2, 2, 3, 4])
    es = []
    for _ in range(k):
        r = rng.random()
        nid = rng.choice(NODES)
        base = seqs_hint.get(nid, 0)
        seq = max(0, base + rng.choice([-2, -1, 0, 0, 1, 1, 2, 5]))
        if r < 0.05:
            es.append([None, seq])
        elif r < 0.10:
            es.append([nid, None])
        else:
            es.append([nid, seq])
            if rng.random() < 0.7:
                seqs_hint[nid] = max(base, seq)
    return es


def _exhaustive(max_len):
    """every history of up to max_len events over a small alphabet chosen to hit each branch of the handler:
    newer / older / unknown-node / over-claiming / two-entry vectors, publish, timer"""
    import itertools
    alphabet = [['r', [['/n1', 2]]], ['r', [['/n1', 1]]], ['r', [['/n2', 1], ['/n1', 3]]], ['r', [['/n0', 9]]],
                ['r', [['/n1', 1], ['/n0', 1]]], ['p'], ['t']]
    for n in range(1, max_len + 1):
        for evs in itertools.product(alphabet, repeat=n):
            yield {'seq0': 1, 'events': [list(e) for e in evs]}


def cases(rng, tier):
    if tier == 'thorough':
        # exhaustive small scope first (7 + 49 + 343 + 2401 + 16807 histories), then the random stream
        yield from _exhaustive(5)
    n = 400 if tier == 'quick' else 12000
    for _ in range(n):
        seq0 = rng.choice([0, 0, 1, 3, 7])
        hint = {'/n0': seq0}
        evs = []
        for _ in range(rng.randint(1, 14)):
            r = rng.random()
            if r < 0.55:
                evs.append(['r', _vector(rng, hint)])
            elif r < 0.70:
                evs.append(['p'])
                hint['/n0'] = hint.get('/n0', 0) + 1
            elif r < 0.90:
                evs.append(['t'])
            elif r < 0.93:
                evs.append(['r', []])
            elif r < 0.97:
                evs.append(['raw', bytes(rng.randrange(256) for _ in range(rng.randint(0, 8))).hex()])
            else:
                evs.append(['badlen'])
        yield {'seq0': seq0, 'events': evs}


def shrink(case):
    evs = case['events']
    for i in range(len(evs)):
        yield {'seq0': case['seq0'], 'events': evs[:i] + evs[i + 1:]}
    for i, e in enumerate(evs):
        if e[0] == 'r' and len(e[1]) > 1:
            for j in range(len(e[1])):
                yield {'seq0': case['seq0'], 'events': evs[:i] + [['r', e[1][:j] + e[1][j + 1:]]] + evs[i + 1:]}
    if case['seq0'] > 0:
        yield {'seq0': 0, 'events': evs}


# -------------------------------------------------------------------------------- implementation
class _FakeApp:
    def __init__(self):
        self.sent = []

    def attach_handler(self, *a, **k):
        pass

    def detach_handler(self, *a, **k):
        pass

    def express(self, name, validator, **kw):
        self.sent.append(name)


def _canon_vec(d):
    return sorted([k.hex(), v] for k, v in d.items())


def run_impl(case):
    enc, svs_sync, StateVec, StateVecWrapper, StateVecEntry = _imports()
    rng = random.Random(1234)
    loop = vloop.new_loop()
    loop._vt = 1000.0

    class _T:
        time = staticmethod(lambda: loop.time())

    class _S:
        randbits = staticmethod(lambda n: rng.getrandbits(n))
    old = (svs_sync.time, svs_sync.secrets)
    svs_sync.time, svs_sync.secrets = _T, _S
    try:
        missing = []
        app = _FakeApp()
        inst = svs_sync.SvsInst(BASE, NODES[0], lambda i: missing.append(1), None, None,
                                last_used_seq_num=case['seq0'])
        loop.call_now(inst.start, app)
        app.sent.clear()
        base = enc.Name.normalize(BASE)
        self_id = enc.Name.to_bytes(NODES[0])
        trace = []
        for ev in case['events']:
            rec = {'ev': ev[0], 'state_before': inst.state.name, 'self_seq_before': inst.self_seq,
                   'local_before': _canon_vec(inst.local_sv)}
            missing.clear()
            app.sent.clear()
            exc = None
            if ev[0] in ('r', 'raw', 'badlen'):
                if ev[0] == 'r':
                    pkt = StateVecWrapper()
                    pkt.val = StateVec()
                    pkt.val.entries = []
                    for nid, seq in ev[1]:
                        e = StateVecEntry()
                        e.node_id = nid
                        e.seq_no = seq
                        pkt.val.entries.append(e)
                    comp = bytes(pkt.encode())
                elif ev[0] == 'raw':
                    comp = enc.Component.from_bytes(bytes.fromhex(ev[1]), 0xc9)
                else:
                    comp = enc.Component.from_bytes(b'', 0xc9)
                name = base + [comp, enc.Component.from_bytes(b'\x00' * 32, 2)]
                if ev[0] == 'badlen':
                    name = base + [comp]
                # what the vector decodes to, by the library's own decoder (C08 is the codec property)
                dec = None
                if ev[0] != 'badlen':
                    try:
                        v = StateVecWrapper.parse(comp).val
                        dec = [] if v is None or not v.entries else [
                            [bytes(enc.Name.to_bytes(e.node_id)).hex() if e.node_id is not None else None, e.seq_no]
                            for e in v.entries]
                    except (enc.DecodeError, IndexError):
                        dec = None
                    except Exception as e:       # noqa - the handler will raise the same
                        dec = 'raises:' + type(e).__name__
                rec['decoded'] = dec
                try:
                    loop.call_now(inst.sync_handler, name, None, None, None)
                except Exception as e:           # noqa
                    exc = type(e).__name__
            elif ev[0] == 'p':
                loop.call_now(inst.new_data)
            elif ev[0] == 't':
                loop.advance(max(inst.next_sync_timing, loop.time()) + 1e-3)
            rec['raised'] = exc
            rec['missing'] = len(missing)
            emitted = []
            for nm in app.sent:
                v = StateVecWrapper.parse(nm[-1]).val
                emitted.append(sorted([bytes(enc.Name.to_bytes(e.node_id)).hex(), e.seq_no] for e in (v.entries if v else [])))
            rec['emitted'] = emitted
            rec['local'] = _canon_vec(inst.local_sv)
            rec['state'] = inst.state.name
            rec['self_seq'] = inst.self_seq
            trace.append(rec)
        inst.stop()
        return {'self_id': bytes(self_id).hex(), 'trace': trace, 'loop_errors': loop.errors}
    finally:
        svs_sync.time, svs_sync.secrets = old
        loop.shutdown()


# ------------------------------------------------------------------------------------- model
def model_line(case, impl):
    toks = []
    for rec in impl['trace']:
        if rec['ev'] in ('r', 'raw', 'badlen'):
            dec = rec['decoded']
            if dec is None or isinstance(dec, str):
                toks.append('u')
            else:
                toks.append('r:' + '|'.join(f"{'~' if i is None else i}/{'~' if q is None else q}" for i, q in dec))
        else:
            toks.append(rec['ev'])
    return f"C18 {impl['self_id']} {case['seq0']} {';'.join(toks) if toks else '.'}"


def _pvec(s):
    if s == '.':
        return []
    return sorted([a.split(':')[0], int(a.split(':')[1])] for a in s.split(','))


def model_obs(answer, case, impl):
    assert answer.startswith('ok'), answer
    out = []
    for tok in answer.split()[1:]:
        outs, loc = tok.split('@')
        o = []
        if outs != '-':
            for x in outs.split('+'):
                o.append('M' if x == 'M' else ['E', _pvec(x[2:-1])])
        out.append([o, _pvec(loc)])
    return out


def impl_obs(impl):
    out = []
    for rec in impl['trace']:
        o = ['M'] * rec['missing'] + [['E', v] for v in rec['emitted']]
        # the model lists the callback after state update but emissions are separate events; order M then E
        out.append([o, rec['local']])
    return out


# ------------------------------------------------------------------------------------- oracle
def _spec_vec(dec):
    """the vector a list of decoded entries denotes: entries lacking NodeId or SeqNo are not part of it;
    repeated ids: last wins"""
    d = {}
    for i, q in dec:
        if i is None or q is None or i == '':
            continue
        d[i] = q
    return d


def oracle(case, impl):
    """the property statement, evaluated on the implementation's observable behaviour"""
    self_id = impl['self_id']
    heard = None
    for k, rec in enumerate(impl['trace']):
        before = dict((a, b) for a, b in rec['local_before'])
        after = dict((a, b) for a, b in rec['local'])
        for i, q in before.items():
            if after.get(i, 0) < q:
                return f'event {k}: local vector decreased at {i}'
        if rec['ev'] in ('r', 'raw', 'badlen'):
            dec = rec['decoded']
            accepted = isinstance(dec, list) and len(dec) > 0
            vec = {}
            if accepted:
                for i, q in dec:
                    if i == self_id and q is not None and q > rec['self_seq_before']:
                        accepted = False
                vec = _spec_vec(dec)
            if accepted:
                exp = dict(before)
                for i, q in vec.items():
                    if exp.get(i, 0) < q:
                        exp[i] = q
                # entries equal to 0 may or may not be materialised; compare as total functions
                keys = set(exp) | set(after)
                if any(exp.get(i, 0) != after.get(i, 0) for i in keys):
                    return f'event {k}: local vector is not the entry-wise maximum of previous and received vector'
                raised = any(before.get(i, 0) < q for i, q in vec.items())
            else:
                if before != after:
                    return f'event {k}: a vector that is not accepted changed the local vector'
                raised = False
            if (rec['missing'] > 0) != raised:
                return f'event {k}: missing-data callback fired={rec["missing"]} but vector raised an entry={raised}'
            if rec['missing'] > 1:
                return f'event {k}: callback fired more than once'
            if rec['emitted']:
                return f'event {k}: sync Interest emitted while handling a received vector'
            if accepted:
                if rec['state_before'] == 'SyncSteady' and rec['state'] == 'SyncSuppression':
                    heard = [vec]
                elif rec['state_before'] == 'SyncSuppression' and heard is not None:
                    heard.append(vec)
        elif rec['ev'] == 'p':
            heard = None
            if rec['self_seq'] != rec['self_seq_before'] + 1:
                return f'event {k}: publish did not increase the sequence number by one'
            if after.get(self_id) != rec['self_seq']:
                return f'event {k}: local vector does not carry the new sequence number'
            if rec['emitted'] != [rec['local']]:
                return f'event {k}: publish did not promptly emit exactly one sync Interest with the full vector'
        elif rec['ev'] == 't':
            if rec['state_before'] == 'SyncSuppression' and heard is not None:
                merged = {}
                for v in heard:
                    for i, q in v.items():
                        merged[i] = max(merged.get(i, 0), q)
                need = any(merged.get(i, 0) < q for i, q in after.items())
                if need != (len(rec['emitted']) > 0):
                    return (f'event {k}: after suppression emitted={len(rec["emitted"]) > 0} but local newer than '
                            f'merge of heard vectors={need}')
            for v in rec['emitted']:
                if v != rec['local']:
                    return f'event {k}: emitted vector is not the full local vector'
            heard = None
    if impl['loop_errors']:
        return f'background task error: {impl["loop_errors"][:2]}'
    return None


def nontrivial(case, impl):
    for rec in impl['trace']:
        if rec['missing'] or (rec['ev'] == 't' and rec['state_before'] == 'SyncSuppression'):
            return True
    return False


def tags(case, impl):
    t = []
    for rec in impl['trace']:
        t.append('ev:' + rec['ev'])
        if rec.get('raised'):
            t.append('handler-raised:' + rec['raised'])
        if rec['missing']:
            t.append('callback')
        if rec['ev'] == 't':
            t.append('timer-in-' + rec['state_before'] + ('-emit' if rec['emitted'] else '-silent'))
        if rec['ev'] in ('r', 'raw') and rec.get('decoded') is None:
            t.append('undecodable')
    t.append('len:%d' % len(case['events']))
    return t


def finding_key(case, impl, why):
    import re
    w = re.sub(r'event \d+: ', '', why)
    w = re.sub(r'[^a-zA-Z]+', '-', w).strip('-').lower()
    return w[:60]

LEVEL_TEXT = ('Lean 4 theorems over a hand-written model of SvsInst (sync_handler, aggregate, on_timer decision, new_data): '
              'entry-wise-max merge, monotonicity over all histories, over-claim ignored, callback iff raised, publish emits, '
              'suppression emission iff local newer than merge of heard vectors (invariant over every event history). '
              'The model is tied to the code on every run by differential execution of the compiled model against the real '
              'SvsInst on a virtual-time asyncio loop, plus the property oracle evaluated on the implementation.')
LEVEL_NOTE = ('Proof is about the model; model=code is sampled (differential testing), not proved. Timer expiry is an abstract '
              'event; decoding of vectors is delegated to the library codec (C08).')
TECHNIQUE = 'Lean 4 proof (induction over event histories, ghost-state invariant) + model/implementation correspondence check'
DESIGN_REF = 'DESIGN.md section 7, C18'
