"""C18 — state-vector sync (src/ndn/app_support/svs/sync.py)."""
import random
import vloop

PROP = 'C18'
TITLE = 'State-vector sync merges monotonically and announces exactly when needed'
LEAN_TARGETS = ['NdnProofs.Props.C18']
THEOREMS = [
    'Ndn.C18.local_is_max', 'Ndn.C18.rejected_unchanged', 'Ndn.C18.local_monotone', 'Ndn.C18.run_monotone',
    'Ndn.C18.overclaim_ignored_entirely', 'Ndn.C18.callback_iff_raised',
    'Ndn.C18.publish_increments_and_emits_full', 'Ndn.C18.suppression_emit_iff', 'Ndn.C18.steady_timer_emits',
    # byte-level half: the vector as the bytes of the name component (composition with the TLV codec, C08/C07)
    'Ndn.C18.vector_roundtrip', 'Ndn.C18.stepBytes_spec', 'Ndn.C18.stepB_refines', 'Ndn.C18.run_monotone_bytes',
    'Ndn.C18.local_is_max_bytes', 'Ndn.C18.callback_iff_raised_bytes', 'Ndn.C18.emits_are_local',
    'Ndn.C18.publish_emits_decodable', 'Ndn.C18.vector_received', 'Ndn.C18.emitted_vector_is_received',
    'Ndn.C18.encodeVector_fails_only_oversize', 'Ndn.C18.source_tables_pinned',
    # well-formedness of the local vector is an invariant of the byte-level handler (decoder output is well-formed, C08.parse_wf)
    'Ndn.Svs.decodeVector_entries_wf', 'Ndn.Svs.step_wfVec', 'Ndn.C18.local_wf_invariant', 'Ndn.C18.reachable_wf',
    'Ndn.C18.reachable_step', 'Ndn.C18.vector_roundtrip_reachable', 'Ndn.C18.publish_emits_decodable_reachable',
    'Ndn.C18.emitted_vector_is_received_reachable', 'Ndn.C18.timer_emits_decodable_reachable',
    'Ndn.C18.local_vector_received_reachable', 'Ndn.C18.reachable_loc_ne_nil',
    'Ndn.C18.encodeVector_reachable_fails_only_oversize',
    # re-entrancy (the application publishes from inside the missing-data callback) and the timer task: the handler
    # statement by statement with next_sync_timing / timer_rst_event in the state (Ndn.Svs.stepX)
    'Ndn.C18.stepX_refines_step', 'Ndn.C18.timer_task_at_rest', 'Ndn.C18.recvPub_state_eq_recv_then_publishes',
    'Ndn.C18.recvPub_eq_recv_then_publish', 'Ndn.C18.callback_publish_increments_and_emits_full',
    'Ndn.C18.local_is_max_x', 'Ndn.C18.local_monotone_x', 'Ndn.C18.run_monotone_x', 'Ndn.C18.callback_iff_raised_x',
    'Ndn.C18.suppression_emit_iff_x', 'Ndn.C18.callback_before_bookkeeping_delays_announcement',
    'Ndn.C18.stepXB_refines', 'Ndn.C18.reentrant_state_reset_unobservable',
]
PARTIAL = {}
TRUSTED = [
    'C18: time is abstracted - next_sync_timing is one of (a steady period, a suppression period, now), the expiry of a period is an event of the model, and the timer task is modelled as: runs after the handler has returned; reset event set -> cleared and the timeout recomputed from next_sync_timing, a timeout of 0 expires at once (Ndn.Svs.settle / fire); asyncio wait_for/Event semantics behind that are exercised only by the correspondence (virtual-time loop)',
    'C18: the application callback is modelled as: k calls of new_data(), then return or raise; other re-entrant uses of the instance from inside the callback (stop(), start(), express_sync_interest()) are not events of the model',
    'C18: a received vector enters the model as the bytes of the name component name[-2]; the model decodes them with the generic TLV decoder (Ndn.Codec.parse, the function the C07/C08 theorems are about) over the StateVecWrapper schema regenerated from the live class, and catches the classes of the regenerated `except` clause; the name-length test before it (len(name) == len(prefix) + 2) is an event of its own (undecodable); the component is one complete TLV element, as Name.decode delivers it (on other byte strings the error log of the handler, Name.to_str(name) evaluated inside the except clause, can itself raise ValueError)',
    'C18: a vector with repeated node ids denotes the dict built from its entries (last entry wins); an entry whose name is empty is skipped like one without a name',
]
RULE = ('histories of 1..14 events over 4 node ids: received vectors (newer/older/incomparable/unknown nodes/'
        'over-claiming/duplicate ids/entries without NodeId or SeqNo/empty/undecodable bytes/wrong name length; every vector '
        'is handed to the model as the component bytes, and a separate stream mutates valid encodings: unknown critical / '
        'non-critical elements, illegal integer widths, non-minimal Type/Length, truncation, swapped fields, empty or '
        'mistyped names, other outer types, random bytes; always one complete TLV element), '
        'publications and timer expiries; a targeted stream: the own node id repeated in one vector (over-claiming first / '
        'last / in the middle), sequence numbers up to 2^64-1, stop/start cycles, a vector or a publication arriving at the '
        'instant the timer is due, over-claiming vectors inside a suppression period; non-trivial = the history contains at least one accepted vector that '
        'raises an entry or an emission decision taken in suppression; distinct = distinct event lists; a constructor stream: '
        'every constructor argument varied (last_used_seq_num 0 / 1 / 41 / around 2^32 / 2^64-4 / 2^64-2 / -1, sync and suppression '
        'intervals, base prefix and node id as URI / component list / encoded bytes / alternate URI spelling, typed components, '
        'the root name as node id for publications only), publications BEFORE start(), between stop() and start() and '
        'immediately after start(), separate stop / start events, express_sync_interest() called by the application, a twin '
        'instance used before this one is built; a re-entrancy stream: the missing-data callback calls new_data() 1..3 times and '
        'returns or raises (or raises without publishing), in the steady state and inside a suppression period, for vectors '
        'that raise one or several entries / raise nothing / over-claim / name unknown nodes / are outdated elsewhere, followed '
        'by timer expiries; the model answers emissions, local vector, protocol state and the period the timer waits for, '
        'compared after every event of every stream; a node-id stream: node ids (and the sync prefix) are NAMES - components of '
        'every type 1..65535 and any bytes of any length (digest-typed components of a length other than 32, typed-number '
        'components of widths 0..16, empty, 252..1000-byte (thorough: up to 70000-byte) and non-UTF-8 values, values that look '
        'like URI syntax or TLV), written by the harness\'s own TLV writer, as ids of received vectors (first / middle / last '
        'entry; raised, outdated, equal), as the local node id (handed over as component list / encoded name / escaped URI; '
        'publications, echoes, over-claims) and as the sync prefix; pools contain relatives of an id (same values under '
        'another type, prefix, extension, reversed, last byte changed) which must stay distinct nodes')

BASE = '/sync'
NODES = ['/n0', '/n1', '/n2', '/n3']


def _imports():
    from ndn import encoding as enc
    from ndn.app_support.svs import sync as svs_sync
    from ndn.app_support.svs.tlv import StateVec, StateVecWrapper, StateVecEntry
    return enc, svs_sync, StateVec, StateVecWrapper, StateVecEntry


def extract(repo):
    from props import c18_bytes
    return c18_bytes.extract_text(repo)


# ------------------------------------------------------------------------------------- cases
def _vector(rng, seqs_hint, nodes=None):
    k = rng.choice([1, 1, 2, 2, 3, 4])
    es = []
    for _ in range(k):
        r = rng.random()
        nid = rng.choice(nodes or NODES)
        base = seqs_hint.get(nid, 0)
        seq = min(2**64 - 1, max(0, base + rng.choice([-2, -1, 0, 0, 1, 1, 2, 5])))
        if rng.random() < 0.04:
            seq = rng.choice(BIG_SEQS)          # sequence numbers needing 5- and 9-byte integers
        if r < 0.05:
            es.append([None, seq])
        elif r < 0.10:
            es.append([nid, None])
        else:
            es.append([nid, seq])
            if rng.random() < 0.7:
                seqs_hint[nid] = max(base, seq)
    return es


def _exhaustive(max_len):
    """every history of up to max_len events over a small alphabet chosen to hit each branch of the handler:
    newer / older / unknown-node / over-claiming / two-entry vectors, publish, timer"""
    import itertools
    alphabet = [['r', [['/n1', 2]]], ['r', [['/n1', 1]]], ['r', [['/n2', 1], ['/n1', 3]]], ['r', [['/n0', 9]]],
                ['r', [['/n1', 1], ['/n0', 1]]], ['p'], ['t']]
    for n in range(1, max_len + 1):
        for evs in itertools.product(alphabet, repeat=n):
            yield {'seq0': 1, 'events': [list(e) for e in evs]}


BIG_SEQS = [2**32 - 1, 2**32, 2**32 + 1, 2**63, 2**64 - 2, 2**64 - 1]


def _targeted():
    """dimensions the random stream reaches rarely or never: the own node id repeated inside one vector (over-claiming in
    the first / last / middle entry, with raising entries before and after), sequence numbers >= 2^32, stop/start cycles
    (a restart must keep the vector, the state and a single timer), a vector or a publication arriving at the very instant
    the timer is due, over-claiming vectors in steady state and inside a suppression period followed by the timer"""
    me, a, b = NODES[0], NODES[1], NODES[2]
    for seq0 in (0, 2):
        over, ok = seq0 + 1, seq0
        dups = [[[me, ok], [me, over]], [[me, over], [me, ok]], [[a, 4], [me, over], [b, 3], [me, ok]],
                [[me, ok], [a, 4], [me, ok]], [[a, 4], [me, ok], [a, 2]], [[a, 2], [a, 4], [me, over]],
                [[me, over], [a, 4]], [[a, 4], [me, over]]]
        for v in dups:
            yield {'seq0': seq0, 'events': [['r', v], ['t'], ['p'], ['r', [[a, 1]]], ['r', v], ['t']]}
            yield {'seq0': seq0, 'events': [['r', [[a, 9], [b, 9]]], ['t'], ['r', [[a, 1]]], ['r', v], ['t']]}
        # an over-claiming vector inside a suppression period must not count as heard
        yield {'seq0': seq0, 'events': [['r', [[a, 9], [b, 9]]], ['t'], ['r', [[a, 1]]], ['r', [[a, 9], [b, 9], [me, over]]], ['t']]}
        yield {'seq0': seq0, 'events': [['r', [[a, 9]]], ['t'], ['r', [[me, over], [a, 9]]], ['t'], ['r', [[a, 9], [me, ok]]], ['t']]}
        for big in BIG_SEQS:
            yield {'seq0': seq0, 'events': [['r', [[a, big]]], ['r', [[a, big - 1], [b, 1]]], ['t'], ['r', [[a, big]]], ['t']]}
            yield {'seq0': seq0, 'events': [['r', [[a, 2**32 - 2]]], ['r', [[a, big]]], ['r', [[a, 5]]], ['t'], ['p']]}
            yield {'seq0': seq0, 'events': [['r', [[me, big]]], ['t'], ['p'], ['t']]}
        yield {'seq0': seq0, 'events': [['ss'], ['p'], ['t'], ['ss'], ['ss'], ['p'], ['r', [[a, 3]]], ['t']]}
        yield {'seq0': seq0, 'events': [['r', [[a, 3]]], ['t'], ['r', [[a, 1]]], ['ss'], ['t'], ['p'], ['t']]}
        yield {'seq0': seq0, 'events': [['r', [[a, 3]]], ['ss'], ['r', [[a, 1]]], ['r', [[a, 3]]], ['ss'], ['t'], ['t']]}
        yield {'seq0': seq0, 'events': [['p'], ['ss'], ['r', [[me, seq0]]], ['t'], ['ss'], ['p']]}
        for first in (['r', [[a, 3]]], ['r', [[a, 3]]], ['p']):
            for at in (['r@', [[a, 1]]], ['r@', [[a, 3]]], ['r@', [[a, 5]]], ['r@', [[me, seq0 + 5]]], ['r@', []], ['p@']):
                yield {'seq0': seq0, 'events': [first, ['t'], at, ['t'], ['p'], ['t']]}
                yield {'seq0': seq0, 'events': [first, ['t'], ['r', [[a, 1]]], at, ['t'], ['r', [[b, 1]]], at, ['t']]}


# constructor arguments: (canonical URI of the node id, what is handed to the constructor)
ME_FORMS = [['/n0', {'str': '/n0'}], ['/n0', {'str': '/8=n0'}], ['/n0', {'list': ['n0']}], ['/n0', {'bytes': '/n0'}],
            ['/n0', {'str': '/%6E0'}], ['/alice/seg=3/v=1', {'str': '/alice/seg=3/v=1'}],
            ['/alice/seg=3/v=1', {'str': '/alice/50=%03/54=%01'}], ['/32=kw/%00/n', {'bytes': '/32=kw/%00/n'}],
            ['/a/b/c/d', {'list': ['a', 'b', 'c', 'd']}]]
BASE_FORMS = [{'str': '/sync'}, {'str': '/'}, {'list': ['ndn', 'svs', '32=group']}, {'str': '/ndn/svs/v=2/32=sync'},
              {'bytes': '/grp/sync'}, {'str': '/8=sync'}]
INTERVALS = [None, [30, 0.2], [1.0, 0.05], [600, 5.0], [0.5, 0.4], [2, 3.0]]
RESUMED = [0, 1, 41, 2**32 - 1, 2**32, 2**63, 2**64 - 4]


def _ctor(i):
    me, arg = ME_FORMS[i % len(ME_FORMS)]
    c = {'me': me, 'me_arg': arg, 'base_arg': BASE_FORMS[(i // 2) % len(BASE_FORMS)],
         'intervals': INTERVALS[(i // 3) % len(INTERVALS)]}
    if i % 4 == 1:
        c['twin'] = True
    return c


def _resumed():
    """a RESUMED node (last_used_seq_num != 0) and the other constructor arguments; publications before start(),
    between stop() and start(), immediately after start(); separate stop / start; express_sync_interest() by hand"""
    i = 0
    for seq0 in RESUMED:
        for ci in range(3):
            c = _ctor(i)
            i += 1
            me = c['me']
            a, b = NODES[1], NODES[2]
            pats = [
                # publish, then start: the vector handed out claims seq0+1, which a peer echoes back
                (True, [['p'], ['start'], ['r', [[me, seq0 + 1], [a, 3]]], ['t'], ['r', [[me, seq0 + 2], [a, 9]]], ['p'], ['t']]),
                (True, [['p'], ['p'], ['start'], ['t'], ['r', [[a, 2]]], ['r', [[me, seq0 + 2], [b, 1]]], ['t']]),
                (True, [['start'], ['p'], ['r', [[me, seq0 + 1], [a, 3]]], ['t'], ['x'], ['t']]),
                (True, [['stop'], ['p'], ['stop'], ['start'], ['r', [[me, seq0], [a, 1]]], ['r', [[me, seq0 + 1], [b, 2]]], ['t']]),
                (False, [['p'], ['stop'], ['p'], ['start'], ['r', [[me, seq0 + 2], [b, 4]]], ['t'], ['stop'], ['start'], ['p']]),
                (False, [['r', [[me, seq0], [a, 5]]], ['stop'], ['p'], ['x'], ['start'], ['r', [[a, 1]]], ['t'], ['r', [[me, seq0 + 1]]]]),
                (False, [['r', [[a, 5]]], ['t'], ['r', [[a, 1]]], ['stop'], ['p'], ['start'], ['t'], ['r', [[me, seq0 + 1], [a, 6]]]]),
            ]
            for late, evs in pats[ci::3] + ([pats[0]] if ci else []):
                d = dict(c)
                d.update({'seq0': seq0, 'events': evs})
                if late:
                    d['late_start'] = True
                yield d
    # the last number an 8-byte integer can carry
    top = 2**64 - 2
    yield {'seq0': top, 'late_start': True, 'events': [['p'], ['start'], ['r', [[NODES[0], top + 1], [NODES[1], 1]]], ['t']]}
    yield {'seq0': top, 'events': [['r', [[NODES[0], top + 1], [NODES[1], 1]]], ['stop'], ['p'], ['start'], ['r', [[NODES[0], top + 1], [NODES[1], 1]]], ['t']]}
    # last_used_seq_num = -1 (start() leaves the own entry out; the first publication is number 0): publications and
    # vectors about OTHER nodes only
    a = NODES[1]
    yield {'seq0': -1, 'events': [['p'], ['t'], ['r', [[a, 2]]], ['p'], ['t']]}
    yield {'seq0': -1, 'late_start': True, 'events': [['p'], ['start'], ['r', [[a, 2]]], ['t'], ['p']]}
    # the root name as node id: publications and timers only (an entry with an empty name does not name a node on the
    # wire, so received vectors cannot mention it: see report)
    for seq0 in (0, 41):
        yield {'seq0': seq0, 'me': '/', 'me_arg': {'str': '/'}, 'late_start': True,
               'events': [['p'], ['start'], ['r', [[a, 2]]], ['t'], ['p'], ['r', [[a, 1]]], ['t']]}


def _ctor_random(rng, n):
    for _ in range(n):
        c = _ctor(rng.randrange(10000))
        me = c['me']
        nodes = [me] + NODES[1:]
        seq0 = rng.choice([0, 1, 3, 41, 41, 2**32 - 1, 10**12])
        c['seq0'] = seq0
        running = rng.random() < 0.5
        if not running:
            c['late_start'] = True
        started = running
        hint = {me: seq0}
        evs = []
        for _ in range(rng.randint(2, 12)):
            r = rng.random()
            if not running:
                if r < 0.5:
                    evs.append(['p'])
                    hint[me] += 1
                elif r < 0.6:
                    evs.append(['stop'])
                elif r < 0.65 and started:
                    evs.append(['x'])
                else:
                    evs.append(['start'])
                    running = started = True
                continue
            if r < 0.45:
                v = _vector(rng, hint, nodes)
                if rng.random() < 0.3:
                    v.append([me, min(2**64 - 1, hint[me] + rng.choice([0, 0, 1]))])     # echo of the own entry / over-claim by one
                    rng.shuffle(v)
                evs.append(['r', v])
            elif r < 0.62:
                evs.append(['p'])
                hint[me] += 1
            elif r < 0.80:
                evs.append(['t'])
            elif r < 0.90:
                evs.append(['stop'])
                running = False
            elif r < 0.94:
                evs.append(['x'])
            else:
                evs.append(['ss'])
        c['events'] = evs
        yield c


# ------------------------------------------------------------------ node ids are NAMES: every legal component
# A node id (and the sync prefix) is an NDN name, so its components may be of any type 1..65535 and carry any bytes of
# any length.  Explicit ids are written '~<type>:<value hex>/...' (c18_bytes.nid_comps) and are encoded by the harness's
# own TLV writer, never by the library.
NUM_TYPES = [50, 52, 54, 56, 58]            # segment, byte offset, version, timestamp, sequence number
OTHER_TYPES = [3, 4, 5, 6, 7, 9, 16, 31, 33, 127, 252, 253, 254, 255, 256, 1000, 0x7fff, 0xfffe, 0xffff]
SPECIAL_VALUES = [b'', b'.', b'..', b'...', b'....', b'%', b'=', b'/', b'a/b', b'8=a', b'%41', b' ', b'\x00', b'\x00\x00',
                  b'\xff', b'\xff\xfe', b'\x80', b'\xc3', b'\xc3\x28', b'\xed\xa0\x80', b'\xf8\x88\x80\x80\x80',
                  'Σπ'.encode(), b'n0', b'n1', b'\x07\x03\x08\x01a', b'\x08\x01a', b'sha256digest=00', b'seg=1',
                  b'\n', b'\r\n', b'{}', b'%s', b'\\x00', b'a' * 252, b'b' * 253, b'c' * 300, b'\x00' * 700]


def _odd_components():
    """a fixed list of (type, value): every class once or a few times"""
    out = []
    for t in (1, 2):
        for n in (0, 1, 3, 16, 31, 33, 64):
            out.append((t, bytes((7 * i + n) % 256 for i in range(n))))
    for k, t in enumerate(NUM_TYPES):
        for n in (0, 3, 5, 6, 7, 9, 16)[k % 2::2] + (1, 2, 4, 8)[k % 4:k % 4 + 1]:
            out.append((t, bytes([0] * (n - 1) + [3]) if n else b''))
    out.append((50, b'\xff' * 8))
    out.append((58, b'\x00' * 8))
    for t in OTHER_TYPES:
        out.append((t, b'x'))
    for v in SPECIAL_VALUES:
        out.append((8, v))
    out += [(32, b''), (32, b'\xff\x00'), (1, b'\x00' * 32), (2, b'\xff' * 32), (0xffff, b''), (253, b'd' * 253)]
    return out


def _odd_component(rng, big=False):
    r = rng.random()
    if r < 0.25:
        t, n = rng.choice([1, 2]), rng.choice([0, 1, 2, 3, 8, 16, 20, 31, 32, 32, 33, 48, 64])
    elif r < 0.45:
        t, n = rng.choice(NUM_TYPES), rng.choice([0, 1, 2, 3, 4, 5, 6, 7, 8, 9, 12, 16])
    elif r < 0.55:
        t, n = rng.choice([32, 8]), rng.choice([0, 1, 2, 5])
    elif r < 0.75:
        return [8, rng.choice(SPECIAL_VALUES)]
    else:
        t, n = rng.choice(OTHER_TYPES + [rng.randint(1, 0xffff)]), rng.choice([0, 1, 1, 2, 4, 32])
    if rng.random() < 0.04:
        n = rng.choice([252, 253, 254, 255, 256, 300, 1000] + ([65535, 65536, 70000] if big else []))
    c = rng.random()
    if c < 0.5:
        v = bytes(rng.randrange(256) for _ in range(n))
    elif c < 0.65:
        v = bytes([rng.choice([0, 0xff, 0x80, 0x2e, 0x25, 0x2f])]) * n
    elif c < 0.8:
        v = bytes(rng.choice(b'abn01.-_~%=/ ') for _ in range(n))
    else:
        v = (b'\x00' * n + bytes([rng.randrange(256)]))[-n:] if n else b''
    return [t, v]


def _odd_id(rng, big=False):
    """a name of 1..4 components, at least one of them unusual; plain generic components around it"""
    from props import c18_bytes
    k = rng.choice([1, 1, 2, 2, 3, 4])
    odd_at = rng.randrange(k)
    comps = []
    for i in range(k):
        if i == odd_at or rng.random() < 0.3:
            comps.append(_odd_component(rng, big))
        else:
            comps.append([8, rng.choice([b'n', b'node', b'x', b'n1', b'alice'])])
    return c18_bytes.nid_make(comps)


def _relative(rng, nid):
    """another name that a comparison by anything less than the full encoding confuses with `nid`: the same value under
    another type, a prefix, an extension, the components reversed, the last value one byte longer / shorter / flipped"""
    from props import c18_bytes
    ps = [list(p) for p in c18_bytes.nid_pairs(nid)]
    r = rng.randrange(8)
    if r == 0:
        j = rng.randrange(len(ps))
        ps[j][0] = rng.choice([t for t in [8, 32, 1, 2, 50, 54, 9, 0xffff] if t != ps[j][0]])
    elif r == 1 and len(ps) > 1:
        ps = ps[:-1]
    elif r == 2:
        ps = ps + [[8, b'']]
    elif r == 3 and len(ps) > 1 and ps != ps[::-1]:
        ps = ps[::-1]
    elif r == 4:
        ps[-1][1] = ps[-1][1] + b'\x00'
    elif r == 5 and ps[-1][1]:
        ps[-1][1] = ps[-1][1][:-1]
    elif r == 6 and ps[-1][1]:
        ps[-1][1] = ps[-1][1][:-1] + bytes([ps[-1][1][-1] ^ 0x20])
    else:
        ps = [[8, b'']] + ps
    return c18_bytes.nid_make(ps)


def _odd_pool(rng, big=False):
    pool = []
    while len(pool) < 4:
        nid = _relative(rng, rng.choice(pool)) if pool and rng.random() < 0.35 else _odd_id(rng, big)
        if nid not in pool and nid != '~':
            pool.append(nid)
    return pool


def _odd_me(rng, c, me):
    c['me'] = me
    c['me_arg'] = {rng.choice(['comps', 'comps', 'bytes', 'str']): me}
    return c


def _odd_targeted():
    """every unusual component class, as a single-component id and inside a longer id: in the MIDDLE of a received vector
    (entries before and after it, so that a merge that stops there shows), raised / outdated / equal; as the local node id
    with publications, echoes of the own entry, and a vector in which a SIBLING id (the same values, one component under
    another type) claims more than the own number; as a component of the sync prefix with a malformed vector and a
    wrong-length name (the paths that log the whole name)"""
    from props import c18_bytes
    a, b = NODES[1], NODES[2]
    for n, (t, v) in enumerate(_odd_components()):
        odd = c18_bytes.nid_make([(t, v)] if n % 2 else [(8, b'node'), (t, v), (8, b'x')])
        other = c18_bytes.nid_make([(8, b'node'), (t, v)] if n % 2 else [(t, v)])
        yield {'seq0': n % 3, 'events': [['r', [[a, 4], [odd, 5], [b, 7]]], ['r', [[odd, 3], [a, 6], [other, 1]]], ['t'],
                                         ['rp', [[b, 7], [odd, 6], [other, 2]], 1], ['t']]}
        if n % 3 == 0:
            sib = c18_bytes.nid_make([(p, w) if (p, w) != (t, v) else (32 if t == 8 else 8, v)
                                      for p, w in c18_bytes.nid_pairs(odd)])
            c = {'seq0': n % 4, 'me': odd, 'me_arg': {('comps', 'bytes', 'str')[(n // 3) % 3]: odd}}
            evs = [['p']]
            if n % 2 == 0:
                c['late_start'] = True
                evs = [['p'], ['start']]
            own = n % 4 + 1
            c['events'] = evs + [['r', [[a, 2], [odd, own], [sib, own + 2], [other, 3]]], ['t'],
                                 ['r', [[other, 1], [odd, own - 1], [a, 5]]], ['t'],
                                 ['r', [[a, 9], [odd, own + 1], [b, 9]]], ['x'], ['p'], ['t']]
            yield c
        if n % 6 == 1:
            yield {'seq0': 1, 'base_arg': {('comps', 'bytes', 'str')[(n // 6) % 3]: other + '/8:73796e63'},
                   'events': [['r', [[a, 4], [odd, 5]]], ['raw', 'ff'], ['badlen'], ['t'], ['r', [[odd, 1]]], ['raw', ''], ['t'], ['p']]}


def _odd_random(rng, n, big=False):
    """random histories over a pool of 4 unusual node ids (some of them relatives of each other); the local node id is one
    of them in most cases; received vectors as entries handed to the library's encoder and as (mutated) bytes written by
    the harness; callbacks that publish; an unusual sync prefix now and then"""
    from props import c18_bytes
    for _ in range(n):
        pool = _odd_pool(rng, big)
        c = {'seq0': rng.choice([0, 0, 1, 3])}
        me = NODES[0]
        if rng.random() < 0.6:
            me = pool[0]
            _odd_me(rng, c, me)
        nodes = [me] + pool[1:]
        if rng.random() < 0.15:
            c['base_arg'] = {rng.choice(['comps', 'bytes', 'str']): _odd_id(rng)}
        if rng.random() < 0.15:
            c['late_start'] = True
        hint = {me: c['seq0']}
        evs = [['start']] if c.get('late_start') and rng.random() < 0.5 else []
        for _ in range(rng.randint(2, 10)):
            r = rng.random()
            if r < 0.42:
                v = _vector(rng, hint, nodes)
                if rng.random() < 0.25:
                    v.append([me, min(2**64 - 1, hint[me] + rng.choice([0, 0, 1]))])
                    rng.shuffle(v)
                evs.append(['r', v])
            elif r < 0.52:
                kind = rng.choice(['rp', 'rx'])
                k = rng.choice([1, 2]) if kind == 'rp' else rng.choice([0, 1])
                evs.append([kind, _vector(rng, hint, nodes), k])
                hint[me] += k
            elif r < 0.62:
                bts, tag = c18_bytes.component(rng, _vector(rng, hint, nodes))
                evs.append(['comp', bts.hex(), tag])
            elif r < 0.76:
                evs.append(['p'])
                hint[me] += 1
            elif r < 0.93:
                evs.append(['t'])
            elif r < 0.96:
                evs.append(['start'] if c.get('late_start') else ['x'])
            elif r < 0.98:
                evs.append(['raw', bytes(rng.randrange(256) for _ in range(rng.randint(0, 4))).hex()])
            else:
                evs.append(['badlen'])
        c['events'] = evs
        yield c


def _heard_again(rng, n):
    """the SAME vector (identical bytes) heard more than once: ignored the first time for claiming more of this node's data
    than it has produced and acceptable after the publications made in between; accepted the first time and heard again;
    with and without a timer expiry / another vector in between.  Every reception is judged on the state at its time."""
    for _ in range(n):
        seq0 = rng.choice([0, 1, 3])
        k = rng.choice([1, 1, 2])
        v = [['/n0', seq0 + k]] + [['/n%d' % j, rng.randint(1, 9)] for j in rng.sample([1, 2, 3], rng.randint(1, 2))]
        if rng.random() < 0.3:
            v = v[1:]
        rng.shuffle(v)
        between = [['p'] for _ in range(rng.choice([k, k, k, max(0, k - 1), k + 1]))]
        if rng.random() < 0.4:
            between.insert(rng.randint(0, len(between)), ['t'])
        if rng.random() < 0.3:
            between.append(['r', [['/n%d' % rng.randint(1, 3), rng.randint(1, 9)]]])
        evs = [['r', v]] + between + [['r', v]]
        if rng.random() < 0.3:
            evs += [['t'], ['r', v]]
        yield {'seq0': seq0, 'events': evs}


def cases(rng, tier):
    yield from _targeted()
    yield from _heard_again(rng, 60 if tier == 'quick' else 3000)
    yield from _resumed()
    yield from _ctor_random(rng, 150 if tier == 'quick' else 4000)
    yield from _odd_targeted()
    yield from _odd_random(rng, 70 if tier == 'quick' else 6000, big=tier != 'quick')
    if tier == 'thorough':
        # exhaustive small scope first (7 + 49 + 343 + 2401 + 16807 histories), then the random stream
        yield from _exhaustive(5)
    yield from _byte_cases(rng, 150 if tier == 'quick' else 6000)
    n = 400 if tier == 'quick' else 12000
    for _ in range(n):
        seq0 = rng.choice([0, 0, 1, 3, 7])
        hint = {'/n0': seq0}
        evs = []
        for _ in range(rng.randint(1, 14)):
            r = rng.random()
            if r < 0.55:
                evs.append(['r', _vector(rng, hint)])
            elif r < 0.70:
                evs.append(['p'])
                hint['/n0'] = hint.get('/n0', 0) + 1
            elif r < 0.86:
                evs.append(['t'])
            elif r < 0.88:
                evs.append(['ss'])
            elif r < 0.90:
                evs.append(['r@', _vector(rng, hint)] if rng.random() < 0.7 else ['p@'])
                if evs[-1][0] == 'p@':
                    hint['/n0'] = hint.get('/n0', 0) + 1
            elif r < 0.93:
                evs.append(['r', []])
            elif r < 0.97:
                evs.append(['raw', bytes(rng.randrange(256) for _ in range(rng.randint(0, 8))).hex()])
            elif r < 0.975:
                from props import c18_bytes
                b, _tag = c18_bytes.component(rng, _vector(rng, hint))
                evs.append(['comp', b.hex(), _tag])
            else:
                evs.append(['badlen'])
        yield {'seq0': seq0, 'events': evs}
    # the application publishes from inside the missing-data callback (the callback only has to be non-blocking): the
    # publication must be announced promptly whatever the handler still does after the callback.  Model and oracle.
    yield from _reentrant()
    for _ in range(150 if tier == 'quick' else 4000):
        seq0 = rng.choice([0, 0, 1, 3])
        hint = {'/n0': seq0}
        evs = []
        for _ in range(rng.randint(1, 8)):
            r = rng.random()
            if r < 0.6:
                kind = rng.choice(['rp', 'rp', 'rx', 'r', 'r'])
                v = _vector(rng, hint)
                if kind == 'r':
                    evs.append(['r', v])
                else:
                    k = rng.choice([1, 1, 2, 3]) if kind == 'rp' else rng.choice([0, 1, 2])
                    evs.append([kind, v, k])
                    hint['/n0'] = hint.get('/n0', 0) + k       # (an upper bound: the callback may not fire)
            elif r < 0.75:
                evs.append(['p'])
                hint['/n0'] = hint.get('/n0', 0) + 1
            else:
                evs.append(['t'])
        if any(e[0] in ('rp', 'rx') for e in evs):
            yield {'seq0': seq0, 'events': evs}


def _reentrant():
    """the callback publishes k = 1..3 times and returns (`rp`) or raises (`rx`; k = 0: raises at once), in the steady
    state and inside a suppression period; vectors that raise one / two entries, raise nothing, over-claim, name an
    unknown node, are outdated in another entry, or are nowhere outdated and name no unknown node (then the handler
    only re-arms the periodic timer: the case in which a misplaced callback loses the announcement for a whole
    sync interval)"""
    me, a, b = NODES[0], NODES[1], NODES[2]
    for seq0 in (0, 2):
        for kind, ks in (('rp', (1, 2, 3)), ('rx', (0, 1, 3))):
            for k in ks:
                # steady state, unknown node (opens a suppression period) / then the timer
                yield {'seq0': seq0, 'events': [[kind, [[a, 3]], k], ['t'], ['t']]}
                # steady state, known nodes, nowhere outdated
                yield {'seq0': seq0, 'events': [['r', [[a, 2]]], ['t'], [kind, [[me, seq0], [a, 3]], k], ['t'], ['p'], ['t']]}
                # steady state, raises one entry and is outdated in another
                yield {'seq0': seq0, 'events': [['r', [[a, 5], [b, 5]]], ['t'], [kind, [[a, 7], [b, 1]], k], ['t']]}
                # inside a suppression period (opened by an outdated vector): raises / then what the period decides
                yield {'seq0': seq0, 'events': [['r', [[a, 5]]], ['t'], ['r', [[a, 1]]], [kind, [[a, 9]], k], ['t'], ['t']]}
                yield {'seq0': seq0, 'events': [['r', [[a, 5]]], ['t'], ['r', [[a, 1]]], [kind, [[a, 9], [b, 2]], k],
                                                ['r', [[a, 9], [b, 2], [me, seq0 + k]]], ['t']]}
                # two raised entries in one vector: one callback, one announcement
                yield {'seq0': seq0, 'events': [[kind, [[a, 3], [b, 4]], k], ['t'], [kind, [[a, 4], [b, 6]], k], ['t']]}
                # the callback does not fire: equal / older vector, over-claiming vector, empty vector
                yield {'seq0': seq0, 'events': [['r', [[a, 3]]], ['t'], [kind, [[a, 3]], k], [kind, [[a, 1]], k], ['t'],
                                                [kind, [[me, seq0 + 1], [a, 9]], k], [kind, [], k], ['t']]}
                # two receptions in a row whose callbacks publish, then a publication from outside
                yield {'seq0': seq0, 'events': [[kind, [[a, 1]], k], [kind, [[a, 2]], k], ['p'], ['t'], [kind, [[b, 1]], k]]}
    # the seeded-change input (C18-6) in both forms
    yield {'seq0': 0, 'events': [['rp', [['/n3', 10], ['/n3', 10]]]]}
    yield {'seq0': 0, 'events': [['r', [[a, 2]]], ['t'], ['rp', [[me, 0], [a, 3]], 1], ['t']]}


def _byte_cases(rng, n):
    """histories in which most received vectors are (mutated) component bytes"""
    from props import c18_bytes
    for _ in range(n):
        seq0 = rng.choice([0, 1, 3])
        hint = {'/n0': seq0}
        evs = []
        for _ in range(rng.randint(1, 8)):
            r = rng.random()
            if r < 0.7:
                b, _tag = c18_bytes.component(rng, _vector(rng, hint))
                evs.append(['comp', b.hex(), _tag])
            elif r < 0.8:
                evs.append(['r', _vector(rng, hint)])
            elif r < 0.9:
                evs.append(['p'])
                hint['/n0'] = hint.get('/n0', 0) + 1
            else:
                evs.append(['t'])
        yield {'seq0': seq0, 'events': evs}


def _explicit_ids(case):
    """the explicit names of a case: local node id, sync prefix, node ids of the received vectors"""
    out = []
    for k in ('me_arg', 'base_arg'):
        out += [x for x in (case.get(k) or {}).values() if isinstance(x, str) and x.startswith('~')]
    for e in case['events']:
        if e[0] in ('r', 'r@', 'rp', 'rx'):
            out += [x[0] for x in e[1] if isinstance(x[0], str) and x[0].startswith('~')]
    return out


def shrink(case):
    evs = case['events']

    def mk(events, **kw):
        d = dict(case)
        d['events'] = events
        d.update(kw)
        return d
    for i in range(len(evs)):
        yield mk(evs[:i] + evs[i + 1:])
    for i, e in enumerate(evs):
        if e[0] in ('r', 'r@', 'rp', 'rx') and len(e[1]) > 1:
            for j in range(len(e[1])):
                yield mk(evs[:i] + [[e[0], e[1][:j] + e[1][j + 1:]] + e[2:]] + evs[i + 1:])
        if e[0] in ('rp', 'rx'):
            k = e[2] if len(e) > 2 else 1
            if e[0] == 'rx':
                yield mk(evs[:i] + ([['rp', e[1], k]] if k else [['r', e[1]]]) + evs[i + 1:])
            if k > 1:
                yield mk(evs[:i] + [[e[0], e[1], k - 1]] + evs[i + 1:])
            if e[0] == 'rp':
                yield mk(evs[:i] + [['r', e[1]]] + evs[i + 1:])
        if e[0] in ('r@', 'p@'):
            yield mk(evs[:i] + [[e[0][0]] + e[1:]] + evs[i + 1:])
    # explicit node ids ('~type:hex/...'): one component dropped, a long value halved, a value emptied - replaced
    # wherever the id occurs in the case
    import json
    from props import c18_bytes
    text = json.dumps(case)
    ids = sorted(set(x for x in _explicit_ids(case)), key=len, reverse=True)
    for nid in ids:
        ps = c18_bytes.nid_pairs(nid)
        cands = [ps[:q] + ps[q + 1:] for q in range(len(ps))] if len(ps) > 1 else []
        for q, (t, v) in enumerate(ps):
            if len(v) > 4:
                cands.append(ps[:q] + [(t, v[:len(v) // 2])] + ps[q + 1:])
            elif v:
                cands.append(ps[:q] + [(t, b'')] + ps[q + 1:])
        for cand in cands:
            new = c18_bytes.nid_make(cand)
            if new != '~' and new not in ids:
                yield json.loads(text.replace(json.dumps(nid), json.dumps(new)))
    for k in ('twin', 'intervals', 'base_arg'):
        if case.get(k):
            d = dict(case)
            del d[k]
            yield d
    if case.get('me_arg') and case['me_arg'] != {'str': case.get('me')}:
        yield mk(evs, me_arg={'str': case['me']})
    if case['seq0'] > 0 and not any(k in case for k in ('me', 'late_start')):
        yield mk(evs, seq0=0)


# -------------------------------------------------------------------------------- implementation
class _FakeApp:
    def __init__(self):
        self.sent = []
        self.handlers = {}

    def attach_handler(self, prefix, handler, validator=None, *a, **k):
        from ndn import encoding as enc
        self.handlers[bytes(enc.Name.to_bytes(prefix))] = handler

    def detach_handler(self, prefix, *a, **k):
        from ndn import encoding as enc
        self.handlers.pop(bytes(enc.Name.to_bytes(prefix)), None)

    def express(self, name, validator, **kw):
        self.sent.append(name)


class CallbackFailed(Exception):
    """what the application's callback raises in an 'rx' event"""


def _due_class(inst, now):
    """which period the timer waits for, read off next_sync_timing: 's' = a sample of the steady period, 'u' = a sample
    of the suppression period, 'n' = now or overdue; None when the two sample ranges overlap at this value (the
    constructor stream has such intervals) or the value lies in neither"""
    d = inst.next_sync_timing - now
    if d <= 1e-9:
        return 'n'
    si, su = inst.sync_interval, inst.suppression_interval
    eps = 2e-3
    in_s = 0.9 * si - eps <= d <= 1.1 * si + eps
    in_u = 0.5 * su - eps <= d <= 1.5 * su + eps
    if in_s and not in_u:
        return 's'
    if in_u and not in_s:
        return 'u'
    return None if in_s else '?'


def _canon_vec(d):
    return sorted([k.hex(), v] for k, v in d.items())


def _name_arg(enc, arg):
    """the value handed to the constructor for a name: URI string, list of component strings, or encoded bytes; for an
    explicit name ('~...'): the fully escaped URI, the list of encoded components, or the encoded name - all three
    written by the harness's own TLV writer"""
    from props import c18_bytes
    if 'str' in arg:
        return c18_bytes.nid_uri(arg['str']) if arg['str'].startswith('~') else arg['str']
    if 'list' in arg:
        return list(arg['list'])
    if 'comps' in arg:
        return [bytes(c) for c in c18_bytes.nid_comps(arg['comps'])]
    if arg['bytes'].startswith('~'):
        return c18_bytes.name_bytes(arg['bytes'])
    return bytes(enc.Name.to_bytes(arg['bytes']))


def _nid_value(nid):
    """what is assigned to StateVecEntry.node_id: the URI, or the list of encoded components of an explicit id"""
    if isinstance(nid, str) and nid.startswith('~'):
        from props import c18_bytes
        return [bytes(c) for c in c18_bytes.nid_comps(nid)]
    return nid


def _base_uri(case):
    a = case.get('base_arg')
    if not a:
        return BASE
    return a.get('str') or a.get('bytes') or a.get('comps') or '/' + '/'.join(a['list'])


def run_impl(case):
    enc, svs_sync, StateVec, StateVecWrapper, StateVecEntry = _imports()
    rng = random.Random(1234)
    loop = vloop.new_loop()
    loop._vt = 1000.0

    class _T:
        time = staticmethod(lambda: loop.time())

    class _S:
        randbits = staticmethod(lambda n: rng.getrandbits(n))
    old = (svs_sync.time, svs_sync.secrets)
    svs_sync.time, svs_sync.secrets = _T, _S
    try:
        missing = []
        # 'rp' / 'rx': what the application does inside the missing-data callback (it is only required not to block):
        # [k, raises] = call new_data() k times, then return / raise.  Every invocation during that handler call does it.
        cb_plan = []

        def _on_missing(_inst):
            missing.append(1)
            if cb_plan:
                k, raises = cb_plan[0]
                for _ in range(k):
                    inst.new_data()
                if raises:
                    raise CallbackFailed('application callback failed')
        app = _FakeApp()
        me_uri = case.get('me', NODES[0])
        base_uri = _base_uri(case)
        from props import c18_bytes
        if base_uri.startswith('~'):
            base = [bytes(c) for c in c18_bytes.nid_comps(base_uri)]
            base_key = c18_bytes.name_bytes(base_uri)
        else:
            base = enc.Name.normalize(base_uri)
            base_key = bytes(enc.Name.to_bytes(base_uri))
        self_id = c18_bytes.name_bytes(me_uri) if me_uri.startswith('~') else enc.Name.to_bytes(me_uri)
        if case.get('twin'):
            # another instance of the class, used and stopped before this one is built: nothing of it may show here
            tapp = _FakeApp()
            twin = svs_sync.SvsInst(list(base) if base_uri.startswith('~') else base_uri, '/twin', lambda i: None, None, None, last_used_seq_num=7)
            twin.new_data()
            loop.call_now(twin.start, tapp)
            h = tapp.handlers.get(base_key)
            if h is not None:
                pkt = StateVecWrapper()
                pkt.val = StateVec()
                e = StateVecEntry()
                e.node_id, e.seq_no = '/n3', 99
                pkt.val.entries = [e]
                loop.call_now(h, base + [bytes(pkt.encode()), enc.Component.from_bytes(b'\x00' * 32, 2)], None, None, None)
            loop.call_now(twin.new_data)
            loop.call_now(twin.stop)
        kw = {}
        if case.get('intervals'):
            kw = {'sync_interval': case['intervals'][0], 'suppression_interval': case['intervals'][1]}
        inst = svs_sync.SvsInst(_name_arg(enc, case['base_arg']) if case.get('base_arg') else BASE,
                                _name_arg(enc, case['me_arg']) if case.get('me_arg') else me_uri,
                                _on_missing, None, None,
                                last_used_seq_num=case['seq0'], **kw)
        running = False
        initial = {'local': _canon_vec(inst.local_sv), 'self_seq': inst.self_seq}
        if not case.get('late_start'):
            loop.call_now(inst.start, app)
            running = True
            initial['local_started'] = _canon_vec(inst.local_sv)
        app.sent.clear()
        trace = []

        def _begin(kind):
            missing.clear()
            app.sent.clear()
            return {'ev': kind, 'state_before': inst.state.name, 'self_seq_before': inst.self_seq,
                    'local_before': _canon_vec(inst.local_sv), 'running': running}

        def _finish(rec, exc):
            rec['raised'] = exc
            rec['missing'] = len(missing)
            emitted = []
            for nm in app.sent:
                v = StateVecWrapper.parse(nm[-1]).val
                emitted.append(sorted([bytes(enc.Name.to_bytes(e.node_id or [])).hex(), e.seq_no]
                                      for e in (v.entries if v else [])))
                if bytes(enc.Name.to_bytes(list(nm[:-1]))) != base_key:
                    rec['emit_off_prefix'] = True
            rec['emitted'] = emitted
            rec['local'] = _canon_vec(inst.local_sv)
            rec['state'] = inst.state.name
            rec['self_seq'] = inst.self_seq
            rec['due'] = None if rec.get('exact') or not rec['running'] or not running else _due_class(inst, loop.time())
            trace.append(rec)

        for ev in case['events']:
            # 'r@' / 'p@': the vector / publication arrives at the very instant the timer is due (clock moved without
            # letting the timer task run; the handler is called directly, then the loop settles)
            kind, exact = ev[0].rstrip('@'), ev[0].endswith('@')
            if not running:
                # an instance that is not running has no handler attached and no timer: received vectors and timer
                # expiries are not events of its history; start() on a running instance raises by contract
                if kind not in ('p', 'start', 'stop', 'x') or (kind == 'x' and inst.ndn_app is None):
                    continue
                exact = False
            elif kind == 'start':
                continue
            rec = _begin(kind)
            exc = None
            if exact:
                rec['exact'] = True
                loop._vt = max(inst.next_sync_timing, loop.time())
            if kind in ('r', 'rp', 'rx', 'raw', 'badlen', 'comp'):
                if kind in ('rp', 'rx'):
                    cb_plan[:] = [[ev[2] if len(ev) > 2 else 1, kind == 'rx']]
                    rec['cb'] = list(cb_plan[0])
                if kind == 'comp':
                    comp = bytes.fromhex(ev[1])
                elif kind in ('r', 'rp', 'rx'):
                    pkt = StateVecWrapper()
                    pkt.val = StateVec()
                    pkt.val.entries = []
                    for nid, seq in ev[1]:
                        e = StateVecEntry()
                        e.node_id = _nid_value(nid)
                        e.seq_no = seq
                        pkt.val.entries.append(e)
                    comp = bytes(pkt.encode())
                elif ev[0] == 'raw':
                    comp = enc.Component.from_bytes(bytes.fromhex(ev[1]), 0xc9)
                else:
                    comp = enc.Component.from_bytes(b'', 0xc9)
                name = base + [comp, enc.Component.from_bytes(b'\x00' * 32, 2)]
                if ev[0] == 'badlen':
                    name = base + [comp]
                # the model gets the bytes of the component and decodes them itself; what the library's own decoder
                # makes of them is kept as a cross-check of the model's decoder and for the oracle
                from props import c18_bytes
                dec = None
                if ev[0] != 'badlen':
                    rec['comp'] = bytes(comp).hex()
                    rec['lib_view'], dec = c18_bytes.lib_view(bytes(comp), StateVecWrapper, enc.Name)
                rec['decoded'] = dec
                # the Interest goes to whatever start() attached under the sync prefix
                handler = app.handlers.get(base_key)
                if handler is None:
                    rec['no_handler'] = True
                    handler = lambda *a: None       # noqa
                try:
                    if exact:
                        handler(name, None, None, None)
                    else:
                        loop.call_now(handler, name, None, None, None)
                except Exception as e:           # noqa
                    exc = c18_bytes.exc_name(e)
                cb_plan.clear()
                if exact:
                    # whether the timer still expired at this instant is read off its observable effects: a timer in
                    # steady state emits, a timer in suppression returns to steady state
                    _finish(rec, exc)
                    rec = _begin('t')
                    rec['exact'] = True
                    loop.settle()
                    if app.sent or (rec['state_before'] == 'SyncSuppression' and inst.state.name == 'SyncSteady'):
                        _finish(rec, None)
                    continue
            elif kind == 'p':
                if exact:
                    inst.new_data()
                    loop.settle()
                else:
                    loop.call_now(inst.new_data)
            elif kind == 't':
                loop.advance(max(inst.next_sync_timing, loop.time()) + 1e-3)
            elif kind == 'ss':
                # stop, let the timer task finish, start again (stop immediately followed by start is kept out: see report)
                loop.call_now(inst.stop)
                loop.call_now(inst.start, app)
            elif kind == 'stop':
                loop.call_now(inst.stop)
                running = False
            elif kind == 'start':
                loop.call_now(inst.start, app)
                running = True
            elif kind == 'x':
                loop.call_now(inst.express_sync_interest)
            _finish(rec, exc)
        inst.stop()
        return {'self_id': bytes(self_id).hex(), 'trace': trace, 'loop_errors': loop.errors, 'initial': initial}
    finally:
        svs_sync.time, svs_sync.secrets = old
        loop.shutdown()


# ------------------------------------------------------------------------------------- model
_NOT_MODEL = ('ss', 'stop', 'start', 'x')


def _model_recs(impl):
    """the records that are events of the model.  A restart, stop(), start() and a sync Interest sent by hand are not:
    they must change nothing the model can see.  The model starts in the state right after the first start(): the
    publications made before it are folded into its initial sequence number."""
    started = not impl['trace'] or impl['trace'][0].get('running', True)
    out, pre = [], 0
    for rec in impl['trace']:
        if rec['ev'] == 'start':
            started = True
        if rec['ev'] in _NOT_MODEL:
            continue
        if not started:
            pre += 1
            continue
        out.append(rec)
    return out, pre


def model_line(case, impl):
    if case['seq0'] < 0:
        return None             # the model's sequence numbers are naturals: oracle only
    recs, pre = _model_recs(impl)
    if not any(r['ev'] == 'start' or r.get('running', True) for r in impl['trace']) and impl['trace']:
        return None             # never started
    toks = []
    for rec in recs:
        if rec['ev'] in ('r', 'rp', 'rx', 'raw', 'badlen', 'comp'):
            if rec.get('comp') is not None:
                # the real encoded component; `=<lib>` lets the driver compare its own decoder with the library's;
                # c<k> / x<k>: the application's callback calls new_data() k times and returns / raises
                head = 'b' if not rec.get('cb') else ('x' if rec['cb'][1] else 'c') + str(rec['cb'][0])
                toks.append(head + ':' + (rec['comp'] or '-') + '=' + rec['lib_view'])
            else:
                toks.append('u')
        else:
            toks.append(rec['ev'])
    return f"C18 {impl['self_id']} {case['seq0'] + pre} {';'.join(toks) if toks else '.'}"


def _pvec(s):
    if s == '.':
        return []
    return sorted([a.split(':')[0], int(a.split(':')[1])] for a in s.split(','))


def model_obs(answer, case, impl):
    assert answer.startswith('ok'), answer
    out = []
    for tok in answer.split()[1:]:
        tok, _, em = tok.partition('#')
        outs, loc = tok.split('@')
        loc, timer = loc.split('~')
        o = []
        if outs.startswith('!'):
            o = [['X', outs[1:]]]
        else:
            outs, bang, _ = outs.partition('!callback')
            if bang:
                o.append(['X', CallbackFailed.__name__])     # the exception of the application's callback propagated
            if outs != '-':
                for x in outs.split('+'):
                    o.append('M' if x == 'M' else ['E', _pvec(x[2:-1])])
        # what the model's encoder put into the name component, read back by the library's decoder (entry order
        # inside the component is not part of the property: compared as sorted vectors)
        from props import c18_bytes
        # protocol state and the period the timer task waits for (`*`: reset event left set - never, by
        # Ndn.C18.timer_task_at_rest)
        out.append([o, _pvec(loc), [c18_bytes.read_back(h) for h in em.split(',')] if em else [],
                    {'T': 'SyncSteady', 'S': 'SyncSuppression'}[timer[0]], timer[1:]])
    # a publication while the instance is not running cannot be announced before start(): the model's emission for it
    # is the one the oracle demands of the following start()
    for k, rec in enumerate(_model_recs(impl)[0]):
        if k >= len(out):
            break
        if rec['ev'] == 'p' and not rec.get('running', True):
            out[k] = [[], out[k][1], []] + out[k][3:]
        if rec.get('due') is None:
            # the timer is not observed for this record: the instance is not running, the record was taken before the
            # timer task ran (`exact`), or the sample ranges of the two periods overlap at the value read
            out[k][4] = None
    return out


def impl_obs(impl):
    out = []
    for rec in _model_recs(impl)[0]:
        o = ['M'] * rec['missing'] + [['E', v] for v in rec['emitted']]
        if rec.get('raised') and rec.get('comp') is not None:
            o = [['X', rec['raised']]] + o      # the handler raised: the model names the class that propagates
        # the model lists the callback after state update but emissions are separate events; order M then E
        # third item: the vectors carried by the emitted name components (the model's come from its own encoder)
        out.append([o, rec['local'], rec['emitted'], rec['state'], rec.get('due')])
    return out


# ------------------------------------------------------------------------------------- oracle
def _spec_vec(dec):
    """the vector a list of decoded entries denotes: entries lacking NodeId or SeqNo are not part of it;
    repeated ids: last wins"""
    d = {}
    for i, q in dec:
        if i is None or q is None or i == '':
            continue
        d[i] = q
    return d


def oracle(case, impl):
    """the property statement, evaluated on the implementation's observable behaviour"""
    self_id = impl['self_id']
    heard = None
    ini = impl.get('initial')
    if ini is not None:
        # nothing was received and nothing published yet: the vector holds nothing but the own (resumed) number
        if ini['self_seq'] != case['seq0']:
            return 'a new instance does not resume at the given last used sequence number'
        for loc in (ini['local'], ini.get('local_started', [])):
            if any(q != (case['seq0'] if i == self_id else 0) for i, q in loc):
                return 'a new instance starts with a local vector that is not its own sequence number alone'
    unannounced = False
    # `mode`: the protocol state as the STATEMENT fixes it, where it does (None = the implementation's word is taken):
    # a timer expiry ends the period (suppression or not), so the instance is steady afterwards whatever it says of
    # itself; in the steady state an accepted vector that carries a LOWER number than the local one for some node is
    # outdated and opens a suppression period.  (Whether a vector that merely lacks entries opens one is left to
    # the implementation: the statement does not say when a suppression period begins.)
    mode = None
    for k, rec in enumerate(impl['trace']):
        state_before = mode if mode is not None else rec['state_before']
        before = dict((a, b) for a, b in rec['local_before'])
        after = dict((a, b) for a, b in rec['local'])
        if rec.get('emit_off_prefix'):
            return f'event {k}: a sync Interest was emitted under a name that is not sync prefix + vector'
        if rec.get('no_handler'):
            return f'event {k}: a running instance has no handler attached under its sync prefix'
        for i, q in before.items():
            if after.get(i, 0) < q:
                return f'event {k}: local vector decreased at {i}'
        if rec['ev'] in ('r', 'rp', 'rx', 'raw', 'badlen', 'comp'):
            dec = rec['decoded']
            accepted = isinstance(dec, list) and len(dec) > 0
            vec = {}
            if accepted:
                for i, q in dec:
                    if i == self_id and q is not None and q > rec['self_seq_before']:
                        accepted = False
                vec = _spec_vec(dec)
            published = False
            if accepted:
                exp = dict(before)
                for i, q in vec.items():
                    if exp.get(i, 0) < q:
                        exp[i] = q
                raised = any(before.get(i, 0) < q for i, q in vec.items())
                # 'rp' / 'rx': the application answers the missing-data callback by publishing at once, n times, from
                # inside it (and returns or raises: the statement holds either way)
                n_pub = rec['cb'][0] if rec.get('cb') else 0
                published = raised and n_pub > 0
                if rec['missing'] > 1:
                    return f'event {k}: callback fired more than once'
                if published and rec['missing'] == 1:
                    if rec['self_seq'] != rec['self_seq_before'] + n_pub:
                        return (f'event {k}: {n_pub} publication(s) from the missing-data callback did not increase the '
                                f'sequence number by one each')
                    exp[self_id] = rec['self_seq']
                # entries equal to 0 may or may not be materialised; compare as total functions
                keys = set(exp) | set(after)
                if any(exp.get(i, 0) != after.get(i, 0) for i in keys):
                    return f'event {k}: local vector is not the entry-wise maximum of previous and received vector'
            else:
                if before != after:
                    return f'event {k}: a vector that is not accepted changed the local vector'
                if rec['state'] != rec['state_before']:
                    return f'event {k}: a vector that is ignored started or ended a suppression period'
                raised = False
            if (rec['missing'] > 0) != raised:
                return f'event {k}: missing-data callback fired={rec["missing"]} but vector raised an entry={raised}'
            if rec['missing'] > 1:
                return f'event {k}: callback fired more than once'
            if published:
                # every publication is announced promptly: each emission carries the full vector of its moment (at least
                # the previous own number + 1), the last one the final vector, and no more emissions than publications
                own = lambda v: dict((a, b) for a, b in v).get(self_id, -1)      # noqa
                if not rec['emitted'] or rec['emitted'][-1] != rec['local'] or len(rec['emitted']) > n_pub or \
                        any(own(v) <= rec['self_seq_before'] for v in rec['emitted']):
                    return (f'event {k}: a publication made from the missing-data callback did not promptly emit '
                            f'a sync Interest with the full vector (emitted {len(rec["emitted"])})')
                heard = None
                mode = None
                continue
            if rec['emitted']:
                return f'event {k}: sync Interest emitted while handling a received vector'
            if accepted:
                outdated = any(i in before and q < before[i] for i, q in vec.items())
                if state_before == 'SyncSteady' and (rec['state'] == 'SyncSuppression' or outdated):
                    heard = [vec]
                    mode = 'SyncSuppression'
                elif state_before == 'SyncSuppression' and heard is not None:
                    heard.append(vec)
                    mode = 'SyncSuppression'
                else:
                    mode = None
        elif rec['ev'] == 'p':
            heard = None
            mode = None
            if rec['self_seq'] != rec['self_seq_before'] + 1:
                return f'event {k}: publish did not increase the sequence number by one'
            if after.get(self_id) != rec['self_seq']:
                return f'event {k}: local vector does not carry the new sequence number'
            if any(after.get(i, 0) != q for i, q in before.items() if i != self_id) or \
                    any(i not in before and i != self_id and q != 0 for i, q in after.items()):
                return f'event {k}: publish changed the entry of another node'
            if rec.get('running', True):
                if rec['emitted'] != [rec['local']]:
                    return f'event {k}: publish did not promptly emit exactly one sync Interest with the full vector'
            else:
                # not running: there may be no front-end to emit through; what is emitted is the full vector, and the
                # publication is announced as soon as the instance runs
                if any(v != rec['local'] for v in rec['emitted']):
                    return f'event {k}: emitted vector is not the full local vector'
                unannounced = not rec['emitted']
            if rec['missing']:
                return f'event {k}: missing-data callback fired without a received vector'
        elif rec['ev'] in ('start', 'stop', 'x'):
            mode = None
            exp = dict(before)
            if rec['ev'] == 'start' and rec['self_seq'] >= 0:
                exp[self_id] = rec['self_seq_before']
            if any(exp.get(i, 0) != after.get(i, 0) for i in set(exp) | set(after)) or rec['self_seq'] != rec['self_seq_before']:
                return f'event {k}: {rec["ev"]} changed the local vector or the own sequence number'
            if rec['missing']:
                return f'event {k}: missing-data callback fired without a received vector'
            if any(v != rec['local'] for v in rec['emitted']):
                return f'event {k}: emitted vector is not the full local vector'
            if rec['ev'] == 'stop' and rec['emitted']:
                return f'event {k}: sync Interest emitted by stop()'
            if rec['ev'] == 'x' and len(rec['emitted']) != 1:
                return f'event {k}: express_sync_interest() did not emit exactly one sync Interest'
            if rec['ev'] == 'start':
                if unannounced and not rec['emitted']:
                    return f'event {k}: a publication made while not running was not announced promptly after start()'
                unannounced = False
                heard = None
        elif rec['ev'] == 'ss':
            if before != after or rec['self_seq'] != rec['self_seq_before']:
                return f'event {k}: stopping and starting again changed the local vector'
            if rec['missing']:
                return f'event {k}: missing-data callback fired without a received vector'
            mode = None
            if rec['state'] != rec['state_before']:
                heard = None
        elif rec['ev'] == 't':
            if state_before == 'SyncSuppression' and heard is not None:
                merged = {}
                for v in heard:
                    for i, q in v.items():
                        merged[i] = max(merged.get(i, 0), q)
                need = any(merged.get(i, 0) < q for i, q in after.items())
                if need != (len(rec['emitted']) > 0):
                    return (f'event {k}: after suppression emitted={len(rec["emitted"]) > 0} but local newer than '
                            f'merge of heard vectors={need}')
            for v in rec['emitted']:
                if v != rec['local']:
                    return f'event {k}: emitted vector is not the full local vector'
            heard = None
            mode = 'SyncSteady' if rec.get('running', True) else None
    if impl['loop_errors']:
        return f'background task error: {impl["loop_errors"][:2]}'
    return None


def nontrivial(case, impl):
    for rec in impl['trace']:
        if rec['missing'] or (rec['ev'] == 't' and rec['state_before'] == 'SyncSuppression'):
            return True
    return False


def tags(case, impl):
    t = []
    for rec in impl['trace']:
        t.append('ev:' + rec['ev'])
        if rec.get('raised'):
            t.append('handler-raised:' + rec['raised'])
        if rec['missing']:
            t.append('callback')
        if rec['ev'] == 't':
            t.append('timer-in-' + rec['state_before'] + ('-emit' if rec['emitted'] else '-silent'))
        if rec.get('cb'):
            t.append('cb-pub:%d%s' % (rec['cb'][0], '-raises' if rec['cb'][1] else ''))
            if rec['missing']:
                t.append('cb-fired-in-' + rec['state_before'])
        if rec['ev'] in ('r', 'raw', 'comp') and not isinstance(rec.get('decoded'), list):
            t.append('undecodable')
        if rec['ev'] == 'comp':
            t.append('comp-accepted' if rec['missing'] or rec['local'] != rec['local_before'] else 'comp-no-change')
    for e in case['events']:
        if e[0] == 'comp' and len(e) > 2:
            t.append('mut:' + e[2])
    t.append('len:%d' % len(case['events']))
    ids = set(_explicit_ids(case))
    if ids:
        from props import c18_bytes
        for k in ('me_arg', 'base_arg'):
            if str(next(iter((case.get(k) or {'': ''}).values()))).startswith('~'):
                t.append('explicit-' + k[:-4])
        for nid in ids:
            for ty, v in c18_bytes.nid_pairs(nid):
                cl = ('digest-len-32' if len(v) == 32 else 'digest-len-other') if ty in (1, 2) else \
                    ('number-width-1248' if len(v) in (1, 2, 4, 8) else 'number-width-other') if ty in NUM_TYPES else \
                    'generic' if ty == 8 else 'keyword' if ty == 32 else 'other-type'
                t.append('nid-comp:' + cl)
                if not v:
                    t.append('nid-comp:empty')
                if len(v) >= 253:
                    t.append('nid-comp:long')
                try:
                    v.decode()
                except UnicodeDecodeError:
                    t.append('nid-comp:non-utf8')
    for rec in impl['trace']:
        if rec['ev'] == 'p' and not rec.get('running', True):
            t.append('publish-while-not-running')
    if case.get('late_start'):
        t.append('late-start')
    if case['seq0'] > 7 or case['seq0'] < 0:
        t.append('resumed:' + ('neg' if case['seq0'] < 0 else 'lt2^32' if case['seq0'] < 2**32 else 'ge2^32'))
    for k in ('me_arg', 'base_arg'):
        if case.get(k):
            t.append(k + ':' + next(iter(case[k])))
    if case.get('intervals'):
        t.append('intervals')
    if case.get('twin'):
        t.append('twin')
    return t


def finding_key(case, impl, why):
    import re
    w = re.sub(r'event \d+: ', '', why)
    w = re.sub(r'[^a-zA-Z]+', '-', w).strip('-').lower()
    return w[:60]

LEVEL_TEXT = ('Lean 4 theorems over a hand-written model of SvsInst (sync_handler, aggregate, on_timer decision, new_data): '
              'entry-wise-max merge, monotonicity over all histories, over-claim ignored, callback iff raised, publish emits, '
              'suppression emission iff local newer than merge of heard vectors (invariant over every event history). '
              'Byte-level half, by composition with the proved generic TLV codec (C08 round trip, C07 decoder totality): '
              'the handler on the bytes of the name component is the model on the decoded entries for every byte string, '
              'with the exact classes it catches (regenerated from the except clause) and those that propagate; what a node '
              'emits after publishing decodes at the peer to exactly its local vector; feeding node A\'s emitted bytes to '
              'node B raises B\'s entries to at least A\'s. Well-formedness of the local vector (node ids = encoded non-empty '
              'names of single-TLV components, sequence numbers < 2^64) - the hypothesis of these encode-side theorems - is '
              'proved to be an invariant over every history of arbitrary received bytes (< 2^64 long), publications and timer '
              'expiries from start() (the decoder only delivers well-formed entries: C08.parse_wf), so the *_reachable '
              'versions need no such hypothesis; the one bound left is own sequence number + 1 < 2^64 before a publication. '
              'Re-entrancy and the timer task: a second, statement-level model (Ndn.Svs.stepX: sync_handler, new_data and on_timer '
              'in the order of their statements, next_sync_timing as steady period / suppression period / now and '
              'timer_rst_event in the state, the timer task running after the handler) with events for a missing-data callback '
              'that calls new_data() k times and returns or raises. Proved for every state at rest and every history: it '
              'refines the atomic model on the old events; the timer task is always parked on the period matching the protocol '
              'state (no publication left unannounced); a reception whose callback publishes = the reception followed by the '
              'publications (state for every k; state and outputs for k = 1: the position of the callback is unobservable); '
              'publications made inside the callback are announced within the same step by one Interest carrying the final '
              'vector, and leave a fresh steady period; local_is_max / monotonicity / callback-iff-raised / the suppression '
              'decision hold in the extended model; for the variant that invokes the callback before the timer bookkeeping '
              '(seeded C18-6) the equivalence fails on EVERY raising vector (no emission, timer parked on a whole period); a '
              're-entrant new_data() that does not reset self.state is provably unobservable. The driver runs this model on '
              'every event of every stream and also answers protocol state and timer period. '
              'The model is tied to the code on every run by differential execution of the compiled model against the real '
              'SvsInst on a virtual-time asyncio loop, plus the property oracle evaluated on the implementation.')
LEVEL_NOTE = ('Proof is about the model; model=code is sampled (differential testing), not proved. The expiry of a timer period '
              'is an abstract event; that the timer task runs right after the handler and fires at once on a zero timeout is the '
              'rendering of asyncio in the model (checked against the real loop on every case). '
              'Received vectors reach the model as component bytes (decoded by the model\'s own generic decoder, compared '
              'with the library\'s on every case); the components the model\'s encoder emits are read back by the library\'s decoder.')
TECHNIQUE = 'Lean 4 proof (induction over event histories, ghost-state invariant) + model/implementation correspondence check'
DESIGN_REF = 'DESIGN.md section 7, C18'
