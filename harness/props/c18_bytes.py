"""C18, byte-level half: the vector travels as the bytes of the name component `name[-2]`.

* `extract_text(repo)`  regenerates lean/NdnGen/C18.lean from the source of `SvsInst.sync_handler` (the `except (...)`
  clause around `StateVecWrapper.parse(name[-2])`), and refreshes lean/NdnGen/C08.lean (the StateVecWrapper schema
  the model's decoder interprets) with C08's own extractor.
* `component(rng, entries)`  a stream of *component bytes*: valid encodings mutated the way a peer or the network can
  (unknown critical / non-critical elements, non-minimal Type/Length forms, illegal integer widths, truncation inside
  the component, wrong Name type, empty name, other component types, random bytes).
* `lib_view(comp, …)`  what the library's own decoder makes of the same bytes (cross-check of the model's decoder).
"""
import ast
import os
import struct

KNOWN = {'DecodeError': '.decodeError', 'IndexError': '.indexError', 'ValueError': '.valueError',
         'TypeError': '.typeError', 'KeyError': '.keyError', 'error': '.structError',
         'AttributeError': '.attributeError', 'OverflowError': '.overflowError',
         'UnicodeDecodeError': '.unicodeError'}


def _cls_name(node):
    if isinstance(node, ast.Attribute):
        return node.attr
    if isinstance(node, ast.Name):
        return node.id
    return '?'


def extract_text(repo):
    import lib
    from props import c08
    text08 = c08.extract(repo)
    with lib.Lock(os.path.join(lib.LEAN, '.build.lock')):
        lib.write_if_changed(os.path.join(lib.LEAN, 'NdnGen', 'C08.lean'), text08)
    src = open(os.path.join(repo, 'src', 'ndn', 'app_support', 'svs', 'sync.py')).read()
    fn = next(n for n in ast.walk(ast.parse(src)) if isinstance(n, ast.FunctionDef) and n.name == 'sync_handler')
    caught, catch_all, cls, idx = [], False, '?', 0
    for t in ast.walk(fn):
        if not isinstance(t, ast.Try):
            continue
        calls = [c for b in t.body for c in ast.walk(b)
                 if isinstance(c, ast.Call) and isinstance(c.func, ast.Attribute) and c.func.attr == 'parse']
        if not calls:
            continue
        c = calls[0]
        cls = _cls_name(c.func.value)
        a = c.args[0] if c.args else None
        if isinstance(a, ast.Subscript):
            try:
                idx = int(ast.literal_eval(a.slice))
            except Exception:      # noqa
                idx = 0
        for h in t.handlers:
            if h.type is None:
                catch_all = True
                continue
            for e in (h.type.elts if isinstance(h.type, ast.Tuple) else [h.type]):
                n = _cls_name(e)
                if n in ('Exception', 'BaseException'):
                    catch_all = True
                else:
                    caught.append(KNOWN.get(n, '.other'))
        break
    out = ['import NdnModel.Basic',
           '/- GENERATED on every run by harness/props/c18.py from the source of',
           '   src/ndn/app_support/svs/sync.py : SvsInst.sync_handler (the `try: … StateVecWrapper.parse(name[-2]) …',
           '   except (…)` statement).  Do not edit. -/',
           'namespace Ndn.Gen.C18', 'open Ndn', '',
           '/-- the exception classes the handler catches (and logs) around the decoding of the vector -/',
           f"def caught : List PyErr := [{', '.join(caught)}]", '',
           '/-- the clause names `Exception` / `BaseException` (then every class is caught) -/',
           f"def catchAll : Bool := {'true' if catch_all else 'false'}", '',
           '/-- the model class whose `parse` is called, and the index of the name component it is called on -/',
           f'def parsedClass : String := "{cls}"',
           f'def parsedIndex : Int := {idx}', '',
           'end Ndn.Gen.C18']
    return '\n'.join(out) + '\n'


# --------------------------------------------------------------------------------------- independent TLV writer
def tlnum(v, form=None):
    """shortest form unless `form` (1, 3, 5, 9 bytes) is forced"""
    n = form or (1 if v <= 0xFC else 3 if v <= 0xFFFF else 5 if v <= 0xFFFFFFFF else 9)
    if n == 1:
        return bytes([v])
    if n == 3:
        return b'\xfd' + struct.pack('!H', v)
    if n == 5:
        return b'\xfe' + struct.pack('!I', v)
    return b'\xff' + struct.pack('!Q', v)


def tlv(t, v, tform=None, lform=None):
    return tlnum(t, tform) + tlnum(len(v), lform) + v


def uint_bytes(v, width=None):
    w = width or (1 if v <= 0xFF else 2 if v <= 0xFFFF else 4 if v <= 0xFFFFFFFF else 8)
    return v.to_bytes(w, 'big')


def nid_comps(nid):
    """the encoded components of a node id (or any name) as the cases write it: a URI of generic components ('/n1/x'), or
    the explicit form '~<type>:<value hex>/<type>:<value hex>...' - any component type, any value bytes, written by the
    independent TLV writer ('~' alone is the root name)"""
    if nid.startswith('~'):
        out = []
        for part in nid[1:].split('/'):
            if part:
                t, _, v = part.partition(':')
                out.append(tlv(int(t), bytes.fromhex(v)))
        return out
    return [tlv(8, c.encode()) for c in nid.split('/') if c]


def nid_pairs(nid):
    """[(type, value bytes)] of an explicit node id"""
    return [(int(p.partition(':')[0]), bytes.fromhex(p.partition(':')[2])) for p in nid[1:].split('/') if p]


def nid_make(pairs):
    return '~' + '/'.join('%d:%s' % (t, bytes(v).hex()) for t, v in pairs)


def nid_uri(nid):
    """an explicit node id as a URI in which every component carries its type number and every value byte is escaped
    (the spelling Name.from_str reads back to exactly these bytes)"""
    return '/' + '/'.join('%d=%s' % (t, ''.join('%%%02X' % b for b in v)) for t, v in nid_pairs(nid))


def name_bytes(uri):
    """encoded Name of a URI like /n1/x (generic components only) or of an explicit node id (see nid_comps)"""
    return tlv(7, b''.join(nid_comps(uri)))


def component(rng, entries):
    """component bytes for a vector `entries` = [[uri or None, seq or None], …], possibly mutated; returns (bytes, tag).
    The result is always ONE complete TLV element (that is what Name.decode hands to the handler as name[-2]);
    everything inside it may be wrong."""
    def entry(nid, seq, width=None):
        b = b''
        if nid is not None:
            b += name_bytes(nid)
        if seq is not None:
            b += tlv(0xcc, uint_bytes(seq, width))
        return b
    body = [entry(n, q) for n, q in entries]

    def wrap(bodies, extra=b''):
        return tlv(0xc9, b''.join(tlv(0xca, b) for b in bodies) + extra)
    r = rng.random()
    if r < 0.30 or not entries:
        return wrap(body), 'valid'
    k = rng.randrange(len(body))
    n, q = entries[k]
    q = q or 0
    if r < 0.38:          # unknown non-critical element inside an entry / between entries / after the last entry
        junk = tlv(rng.choice([0x64, 0xc8, 0x100, 0x20]), bytes(rng.randrange(256) for _ in range(rng.randint(0, 3))))
        where = rng.random()
        if where < 0.4:
            body[k] = rng.choice([junk + body[k], body[k] + junk])
            return wrap(body), 'junk-noncritical'
        if where < 0.7:
            return tlv(0xc9, b''.join(tlv(0xca, b) + (junk if i == k else b'') for i, b in enumerate(body))), 'junk-noncritical'
        return tlv(0xc9, junk + b''.join(tlv(0xca, b) for b in body)), 'junk-noncritical'
    if r < 0.46:          # unknown critical element
        junk = tlv(rng.choice([0x65, 0xc7, 0x101, 0x21]), bytes(rng.randrange(256) for _ in range(rng.randint(0, 3))))
        if rng.random() < 0.6:
            body[k] = rng.choice([junk + body[k], body[k] + junk])
            return wrap(body), 'junk-critical'
        return wrap(body, junk), 'junk-critical'
    if r < 0.54:          # integer of an illegal / non-minimal width
        w = rng.choice([3, 5, 0, 8, 2, 4, 9])
        v = (q % (1 << (8 * w))).to_bytes(w, 'big') if w else b''
        body[k] = (name_bytes(n) if n is not None else b'') + tlv(0xcc, v)
        return wrap(body), 'uint-width-%d' % w
    if r < 0.62:          # non-minimal Type / Length forms
        # (a 3-byte Length form cannot carry more than 65535: the 5-byte form then)
        inner = b''.join(tlv(0xca, b, rng.choice([None, 3]), max(rng.choice([3, 5]), 5 if len(b) > 0xffff else 0))
                         if i == k else tlv(0xca, b) for i, b in enumerate(body))
        lform = rng.choice([None, 3])
        return tlv(0xc9, inner, None, 5 if lform and len(inner) > 0xffff else lform), 'non-minimal-tl'
    if r < 0.72:          # inner Lengths lie: an element reaches past the end of the (complete) component
        inner = b''.join(tlv(0xca, b) for b in body)
        cut = rng.randint(1, max(1, min(6, len(inner) - 1)))
        return tlv(0xc9, inner[:-cut]), 'inner-truncated'
    if r < 0.78:          # entry fields in the other order (SeqNo before NodeId)
        if n is not None:
            body[k] = tlv(0xcc, uint_bytes(q)) + name_bytes(n)
        return wrap(body), 'fields-swapped'
    if r < 0.83:          # empty name / a generic component where the Name should be
        if rng.random() < 0.5:
            body[k] = tlv(7, b'') + tlv(0xcc, uint_bytes(q))
            return wrap(body), 'empty-name'
        body[k] = tlv(8, b'ab') + tlv(0xcc, uint_bytes(q))
        return wrap(body), 'generic-instead-of-name'
    if r < 0.88:          # a name whose component overruns the name
        body[k] = bytes([7, 3, 8, 5, 0x61]) + tlv(0xcc, uint_bytes(q))
        return wrap(body), 'name-component-overrun'
    if r < 0.94:          # another component type around a valid vector / the StateVec without its wrapper / nested
        inner = b''.join(tlv(0xca, b) for b in body)
        return rng.choice([tlv(8, inner), tlv(0xca, body[0]), tlv(0xc9, tlv(0xc9, inner)), tlv(0xc9, b'')]), 'other-outer'
    return tlv(0xc9, bytes(rng.randrange(256) for _ in range(rng.randint(0, 10)))), 'random'


# --------------------------------------------------------------------------------------- the library's own view
def exc_name(e):
    return 'struct.error' if isinstance(e, struct.error) else type(e).__name__


def lib_view(comp, StateVecWrapper, Name):
    """(`r:<entries>` | `x:<class>`, decoded entries | 'raises:<class>'): what StateVecWrapper.parse makes of the
    component bytes (an empty, hence falsy, name is the empty id)"""
    try:
        v = StateVecWrapper.parse(comp).val
    except Exception as e:       # noqa - whether the handler catches it is the handler's business
        return 'x:' + exc_name(e), 'raises:' + exc_name(e)
    dec = [] if v is None or not v.entries else [
        [None if e.node_id is None else (bytes(Name.to_bytes(e.node_id)).hex() if e.node_id else ''), e.seq_no]
        for e in v.entries]
    return 'r:' + '|'.join(f"{'~' if i is None else i}/{'~' if q is None else q}" for i, q in dec), dec


def read_back(hexs):
    """sorted vector the library's decoder reads out of a component the MODEL's encoder produced"""
    if hexs.startswith('err:'):
        return hexs
    from ndn import encoding as enc
    from ndn.app_support.svs.tlv import StateVecWrapper
    v = StateVecWrapper.parse(bytes.fromhex(hexs)).val
    return sorted([bytes(enc.Name.to_bytes(e.node_id)).hex(), e.seq_no] for e in (v.entries if v else []))
